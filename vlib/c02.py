"""C02 — adverbs equal their definitional expansion.

Oracle (needs no model): the adverb expression evaluated as source text vs. the expansion the
manual gives, computed by *separately evaluated applications of the same verb* on the real
interpreter (plus the call log of instrumented Python callables).
Correspondence: the Lean adverb machines (`Klong.C02`, reference and implementation model run in
a logging monad) on the modelled verbs / operands: same result, same call sequence.
"""
import itertools
import signal
import sys

from . import common
from . import universe as U
from .common import Driver

CLAIM = dict(
    text="Lean 4 theorems, for EVERY verb in EVERY lawful monad (effects, failures, logging) and every operand: "
         "the implementation model of Over, Over-Neutral, Scan-Over, Scan-Over-Neutral, Each, Each-Left, Each-Right, "
         "Each-Pair, Iterate, Scan-Iterating (functools.reduce / itertools.accumulate / comprehensions as written in "
         "adverbs.py) equals the manual's expansion as a monadic program (same calls, same order, same result); the "
         "operator shortcuts (ufunc.reduce / accumulate, min/max) are sound against the generic fold. Likewise "
         "Each-Index, Each-2 (empty / atom-atom / pairwise clauses, result join), Each on strings and dictionaries (each "
         "[key value] tuple exactly once), and with explicit fuel Converge, Scan-Converging, While, Scan-While (the Python "
         "while loops against the manual's recursion, for every fuel; the value returned by Converge is the first iterate "
         "that the verb maps to a matching value). chain_adverbs builds, for every chain length, the left-to-right "
         "composition in which only the first adverb sees the verb's operator. Tied to klongpy "
         "by adverb x verb x operand evaluation with call logs; chains are compared with their lambda-wrapped form and "
         "with the Lean chain machine; the convergence family runs under a step budget.",
    note="trusted: Lean kernel, numpy ufunc.reduce/accumulate = left fold over axis 0 (modelled; floating-point "
         "pairwise summation by tolerance), canonicaliser, the harness' expansion evaluator",
    technique="Lean 4 equational proofs over an arbitrary lawful monad + shortcut soundness, differential correspondence "
              "with call logs, definitional-expansion oracle on the real interpreter",
    design="7/C02")

MODULES = ["Klong.Props.C02", "Klong.Props.C02Ext"]
THEOREMS = [
    "Klong.C02.over_eq", "Klong.C02.over_neutral_eq", "Klong.C02.scan_eq", "Klong.C02.scan_neutral_eq",
    "Klong.C02.each_eq", "Klong.C02.each_left_eq", "Klong.C02.each_right_eq", "Klong.C02.each_pair_eq",
    "Klong.C02.iterate_eq", "Klong.C02.scan_iterating_eq",
    "Klong.C02.over_shortcut_sound", "Klong.C02.scan_shortcut_sound",
    "Klong.C02.over_calls_verb_n_minus_1_times",
    # Klong.Props.C02Ext
    "Klong.C02.each_index_eq", "Klong.C02.each_index_eq_of_not_str", "Klong.C02.each2_eq",
    "Klong.C02.each2_join_sound", "Klong.C02.each_x_eq", "Klong.C02.each_dict_eq",
    "Klong.C02.each_dict_calls_each_pair_once",
    "Klong.C02.converge_eq", "Klong.C02.scan_converging_eq", "Klong.C02.while_eq", "Klong.C02.scan_while_eq",
    "Klong.C02.converge_fixpoint",
    "Klong.C02.chain_eq", "Klong.C02.refChain_snoc", "Klong.C02.chain_eq_snoc",
    "Klong.C02.chain_pinned_op_leak_observable", "Klong.C02.each_index_pystr_observable",
    "Klong.C02.each2_u1_join_observable",
]

OPS2 = ["+", "-", "*", "%", "&", "|", ",", "=", "<", ">", "~", "!"]   # ^: kind of integral results is unspecified
LAM2 = ["{x+y}", "{x-y}", "{y-x}", "{(2*x)+y}", "{x,y}", "{x,,y}"]
LAM1 = ["{x+1}", "{-x}", "{x,x}", "{#x}", "{,x}", "{x}"]
PROJ1 = ["pj1", "pj2"]          # pj1::{x+y}(1;)  pj2::{x-y}(;1)
OPS1 = ["-", "#", "|", ","]
MODELLED2 = {"+", "-", "*", "&", "|", ",", "=", "<", ">", "{x-y}", "{y-x}", "{(2*x)+y}", "{x,y}", "{x,,y}"}
MODELLED1 = set(LAM1) - {"{#x}"}


class Real:
    """the real interpreter plus helpers to apply a verb to already evaluated values"""

    def __init__(self):
        from klongpy import KlongInterpreter
        self.k = KlongInterpreter()
        self.log = []
        real = self

        def pyadd(x, y):
            real.log.append((U.canon(x), U.canon(y)))
            return x + y

        def pyinc(x):
            real.log.append((U.canon(x),))
            return x + 1
        def pylog(x):
            real.log.append((U.canon(x),))
            return x

        def pyhalf(x):
            real.log.append((U.canon(x),))
            return abs(x) // 2 * (1 if x >= 0 else -1)       # integer quotient, truncated like :%

        def pylt10(x):
            real.log.append((U.canon(x),))
            return 1 if x < 10 else 0
        self.k["pyadd"] = pyadd
        self.k["pyinc"] = pyinc
        self.k["pylog"] = pylog
        self.k["pyhalf"] = pyhalf
        self.k["pylt10"] = pylt10
        self.k("pj1::{x+y}(1;)")
        self.k("pj2::{x-y}(;1)")
        self.n = 0

    def bind(self, v):
        self.n += 1
        name = f"t{self.n % 40}q"
        self.k[name] = v
        return name

    def app2(self, verb, x, y):
        if verb in ATOMIC:
            ex, ey = self.elems(x), self.elems(y)
            if ex is not None and ey is not None and len(ex) != len(ey):
                raise Skip()          # atomic verb on lists of different length: undefined
            if (ex is not None and not len(ex)) or (ey is not None and not len(ey)):
                raise Skip()
        a, b = self.bind(x), self.bind(y)
        if verb in OPS2:
            return self.k(f"{a}{verb}{b}")
        return self.k(f"{verb}({a};{b})")

    def app1(self, verb, x):
        a = self.bind(x)
        if verb in OPS1:
            return self.k(f"{verb}{a}")
        return self.k(f"{verb}({a})")

    def elems(self, a):
        """members of a list / characters of a string; None for atoms"""
        from klongpy.core import KGChar, KGSym
        import numpy as np
        if isinstance(a, str) and not isinstance(a, (KGChar, KGSym)):
            return [KGChar(c) for c in a]
        if isinstance(a, np.ndarray) and a.ndim > 0:
            return list(a)
        if isinstance(a, list):
            return list(a)
        return None

    def is_list(self, a):
        import numpy as np
        return isinstance(a, list) or (isinstance(a, np.ndarray) and a.ndim > 0)

    def pair(self, i, e):
        """the two-element list [i e] (built like any list literal is, not by a verb)"""
        return self.k._backend.kg_asarray([i, e])

    def mklist(self, xs):
        """the list of separately computed values (kept on the Python side as a marker)"""
        return ExpList(xs)


class Skip(Exception):
    pass


class ExpList(list):
    """a list assembled by the expansion evaluator"""


def canon_x(v):
    if isinstance(v, ExpList):
        return ('L', [canon_x(x) for x in v])
    return U.canon(v)


def norm(v):
    """Klong identifies a non-empty list of characters with a string"""
    if v[0] == 'L':
        xs = [norm(x) for x in v[1]]
        if xs and all(x[0] == 'c' for x in xs):
            return ('s', "".join(x[1] for x in xs))
        return ('L', xs)
    return v


ATOMIC = {"+", "-", "*", "%", "&", "|", "=", "<", ">", "!", "^", "{x+y}", "{x-y}", "{y-x}", "{(2*x)+y}",
          "{pyadd(x;y)}", "{x+1}", "{-x}", "-", "pj1", "pj2", "pyinc", "{pj1(x)}", "{pj2(x)}", "{pyinc(x)}"}
TEXT_OK = {",", "~", "{x,y}", "{x,,y}", "{x}", "{,x}", "{x,x}", "{#x}", "#", "|", "{x@1}", "{*x}",
           "{y}", '{x;y;"a"}', "{x;y;0ca}", "pylog", "{x@0}"}

# --- the adverbs of Klong.Model.C02Ext (driver request `advx`)
LEAN_VERB = {"pyinc": "{x+1}", "{pyinc(x)}": "{x+1}", "{pyadd(x;y)}": "+", "pylog": "{x}", "{pylog(x)}": "{x}",
             "{pyhalf(x)}": "{x:%2}", "{pylt10(x)}": "{x<10}"}
MODELLED_IDX = {"{x+1}", "{-x}", "{x,x}", "{#x}", "{,x}", "{x}", "{x@1}", "{x@0}", "{*x}", "{(*x)+#x@1}"}
TEXT_MODELLED = {",", "{x,y}", "{x}", "{,x}", "{x,x}", "{x@1}", "{x@0}", "{*x}", "{#x}"}


def wire_ok(v):
    """values the Lean machines handle exactly: integers, characters, strings, lists and dictionaries of those"""
    t = v[0]
    if t in "ics":
        return True
    if t == 'L':
        return all(wire_ok(x) for x in v[1])
    if t == 'D':
        return all(wire_ok(k) and wire_ok(x) for k, x in v[1])
    return False


def has_text_d(v):
    return has_text(v) or (v[0] == 'D' and any(has_text(k) or has_text(x) for k, x in v[1]))


def sort_members(v):
    """the members of a list in a canonical order (Each over a dictionary: "in some random order")"""
    return ('L', sorted(v[1], key=repr)) if v[0] == 'L' else v


def lean_log(rep_impl):
    """the call log printed by the driver -> list of tuples of wire strings"""
    if " log=" not in rep_impl:
        return None
    body = rep_impl.split(" log=", 1)[1].strip()
    if not body:
        return []
    return [tuple(a.strip() for a in call.split(",")) for call in body.split("|")]


def real_log_wire(log):
    return [tuple(U.to_wire(norm(a)) for a in call) for call in log]


class Budget(BaseException):
    pass


WALL_LIMIT_S = 8.0


def guarded(fn, limit=400000):
    """run fn() under a budget of profile events (Python and C calls; no wall clock):
    ('ok', value) / ('err', exception) / ('hang', None) when the budget is exceeded"""
    cnt = [0]

    def prof(frame, ev, arg):
        if ev == "call" or ev == "c_call":
            cnt[0] += 1
            if cnt[0] > limit:
                sys.setprofile(None)
                raise Budget()

    def on_alarm(signum, frame):
        sys.setprofile(None)
        raise Budget()

    # (a verb that doubles its operand at every step spends its time inside a few huge copies, not in calls:
    # a wall-clock limit next to the event budget, so that a loop that should have stopped cannot eat the machine)
    old_handler = signal.signal(signal.SIGALRM, on_alarm)
    signal.setitimer(signal.ITIMER_REAL, WALL_LIMIT_S)
    sys.setprofile(prof)
    try:
        v = fn()
        sys.setprofile(None)
        return ("ok", v)
    except Budget:
        return ("hang", None)
    except (RecursionError, MemoryError):
        sys.setprofile(None)
        return ("err", RecursionError("deep"))
    except Exception as e:  # noqa
        sys.setprofile(None)
        return ("err", e)
    finally:
        sys.setprofile(None)
        signal.setitimer(signal.ITIMER_REAL, 0)
        signal.signal(signal.SIGALRM, old_handler)


def mixed_numeric_array(v):
    """a regular nest of numbers holding both integers and reals (numpy stores it as one
    float array, so the integer kind of some members is lost) — C01's known class"""
    from .c01 import num_shape
    if v[0] != 'L':
        return False
    if num_shape(v) is not None:
        kinds = set()

        def leaves(x):
            if x[0] == 'L':
                for y in x[1]:
                    leaves(y)
            else:
                kinds.add(x[0])
        leaves(v)
        if kinds == {'i', 'r'}:
            return True
    return any(mixed_numeric_array(x) for x in v[1])


def scan_compiled_class(a):
    """Scan-Over of an atom or of a rank>=2 array through the expression compiler (np.cumsum /
    np.cumprod flatten) — the deviation named in property C05"""
    from .c01 import num_shape
    s = num_shape(a)
    return s is not None and (len(s) == 0 or len(s) >= 2)


def has_text(v):
    return v[0] in "csy" or (v[0] == 'L' and any(has_text(x) for x in v[1]))


def pathological(v):
    """C01 known classes that would only be re-reported here: irregular nests stored as rank>=2
    object arrays, and lists mixing integers and reals at one level"""
    from .c01 import num_shape, np_shape
    return (v[0] == 'L' and num_shape(v) is None and len(np_shape(v)) >= 2) or U.has_mixed_numeric_level(v)


def expansion(r, adv, verb, args):
    """the manual's definition written out as plain applications of the verb"""
    if adv == "/" and len(args) == 1:
        es = r.elems(args[0])
        if not es:
            return args[0]
        acc = es[0]
        for e in es[1:]:
            acc = r.app2(verb, acc, e)
        return acc
    if adv == "/" and len(args) == 2:
        es = r.elems(args[1])
        if es is None:
            return r.app2(verb, args[0], args[1])
        acc = args[0]
        for e in es:
            acc = r.app2(verb, acc, e)
        return acc
    if adv == "\\" and len(args) == 1:
        es = r.elems(args[0])
        if not es:
            return args[0]
        acc = es[0]
        out = [acc]
        for e in es[1:]:
            acc = r.app2(verb, acc, e)
            out.append(acc)
        return r.mklist(out)
    if adv == "\\" and len(args) == 2:
        es = r.elems(args[1])
        if es is not None and len(es) == 0:
            return args[0]
        if es is None:
            es = [args[1]]
        acc = args[0]
        out = [acc]
        for e in es:
            acc = r.app2(verb, acc, e)
            out.append(acc)
        return r.mklist(out)
    if adv == "'" and len(args) == 1:
        if isinstance(args[0], dict):
            # "apply f to each tuple stored in the dictionary"
            return r.mklist([r.app1(verb, r.pair(k, v)) for k, v in args[0].items()])
        es = r.elems(args[0])
        if es is None:
            return r.app1(verb, args[0])
        if not es:
            return args[0]
        return r.mklist([r.app1(verb, e) for e in es])
    if adv == "'" and len(args) == 2:
        ea, eb = r.elems(args[0]), r.elems(args[1])
        if ea is None and eb is None:
            return r.app2(verb, args[0], args[1])
        if (ea is not None and not ea) or (eb is not None and not eb):
            # "If either a or b is [], ignore f and return []" (no members at all: "" when no list is involved)
            return r.k("[]") if r.is_list(args[0]) or r.is_list(args[1]) else ""
        if ea is None or eb is None:
            raise Skip()                  # an atom with a non-empty list: the manual defines nothing
        # "When the lengths of a and b differ, ignore any excess elements of the longer list"
        return r.mklist([r.app2(verb, x, y) for x, y in zip(ea, eb)])
    if adv == ":\\":
        es = r.elems(args[1])
        if es is None or not es:
            raise Skip()
        return r.mklist([r.app2(verb, args[0], e) for e in es])
    if adv == ":/":
        es = r.elems(args[1])
        if es is None or not es:
            raise Skip()
        return r.mklist([r.app2(verb, e, args[0]) for e in es])
    if adv == ":'":
        es = r.elems(args[0])
        if es is None or len(es) < 2:
            return args[0]
        return r.mklist([r.app2(verb, x, y) for x, y in zip(es, es[1:])])
    if adv == "@'":
        es = r.elems(args[0])
        if es is None:
            return r.app1(verb, r.pair(0, args[0]))
        if not es:
            return args[0]
        return r.mklist([r.app1(verb, r.pair(i, e)) for i, e in enumerate(es)])
    if adv == ":*":
        n, b = args
        for _ in range(int(n)):
            b = r.app1(verb, b)
        return b
    if adv == "\\*":
        n, b = args
        if int(n) == 0:
            return b
        out = [b]
        for _ in range(int(n)):
            b = r.app1(verb, b)
            out.append(b)
        return r.mklist(out)
    raise Skip()


def adverb_text(adv, verb, names):
    if len(names) == 1:
        return f"{verb}{adv}{names[0]}"
    if verb in ("pj1", "pj2", "pyinc"):        # a named function between two operands is not Klong syntax
        verb = "{" + verb + "(x)}"
    return f"{names[0]}{verb}{adv}{names[1]}"


def gen_cases(ctx):
    quick = ctx.tier == "quick"
    lists = [v for v in U.LISTS if not U.has_mixed_numeric_level(v)] + U.STRS
    atoms = [U.I(3), U.I(0), U.R(1.5), U.C("a")]
    operands = lists + atoms
    v2 = OPS2 + LAM2 + ["{pyadd(x;y)}"]
    v1 = LAM1 + PROJ1 + OPS1 + ["pyinc"]
    cases = []
    for verb in v2:
        for a in operands:
            cases.append(("/", verb, (a,)))
            cases.append(("\\", verb, (a,)))
            cases.append((":'", verb, (a,)))
        for a in atoms[:3] + [U.from_py([1, 2]), U.from_py([])]:
            for b in operands:
                cases.append(("/", verb, (a, b)))
                cases.append(("\\", verb, (a, b)))
                cases.append((":\\", verb, (a, b)))
                cases.append((":/", verb, (a, b)))
        for a in lists:
            for b in lists:
                if a[0] == 'L' and b[0] == 'L' and len(a[1]) == len(b[1]):
                    cases.append(("'", verb, (a, b)))
    for verb in LAM1 + ["{x@1}", "{*x}", "{(*x)+#x@1}", "{x@0}", "pylog"]:
        for a in operands:
            cases.append(("@'", verb, (a,)))
    for verb in v1:
        for a in operands:
            cases.append(("'", verb, (a,)))
        for n in (0, 1, 2, 3):
            for b in operands[::3]:
                cases.append((":*", verb, (U.I(n), b)))
                cases.append(("\\*", verb, (U.I(n), b)))
    if quick:
        ctx.rng.shuffle(cases)
        cases = cases[:3500]
    return cases


def gen_ext_cases(ctx):
    """cases for the adverbs of Klong.Model.C02Ext that the closed universe above does not reach"""
    cases = []
    # Each-2: unequal lengths, empty operands, strings, a verb returning one-character strings
    e2 = [U.from_py(x) for x in ([1, 2, 3], [4, 5], [7], [], [[1, 2], [3]], [1, [2]], "ab", "cd", "abc", "a", "")] \
        + [U.I(3), U.C("a")]
    for verb in [",", "{x,y}", "{x,,y}", "{y}", "~", "+", "-", "{x-y}", '{x;y;"a"}', "{x;y;0ca}", "{pyadd(x;y)}"]:
        for a in e2:
            for b in e2:
                cases.append(("'", verb, (a, b)))
    # Each over dictionaries: f is applied to every [key value] tuple
    dicts = [('D', [(U.I(1), U.I(2)), (U.I(3), U.I(4))]), ('D', []), ('D', [(U.I(5), U.I(6))]),
             ('D', [(U.S("a"), U.from_py([1, 2])), (U.I(0), U.S("xy")), (U.I(7), U.I(7))])]
    for verb in ["{x}", "{x@0}", "{x@1}", "{,x}", "{#x}", "{*x}", "{x,x}", "pylog"]:
        for d in dicts:
            cases.append(("'", verb, (d,)))
    if ctx.tier == "quick":
        ctx.rng.shuffle(cases)
        cases = cases[:900]
    return cases


def classify(adv, verb, args):
    sc = ":".join(_shape(a) for a in args)
    return f"{adv}:{verb}:{sc}"


def nonempty_str(v):
    return v[0] == 's' and len(v[1]) > 0


def short_strings(v):
    """a non-empty list all of whose members are strings (not characters) of length <= 1"""
    return v[0] == 'L' and len(v[1]) > 0 and all(x[0] == 's' and len(x[1]) <= 1 for x in v[1])


def _shape(v):
    from .c01 import shape_class
    if v[0] == 'D':
        return "dict"
    return shape_class(v)


CHAIN_MODELLED = {"+", "-", "*", ",", "&", "{x-y}", "{x,y}"}


def chain_case(ctx, r, drv, verb, advs, a):
    """v a1 a2 ... ak operand == {{{v a1 x} a2 x} ... } ak operand, and the Lean chain machine"""
    from .c01 import num_shape
    if pathological(a):
        ctx.bump("skip:outside-reference")       # C01's known class (irregular nest stored as a rank>=2 object array)
        return
    name = r.bind(r.k(U.klit(a, False)))
    tail = "".join(advs)
    chain = f"{verb}{tail}{name}"
    w = f"{verb}{advs[0]}x"
    for adv in advs[1:-1]:
        w = f"{{{w}}}{adv}x"
    wrapped = f"{{{w}}}{advs[-1]}{name}"
    st, v = guarded(lambda: r.k(wrapped), 200000)
    if st != "ok":
        ctx.bump("chain:wrapped-form-raises")     # outside the reference (e.g. Over with a monad)
        return
    want = U.canon(v)
    st, v = guarded(lambda: r.k(chain), 200000)
    got = U.canon(v) if st == "ok" else ('E', "exceeds the step budget" if st == "hang" else type(v).__name__)
    ctx.count(("chain", chain, a))
    ctx.bump("chain:compared" + (f":k={len(advs)}" if len(advs) > 2 else ""))
    if got[0] == 'E' or not U.veq(want, got):
        ctx.oracle_fail(f"chain:{verb}{tail}:{_shape(a)}", dict(text=f"{verb}{tail}{U.klit(a, False)}"),
                        U.show(want), U.show(got) if got[0] != 'E' else f"raises {got[1]}",
                        "chained adverbs must compose left to right: equal to the lambda-wrapped form "
                        f"{{{w}}}{advs[-1]}a")
        return
    regular = num_shape(a) is not None or verb in (",", "{x,y}")   # (atomic verbs between rows of different length:
    if drv and verb in CHAIN_MODELLED and U.int_only(a) and U.depth(a) >= 1 and regular:   # numpy broadcasts, C01)
        lverb = "{-x}" if (verb == "-" and advs[0] == "'") else verb
        if advs[0] == "'" and lverb == verb:
            return
        op = verb if verb in OPS2 else "-none-"
        rep = drv.ask(f"chain {lverb} {op} {','.join(advs)} {U.to_wire(a)}")
        if " impl=" not in rep:
            return
        impl = rep.split(" impl=")[1].split(" pinned=")[0]
        ref = rep.split(" impl=")[0][len("ref="):]
        if impl.startswith("ok:"):
            iv = norm(U.from_wire(impl[3:].split(" log=")[0]))
            if not U.veq(iv, norm(got)):
                ctx.mismatch(f"Klong.C02 implChain vs chain_adverbs", dict(text=f"{verb}{tail}{U.klit(a, False)}"),
                             U.show(iv), U.show(got))
            elif ref.startswith("ok:") and not U.veq(norm(U.from_wire(ref[3:].split(" log=")[0])), iv):
                ctx.mismatch(f"Klong.C02 refChain vs implChain", dict(text=f"{verb}{tail}{U.klit(a, False)}"),
                             ref, impl)
            else:
                ctx.bump("model-agrees:chain")
        elif impl.startswith("err"):
            ctx.mismatch(f"Klong.C02 implChain vs chain_adverbs", dict(text=f"{verb}{tail}{U.klit(a, False)}"),
                         "err", U.show(got))


def run_chains(ctx, r, drv=None):
    """chains compose left to right: v a1 a2 operand == {v a1 x} a2 operand"""
    # manual: "subsequent adverbs must be adverbs of monadic verbs, because the first verb-adverb
    # combination in a chain of adverbs forms a monad"
    firsts = ["/", "\\", ":'", "'"]
    seconds = ["'", ":~", "\\~", "@'"]
    verbs = ["+", "-", "*", ",", "&", "{x-y}", "{x,y}"]
    operands = [U.from_py(x) for x in ([1, 2, 3, 4], [[1, 2, 3], [4, 5, 6], [7, 8, 9]], [[1, 2], [3, 4]],
                                       [[5], [6, 7]], [3], [[[1, 2], [3, 4]], [[5, 6], [7, 8]]],
                                       [[[1, 2, 3]], [[4, 5, 6]]])]
    for a1, a2, verb, a in itertools.product(firsts, seconds, verbs, operands):
        if a1 == "'" and verb not in ("-",):       # Each needs a monad
            continue
        if a2 in (":~", "\\~") and (a1 != "/" or verb not in (",", "&", "|", "+", "*")):
            continue                                # only chains whose definition has a fixpoint
        if a2 == "@'" and a1 not in ("/", ":'"):
            continue
        chain_case(ctx, r, drv, verb, [a1, a2], a)
    # three and four adverbs
    deep = [U.from_py(x) for x in ([[[1, 2], [3, 4]], [[5, 6]]], [[[1], [2, 3]]], [[1, 2], [3, 4]],
                                   [[[1, 2, 3]], [[4], [5, 6]]], [1, [2, [3, [4], 5], 6], 7])]
    longer = [["/", "'", "'"], ["\\", "'", "'"], [":'", "'", "'"], ["/", "'", ":~"], ["/", "'", "\\~"],
              ["/", "'", "'", "'"], ["/", ":~", "'"], ["/", "'", "@'"]]
    for advs, verb, a in itertools.product(longer, ["+", "-", ",", "&", "{x-y}", "{x,y}"], deep):
        if (":~" in advs or "\\~" in advs) and verb not in (",", "&", "+"):
            continue
        chain_case(ctx, r, drv, verb, advs, a)
    # only the first adverb may take the verb's operator shortcut: a later Over / Scan-Over works on the derived
    # monad (which ignores its second argument), not on the operator
    for advs, verb, a in itertools.product([[":'", "/"], [":'", "\\"]], ["+", "-", "*"],
                                           [U.from_py([1, 2, 3, 4]), U.from_py([5]), U.from_py([2, 7])]):
        chain_case(ctx, r, drv, verb, advs, a)


def run_redefinition(ctx, r):
    """a named verb is re-resolved at every evaluation: after the name is rebound, the same call
    site (function body, identical top-level text) must apply the new definition"""
    defs1 = [("f", "{x+1}", "{x*10}"), ("f", "{-x}", "{x,x}")]
    defs2 = [("d", "{x-y}", "{y-x}"), ("d", "{x+y}", "{x,y}")]
    operands = [U.from_py(x) for x in ([1, 2, 3], [10, 2, 3], [[1, 2], [3, 4]], [5])]
    forms = [("'", 1), ("/", 2), ("\\", 2), (":'", 2), ("/'", 2)]
    for adv, ar in forms:
        for name, first, second in (defs1 if ar == 1 else defs2):
            for a in operands:
                if adv == "/'" and U.depth(a) < 2:
                    continue
                aname = r.bind(r.k(U.klit(a, False)))
                site = f"{name}{adv}{aname}"
                r.k(f"{name}::{first}")
                r.k(f"g::{{{name}{adv}x}}")
                outs = []
                for body in (first, second):
                    r.k(f"{name}::{body}")
                    try:
                        want = norm(U.canon(r.k(f"{body}{adv}{aname}")))       # the definition, inline
                    except Exception:
                        want = None
                    for form, text in (("function-body", f"g({aname})"), ("same-text", site)):
                        try:
                            got = norm(U.canon(r.k(text)))
                        except Exception as e:
                            got = ('E', type(e).__name__)
                        if want is None:
                            continue
                        ctx.count(("redef", adv, name, first, second, a, form, body))
                        ctx.bump("redefinition:compared")
                        if got[0] == 'E' or not U.veq(want, got):
                            ctx.oracle_fail(f"redefinition:{form}:{adv}",
                                            dict(program=[f"{name}::{first}", f"g::{{{name}{adv}x}}", f"g(a); {name}{adv}a",
                                                          f"{name}::{second}", f"g(a); {name}{adv}a"], a=U.klit(a)),
                                            U.show(want), U.show(got) if got[0] != 'E' else f"raises {got[1]}",
                                            "after the verb's name is rebound the adverb must apply the current definition")
    # a Python callable replaced through the interpreter's dictionary interface
    calls = []
    r.k["pf"] = lambda x: (calls.append(1), x + 1)[1]
    r.k("h::{pf'x}")
    v1 = U.canon(r.k("h([1 2 3])"))
    r.k["pf"] = lambda x: x * 100
    v2 = U.canon(r.k("h([1 2 3])"))
    ctx.count(("redef-python",))
    if not U.veq(v2, U.from_py([100, 200, 300])):
        ctx.oracle_fail("redefinition:python-callable", dict(program=["klong['pf']=inc", "h::{pf'x}", "h([1 2 3])",
                                                                     "klong['pf']=times100", "h([1 2 3])"]),
                        "[100 200 300]", U.show(v2), "a replaced Python callable must be the one applied")


# ------------------------------------------------------------------------------------------------
# the convergence family: Converge f:~a, Scan-Converging f\~a, While p f:~b, Scan-While p f\~b

class Diverges(Exception):
    """the definition makes more than `cap` steps"""


CONV_VERBS = ["{x:%2}", "{x%2}", "{(x+2%x)%2}", "{x&5}", "{:[x>3;x;x+1]}", "{,/x}", "{1_x}", "{x}", "{x@<x}", "{?x}",
              "{-x}", "{#x}", "{x+1}", "{pyhalf(x)}", "{|x}", "{x,1}",
              # contractions on lists of reals: "the next value is the same" is Match, member by member
              "{(x+[2.0 3.0])%2}", "{(x+3.0)%2}", "{(x+[[2.0 3.0] [1.0 5.0]])%2}", "{{(x+2%x)%2}'x}"]
CONV_OPERANDS = [U.from_py(x) for x in (0, 1, 2, 3, 8, 17, 100, -3, 100000, 2.0, 0.5, 9.0, 1e-7, [1, 2, 3], [], [3, 1, 2],
                                        [2, 2, 1, 2], [1, [2, [3, [4], 5], 6], 7], [[1, 2], [3, 4]], [[1], [2, 3]],
                                        ["f", ["l", "at"], "ten"], "abc", "", "hello foo",
                                        [0.0, 0.0], [8.0, 4.0], [0.5, 1.5, 2.5], [[0.0, 0.0], [0.0, 0.0]], [1.0])] \
    + [U.C("a"), U.Y("foo"), ('D', [(U.I(1), U.I(2))])]
WHILE_PREDS = ["{x<10}", "{x<100}", "{x<3}", "{x>0}", "{x<0}", "{0}", "{1}", "{#x}", "{x}", "{pylt10(x)}", '{""}',
               "{x-10}"]
WHILE_VERBS = ["{x*2}", "{x+1}", "{x-1}", "{1_x}", "{pyinc(x)}", "{x,x}"]
WHILE_OPERANDS = [U.from_py(x) for x in (1, 0, 3, 5, 50, -1, 12, 1.5, [1, 2, 3], [7], [], "abc", "")]
CONV_MODELLED = {"{x:%2}", "{x&5}", "{:[x>3;x;x+1]}", "{,/x}", "{1_x}", "{x}", "{-x}", "{#x}", "{x+1}", "{x,x}",
                 "{x*2}", "{x-1}", "{x<10}", "{x<3}", "{x>0}", "{x<0}", "{0}"}
STEP_CAP = 130


def klong_true(t):
    """the manual's truth values: 0, [] and "" are false, everything else is true"""
    c = U.canon(t)
    return c not in (('i', 0), ('r', 0.0), ('L', []), ('s', ""))


def bounded(v):
    """the definition's intermediate values stay small (a verb like {x,x} doubles its operand at every step)"""
    import numpy as np
    n = v.size if isinstance(v, np.ndarray) else len(v) if isinstance(v, (str, list, dict)) else 1
    if n > 4000:
        raise Diverges()
    if isinstance(v, (int, np.integer)) and abs(int(v)) > 2 ** 40:
        raise Diverges()            # (64-bit wrap-around is outside the property)
    return v


def matches(r, x, y):
    """Match, evaluated as a separate application on the real interpreter"""
    a, b = r.bind(x), r.bind(y)
    return bool(r.k(f"{a}~{b}"))


def exp_convergence(r, adv, pred, verb, a, cap):
    """the manual's definitions written out as separate applications, at most `cap` steps"""
    r.pred_list = False
    if adv == ":~":
        # "Find the fixpoint of f(a)": the first of f(a), f(f(a)), ... that f maps to a matching value
        x = bounded(r.app1(verb, a))
        for _ in range(cap):
            y = bounded(r.app1(verb, x))
            if matches(r, x, y):
                return x
            x = y
        raise Diverges()
    if adv == "\\~":
        x, out = a, []
        for _ in range(cap):
            out.append(x)
            y = bounded(r.app1(verb, x))
            if matches(r, x, y):
                return r.mklist(out)
            x = y
        raise Diverges()
    if adv in ("w:~", "w\\~"):
        # "if a(b) is false, return b; else assign b::f(b) and start over" / collect the b that satisfy a
        b, out = a, []
        for _ in range(cap):
            t = r.app1(pred, b)
            if U.canon(t)[0] == 'L':
                r.pred_list = True
            if not klong_true(t):
                return r.mklist(out) if adv == "w\\~" else b
            out.append(b)
            b = bounded(r.app1(verb, b))
        raise Diverges()
    raise Skip()


def gen_convergence(ctx):
    cases = []
    for verb in CONV_VERBS:
        for a in CONV_OPERANDS:
            cases.append((":~", "-", verb, a))
            cases.append(("\\~", "-", verb, a))
    for pred in WHILE_PREDS:
        for verb in WHILE_VERBS:
            for b in WHILE_OPERANDS:
                cases.append(("w:~", pred, verb, b))
                cases.append(("w\\~", pred, verb, b))
    for b in WHILE_OPERANDS[:4]:                   # a predicate whose value is a list
        cases.append(("w:~", "{[]}", "{x+1}", b))
        cases.append(("w\\~", "{[]}", "{x+1}", b))
    if ctx.tier == "quick":
        ctx.rng.shuffle(cases)
        cases = cases[:700]
    # contractions on lists of reals run on every check
    P = U.from_py
    fixed = []
    for verb, ops in (("{(x+[2.0 3.0])%2}", [[0.0, 0.0], [8.0, 4.0]]), ("{(x+3.0)%2}", [[0.0, 0.0], [0.5, 1.5, 2.5], 0.5]),
                      ("{(x+[[2.0 3.0] [1.0 5.0]])%2}", [[[0.0, 0.0], [0.0, 0.0]]]), ("{{(x+2%x)%2}'x}", [[8.0, 4.0], [1.0]]),
                      ("{x%2}", [[8.0, 4.0], [0.5, 1.5, 2.5]])):
        for a in ops:
            fixed += [(":~", "-", verb, P(a)), ("\\~", "-", verb, P(a))]
    return fixed + [c for c in cases if c not in fixed]


def run_convergence(ctx, r, drv):
    """the loops of adverbs.py against the manual's definition; every run of the real code is under a step
    budget, and the definition decides first whether there is anything to wait for"""
    n_div = 0
    for adv, pred, verb, a in gen_convergence(ctx):
        val = r.k(U.klit(a, False))
        sym = adv[1:] if adv[0] == 'w' else adv
        head = (pred if adv[0] == 'w' else "") + verb + sym
        text, shown = head + "cvq", head + U.klit(a)
        want = want_log = None
        r.log = []
        try:
            want = norm(canon_x(exp_convergence(r, adv, pred, verb, val, STEP_CAP)))
            want_log = list(r.log)
        except Diverges:
            ctx.bump("convergence:definition-diverges")
        except Skip:
            ctx.bump("skip:outside-reference")
            continue
        except Exception:
            ctx.bump("skip:expansion-raises")
            continue
        list_pred = adv[0] == 'w' and r.pred_list
        r.k["cvq"] = val          # (the expansion rebinds the rotating operand names)
        if want is None:
            # the definition does not stop within STEP_CAP steps: the real code must not come back early
            n_div += 1
            big_int = adv == ":~" and verb == "{x+1}" and a == U.I(100000)
            if (n_div % (5 if ctx.tier == "quick" else 2) and not big_int) or verb in ("{x,x}", "{x*2}"):
                # ({x,x} doubles its operand: memory, not steps; {x*2} wraps around at 64 bits)
                continue
            r.log = []
            st, v = guarded(lambda: r.k(text), 60000)
            ctx.count(("conv-div", adv, pred, verb, a))
            ctx.bump("convergence:diverging-run")
            if st != "ok":
                continue
            got = norm(U.canon(v))
            try:      # it returned within a small budget: the definition, given as many steps, must return the same
                want = norm(canon_x(exp_convergence(r, adv, pred, verb, val, 1500)))
            except Exception:
                want = None
            if want is None or not U.veq(want, got):
                key = "while:list-valued-predicate" if list_pred else f"diverges:{adv}:{pred}:{verb}:{_shape(a)}"
                if adv == ":~" and a[0] == 'i' and got[0] == 'i' and abs(got[1]) >= 10 ** 5:
                    key = "converge:integer-isclose"
                ctx.oracle_fail(key, dict(text=shown),
                                U.show(want) if want is not None else "no value (the definition does not terminate)",
                                U.show(got), "the adverb returned although its definition does not stop there")
                ctx.bump("oracle-deviation")
            continue
        r.log = []
        st, v = guarded(lambda: r.k(text))
        got_log = list(r.log)
        if st == "ok":
            got = norm(U.canon(v))
        else:
            got = ('E', "exceeds the step budget" if st == "hang" else type(v).__name__)
        ctx.count((adv, pred, verb, a), nontrivial=True)
        ctx.bump(f"adverb:{adv}")
        if got[0] == 'E' or not U.veq(want, got):
            key = f"{adv}:{pred}:{verb}:{_shape(a)}"
            if list_pred:
                key = "while:list-valued-predicate"
            elif got[0] != 'E' and U.veq(want, got, kinds=False) and (mixed_numeric_array(want) or mixed_numeric_array(got)):
                key = "mixed-numeric-level"
            elif got[0] != 'E' and pathological(want):
                key = "result:object-array-rank2"
            ctx.oracle_fail(key, dict(text=shown), U.show(want), U.show(got) if got[0] != 'E' else f"raises {got[1]}",
                            "adverb result differs from its definition written out as separate applications")
            ctx.bump("oracle-deviation")
            continue
        py_all = "py" in verb and (adv[0] != 'w' or "py" in pred)
        if "py" in head and got_log != want_log:
            ctx.oracle_fail(f"calllog:{adv}:{verb}", dict(text=shown), repr(want_log), repr(got_log),
                            "verb and predicate must be called exactly as the definition prescribes")
            continue
        lv, lp = LEAN_VERB.get(verb, verb), LEAN_VERB.get(pred, pred)
        lean_ok = U.int_only(a) and lv in CONV_MODELLED and (adv[0] != 'w' or lp in CONV_MODELLED | {"{#x}", "{x}"}) \
            and (a[0] == 'i' or not ("py" in head or lv == "{:[x>3;x;x+1]}"))
        if drv and lean_ok:
            rep = drv.ask(f"advx {adv} {lv} {lp} {U.to_wire(a)}")
            impl = rep.split(" impl=")[1] if " impl=" in rep else ""
            if impl.startswith("ok:"):
                iv = norm(U.from_wire(impl[3:].split(" log=")[0]))
                if not U.veq(iv, got):
                    ctx.mismatch(f"Klong.C02 impl {adv} vs adverbs.py", dict(text=shown), U.show(iv), U.show(got))
                elif py_all and lean_log(impl) != real_log_wire(got_log):
                    ctx.mismatch(f"Klong.C02 impl {adv} call log vs adverbs.py", dict(text=shown),
                                 repr(lean_log(impl)), repr(real_log_wire(got_log)))
                else:
                    ctx.bump("model-agrees:convergence" + (":calllog" if py_all else ""))
            elif impl.startswith("err"):
                ctx.mismatch(f"Klong.C02 impl {adv} vs adverbs.py", dict(text=shown), "err / out of fuel", U.show(got))


# (key, adverb expression, its definition written out) — documented cases that once deviated; both sides run on the
# real interpreter under the step budget, so a loop that never ends is reported, not waited for
WITNESS_PAIRS = [
    ("each-left:atom-right", "1,:\\2", "1,2"), ("each-right:atom-right", "1,:/2", "2,1"),
    ("each-left:atom-right", "[1 2],:\\3", "[1 2],3"), ("each-right:atom-right", "1-:/5", "5-1"),
    ("each-left:atom-right", "1,:\\:foo", "1,:foo"), ("each-right:atom-right", "1,:/0cx", "0cx,1"),
    ("each-left:atom-right", "2{x*y}:\\3", "{x*y}(2;3)"), ("each-left:empty", "1,:\\[]", "[]"),
    ("iterate:computed-count", "(1+1){x+1}:*0", "{x+1}({x+1}(0))"), ("iterate:computed-count", "(+/[1 1]){x*2}:*3", "{x*2}({x*2}(3))"),
    ("iterate:computed-count", "([2 3]@0){1,x}:*[]", "[1 1]"), ("iterate:computed-count", "(1-1){x+1}:*5", "5"),
    ("scan-iterating:computed-count", "(1+1){x+1}\\*0", "[0 1 2]"), ("scan-iterating:computed-count", "(#[7 8 9]){1,x}\\*[]", "3{1,x}\\*[]"),
    ("over:%:zero-divisor", "%/[1 0]", "1%0"), ("over:%:zero-divisor", "%/[4 2 0]", "(4%2)%0"), ("over:%:zero-divisor", "%/[1 0 0]", "{x%y}/[1 0 0]"),
    ("scan:%:zero-divisor", "%\\[4 2 0]", "{x%y}\\[4 2 0]"), ("over:%:zero-divisor", "%/[[8 4] [2 0]]", "{x%y}/[[8 4] [2 0]]"),
    ("over:%", "%/[8 2 2]", "(8%2)%2"), ("over:%", "%/[0 2]", "0%2"),
    # a real neutral element in front of an all-integer scan: slot 0 is the neutral element itself
    ("scan-neutral:real-neutral", "0.5<\\[1 2 3]", "0.5,(0.5<1),((0.5<1)<2),(((0.5<1)<2)<3)"),
    ("scan-neutral:real-neutral", "2.5{_x*y}\\[1 2 3]", "2.5,(_2.5*1),(_(_2.5*1)*2),(_(_(_2.5*1)*2)*3)"),
    ("scan-neutral:real-neutral", "1.5{y}\\[4 5]", "1.5,4,5"), ("scan-neutral:real-neutral", "(-0.5){x>y}\\[1 0 1]", "(-0.5),((-0.5)>1),(((-0.5)>1)>0),((((-0.5)>1)>0)>1)"),
    # Each over a string: the results are a string only when ALL of them are characters
    ("each:string:mixed-results", "{:[x=0ca;\"[a]\";x]}'\"abc\"", "[\"[a]\" 0cb 0cc]"),
    ("each:string:mixed-results", "{:[x=0c1;1;x]}'\"a1b\"", "[0ca 1 0cb]"),
    ("each:string:mixed-results", "{:[x=0cb;[1 2];x]}'\"abc\"", "[0ca [1 2] 0cc]"),
    ("each:string:all-characters", "{:[x=0ca;0cz;x]}'\"abc\"", "\"zbc\""),
    ("each:string:no-characters", "{#x}'\"ab\"", "[97 98]"),
    ("over-neutral:real-neutral", "2.5{_x*y}/[1 2 3]", "_(_(_2.5*1)*2)*3"), ("scan-neutral:int-neutral", "4+\\[1 2 3]", "4,(4+1),((4+1)+2),(((4+1)+2)+3)"),
]


def run_witness_pairs(ctx, r):
    for key, text, expansion in WITNESS_PAIRS:
        st1, v1 = guarded(lambda: r.k(text), 200000)
        st2, v2 = guarded(lambda: r.k(expansion), 200000)
        ctx.count(("witness-pair", text), nontrivial=True)
        ctx.bump("witness-pairs")
        if st2 != "ok":
            continue            # the written-out definition itself is outside the reference
        want = norm(U.canon(v2))
        if st1 != "ok":
            ctx.oracle_fail(key, dict(text=text, expansion=expansion), U.show(want),
                            "does not return within the step budget" if st1 == "hang" else f"raises {type(v1).__name__}",
                            "adverb differs from its definition written out")
            continue
        got = norm(U.canon(v1))
        if not U.veq(want, got):
            ctx.oracle_fail(key, dict(text=text, expansion=expansion), U.show(want), U.show(got),
                            "adverb differs from its definition written out")


TORCH_OPS = ["+", "-", "*", "%", "&", "|"]
TORCH_VECS = ["[1 2 3]", "[5 -3 2 7]", "[2 2 1 2]", "[1.5 -2.5]", "[0.5 1.5 2.5]", "[[1 2] [3 4]]", "[[1 2 3] [4 5 6]]",
              "[[0.5 1.5] [2.5 3.5]]", "[7]", "[1 2 3 4 5]",
              # operands whose partial products / sums leave the int64 or float32 range although every step of the fold stays inside
              "[1 4294967296 4294967296 4294967296]", "[6 3000000000 3000000000 3000000000]", "[1.0e30 1.0e30 1.0e30]",
              "[1000000 1000 1000 1000 1000 1000 1000 1000]", "[3000000000 3000000000 3]"]


def run_torch_shortcuts(ctx):
    """the operator shortcuts of the torch backend (reduce / accumulate kernels) against the same fold written
    with the equivalent lambda, which takes the generic path; float32 tolerance, kinds exact"""
    try:
        from klongpy import KlongInterpreter
        k = KlongInterpreter(backend="torch")
    except Exception as e:          # torch not installed: nothing to compare
        ctx.bump("torch:unavailable")
        return

    def ev(t):
        try:
            return U.canon(k(t))
        except Exception as e:
            return ('E', type(e).__name__)
    for op in TORCH_OPS:
        for v in TORCH_VECS:
            for adv in ("/", "\\"):
                t1, t2 = f"{op}{adv}{v}", "{x" + op + "y}" + adv + v
                r1, r2 = ev(t1), ev(t2)
                # the same fold over a VARIABLE takes the backend's compiled code; it must agree as well
                t3 = f"tsv::{v};{op}{adv}tsv"
                r3 = ev(t3)
                if not (r3[0] == 'E' and r2[0] == 'E') and (r3[0] == 'E' or r2[0] == 'E' or not U.veq(r3, r2, rtol=1e-4)):
                    ctx.oracle_fail(f"torch:compiled:{adv}:{op}", dict(text=t3, backend="torch"),
                                    U.show(r2) if r2[0] != 'E' else f"raises {r2[1]}",
                                    U.show(r3) if r3[0] != 'E' else f"raises {r3[1]}",
                                    "fold over a variable (compiled) differs from the fold written out with the equivalent lambda")
                ctx.count(("torch-shortcut", t1), nontrivial=True)
                ctx.bump("torch:shortcut-vs-lambda")
                if r1[0] == 'E' and r2[0] == 'E':
                    continue
                if r1[0] == 'E' or r2[0] == 'E' or not U.veq(r1, r2, rtol=1e-4):
                    ctx.oracle_fail(f"torch:{adv}:{op}", dict(text=t1, backend="torch"),
                                    U.show(r2) if r2[0] != 'E' else f"raises {r2[1]}",
                                    U.show(r1) if r1[0] != 'E' else f"raises {r1[1]}",
                                    "operator shortcut differs from the fold written out with the equivalent lambda")


def run(ctx):
    r = Real()
    drv = Driver("c02") if getattr(ctx, "driver_ok", True) else None
    ctx.rule = ("adverb x verb (operators, lambdas, projections, logging Python callables) x operands of the closed "
                "universe, plus two-adverb chains; each compared with its definitional expansion computed by separate "
                "applications; distinct = distinct (adverb, verb, operands); non-trivial = the expansion makes >= 1 call. "
                "Extension: Each-Index, Each-2 (unequal lengths, empty operands, strings), Each over dictionaries, "
                "Converge / Scan-Converging / While / Scan-While (definition evaluated step by step with a step cap first; "
                "the real code under a call-count budget; diverging definitions must not return), chains of 2..4 adverbs "
                "against the nested lambda-wrapped form and the Lean chain machine")
    ctx.assumptions += ["operands are evaluated once and passed by name, so both sides see the same stored value",
                        "reals by tolerance 1e-9 (floating-point summation order of ufunc.reduce is not modelled)",
                        "Converge's match of two iterates is Match (~) evaluated as a separate application: the tolerance "
                        "for reals is the implementation's; truth of a While predicate is the conditional's (0, [], \"\" false)",
                        "a definition that needs more than 130 steps (or values beyond 4000 members / 2^40) counts as diverging; "
                        "if the real code then returns within its budget the definition is re-evaluated with 1500 steps"]
    cases = gen_cases(ctx) + gen_ext_cases(ctx)
    try:
        for adv, verb, args in cases:
            vals = [r.k(U.klit(a, False)) for a in args]
            names = [r.bind(v) for v in vals]
            text = adverb_text(adv, verb, names)
            shown = adverb_text(adv, verb, [U.klit(a) for a in args])
            # --- expansion (oracle)
            r.log = []
            try:
                if any(pathological(a) for a in args):
                    raise Skip()
                if any(has_text(a) for a in args) and verb not in TEXT_OK:
                    raise Skip()
                want = norm(canon_x(expansion(r, adv, verb, vals)))
                want_log = list(r.log)
            except Skip:
                ctx.bump("skip:outside-reference")
                continue
            except Exception:
                ctx.bump("skip:expansion-raises")     # the definition itself is undefined here
                continue
            r.log = []
            try:
                got = norm(U.canon(r.k(text)))
            except Exception as e:
                got = ('E', type(e).__name__)
            got_log = list(r.log)
            if adv == "'" and len(args) == 1 and args[0][0] == 'D':
                # "The resulting list will be in some random order": compare as multisets
                want, got = sort_members(want), sort_members(got)
                want_log, got_log = sorted(want_log, key=repr), sorted(got_log, key=repr)
            ctx.count((adv, verb, args), nontrivial=True)
            ctx.bump(f"adverb:{adv}/{len(args)}" + (":dict" if args[0][0] == 'D' else ""))
            if got[0] == 'E' or not U.veq(want, got):
                key = classify(adv, verb, args)
                if adv == "'" and len(args) == 2 and short_strings(want) and got[0] == 's':
                    key = "each2:u1-string-join"
                elif adv == "@'" and nonempty_str(args[0]):
                    key = "each-index:string-members"
                elif adv == "'" and len(args) == 2 and any(nonempty_str(a) for a in args):
                    key = "each2:string-members"
                elif got[0] != 'E' and U.veq(want, got, kinds=False) and mixed_numeric_array(want):
                    # a result list whose members mix integers and reals is stored as one float array
                    key = "mixed-numeric-level"
                elif adv == "\\" and verb == "%" and got[0] != 'E' and U.veq(want, got, kinds=False):
                    key = "scan:divide-first-slot-kind"
                elif adv == "\\" and len(args) == 1 and scan_compiled_class(args[0]):
                    key = "scan:compiled-cumsum-rank"
                elif adv == "/" and len(args) == 1 and args[0] == ('L', []) and verb in ("+", "*", "&", "|"):
                    key = "over:compiled-empty"
                elif adv == "/" and len(args) == 1 and verb in ("&", "|") and args[0][0] == 'L' \
                        and __import__("vlib.c01", fromlist=["num_shape"]).num_shape(args[0]) is None:
                    key = "over:compiled-minmax-object-array"
                elif got[0] != 'E' and pathological(want):
                    key = "result:object-array-rank2"
                ctx.oracle_fail(key, dict(text=shown), U.show(want),
                                U.show(got) if got[0] != 'E' else f"raises {got[1]}",
                                "adverb result differs from its definitional expansion")
                ctx.bump("oracle-deviation")
                continue
            if "py" in verb and got_log != want_log:
                ctx.oracle_fail(f"calllog:{adv}:{verb}", dict(text=shown), repr(want_log), repr(got_log),
                                "the verb must be called exactly as the expansion prescribes")
                continue
            # --- correspondence with the Lean machines
            monadic_verb = adv in ("'", ":*", "\\*") and not (adv == "'" and len(args) == 2)
            modelled = (verb in (MODELLED1 if monadic_verb else MODELLED2)) and all(U.int_only(a) for a in args)
            if len(args) == 2 and U.depth(args[0]) >= 1 and U.depth(args[1]) >= 2:
                modelled = False      # numpy broadcasting between arrays of different rank: C01's known class
            request = None
            if modelled:
                op = verb if verb in OPS2 else "-none-"
                request = f"adv {adv} {verb} {op} " + " ".join(U.to_wire(a) for a in args)
            # the adverbs of Klong.Model.C02Ext: Each-Index, Each-2, Each on strings and dictionaries
            is_each2 = adv == "'" and len(args) == 2
            ext = adv == "@'" or is_each2 or (adv == "'" and len(args) == 1 and args[0][0] in "Ds")
            if ext:
                lv = LEAN_VERB.get(verb, verb)
                text_args = any(has_text_d(a) for a in args)
                ok_verb = lv in (MODELLED2 if is_each2 else MODELLED_IDX) and (not text_args or lv in TEXT_MODELLED)
                broadcast = is_each2 and U.depth(args[0]) >= 2 and U.depth(args[1]) >= 2 and lv not in TEXT_MODELLED
                request = None
                if ok_verb and all(wire_ok(a) for a in args) and not broadcast:
                    request = f"advx {adv} {lv} - " + " ".join(U.to_wire(a) for a in args)
            if drv and request:
                rep = drv.ask(request)
                if " impl=" in rep:
                    impl = rep.split(" impl=")[1]
                    if impl.startswith("ok:"):
                        iv = norm(U.from_wire(impl[3:].split(" log=")[0]))
                        if ext and args[0][0] == 'D':
                            iv = sort_members(iv)
                        if not U.veq(iv, got):
                            ctx.mismatch(f"Klong.C02 impl {adv} vs adverbs.py", dict(text=shown), U.show(iv), U.show(got))
                        elif ext and "py" in verb and args[0][0] != 'D' \
                                and lean_log(impl) != real_log_wire(got_log):
                            ctx.mismatch(f"Klong.C02 impl {adv} call log vs adverbs.py", dict(text=shown),
                                         repr(lean_log(impl)), repr(real_log_wire(got_log)))
                        else:
                            ctx.bump("model-agrees" + (":ext" if ext else ""))
                    elif impl.startswith("err"):
                        ctx.mismatch(f"Klong.C02 impl {adv} vs adverbs.py", dict(text=shown), "err", U.show(got))
            if len(ctx.samples) < 6 and ctx.evaluations % 211 == 1:
                ctx.sample(dict(text=shown, expansion=U.show(want), real=U.show(got)))
        run_convergence(ctx, r, drv)
        run_torch_shortcuts(ctx)
        run_witness_pairs(ctx, r)
        run_chains(ctx, r, drv)
        run_redefinition(ctx, r)
    finally:
        if drv:
            drv.close()


def replay(ctx, case):
    run(ctx)
