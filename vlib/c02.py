"""C02 — adverbs equal their definitional expansion.

Oracle (needs no model): the adverb expression evaluated as source text vs. the expansion the
manual gives, computed by *separately evaluated applications of the same verb* on the real
interpreter (plus the call log of instrumented Python callables).
Correspondence: the Lean adverb machines (`Klong.C02`, reference and implementation model run in
a logging monad) on the modelled verbs / operands: same result, same call sequence.
"""
import itertools

from . import common
from . import universe as U
from .common import Driver

CLAIM = dict(
    text="Lean 4 theorems, for EVERY verb in EVERY lawful monad (effects, failures, logging) and every operand: "
         "the implementation model of Over, Over-Neutral, Scan-Over, Scan-Over-Neutral, Each, Each-Left, Each-Right, "
         "Each-Pair, Iterate, Scan-Iterating (functools.reduce / itertools.accumulate / comprehensions as written in "
         "adverbs.py) equals the manual's expansion as a monadic program (same calls, same order, same result); the "
         "operator shortcuts (ufunc.reduce / accumulate, min/max) are sound against the generic fold. Tied to klongpy "
         "by adverb x verb x operand evaluation with call logs; chains are compared with their lambda-wrapped form.",
    note="trusted: Lean kernel, numpy ufunc.reduce/accumulate = left fold over axis 0 (modelled; floating-point "
         "pairwise summation by tolerance), canonicaliser, the harness' expansion evaluator",
    technique="Lean 4 equational proofs over an arbitrary lawful monad + shortcut soundness, differential correspondence "
              "with call logs, definitional-expansion oracle on the real interpreter",
    design="7/C02")

MODULES = ["Klong.Props.C02"]
THEOREMS = [
    "Klong.C02.over_eq", "Klong.C02.over_neutral_eq", "Klong.C02.scan_eq", "Klong.C02.scan_neutral_eq",
    "Klong.C02.each_eq", "Klong.C02.each_left_eq", "Klong.C02.each_right_eq", "Klong.C02.each_pair_eq",
    "Klong.C02.iterate_eq", "Klong.C02.scan_iterating_eq",
    "Klong.C02.over_shortcut_sound", "Klong.C02.scan_shortcut_sound",
    "Klong.C02.over_calls_verb_n_minus_1_times",
]

OPS2 = ["+", "-", "*", "%", "&", "|", ",", "=", "<", ">", "~", "!"]   # ^: kind of integral results is unspecified
LAM2 = ["{x+y}", "{x-y}", "{y-x}", "{(2*x)+y}", "{x,y}", "{x,,y}"]
LAM1 = ["{x+1}", "{-x}", "{x,x}", "{#x}", "{,x}", "{x}"]
PROJ1 = ["pj1", "pj2"]          # pj1::{x+y}(1;)  pj2::{x-y}(;1)
OPS1 = ["-", "#", "|", ","]
MODELLED2 = {"+", "-", "*", "&", "|", ",", "=", "<", ">", "{x-y}", "{y-x}", "{(2*x)+y}", "{x,y}", "{x,,y}"}
MODELLED1 = set(LAM1) - {"{#x}"}


class Real:
    """the real interpreter plus helpers to apply a verb to already evaluated values"""

    def __init__(self):
        from klongpy import KlongInterpreter
        self.k = KlongInterpreter()
        self.log = []
        real = self

        def pyadd(x, y):
            real.log.append((U.canon(x), U.canon(y)))
            return x + y

        def pyinc(x):
            real.log.append((U.canon(x),))
            return x + 1
        self.k["pyadd"] = pyadd
        self.k["pyinc"] = pyinc
        self.k("pj1::{x+y}(1;)")
        self.k("pj2::{x-y}(;1)")
        self.n = 0

    def bind(self, v):
        self.n += 1
        name = f"t{self.n % 40}q"
        self.k[name] = v
        return name

    def app2(self, verb, x, y):
        if verb in ATOMIC:
            ex, ey = self.elems(x), self.elems(y)
            if ex is not None and ey is not None and len(ex) != len(ey):
                raise Skip()          # atomic verb on lists of different length: undefined
            if (ex is not None and not len(ex)) or (ey is not None and not len(ey)):
                raise Skip()
        a, b = self.bind(x), self.bind(y)
        if verb in OPS2:
            return self.k(f"{a}{verb}{b}")
        return self.k(f"{verb}({a};{b})")

    def app1(self, verb, x):
        a = self.bind(x)
        if verb in OPS1:
            return self.k(f"{verb}{a}")
        return self.k(f"{verb}({a})")

    def elems(self, a):
        """members of a list / characters of a string; None for atoms"""
        from klongpy.core import KGChar, KGSym
        import numpy as np
        if isinstance(a, str) and not isinstance(a, (KGChar, KGSym)):
            return [KGChar(c) for c in a]
        if isinstance(a, np.ndarray) and a.ndim > 0:
            return list(a)
        if isinstance(a, list):
            return list(a)
        return None

    def pair(self, i, e):
        """the two-element list [i e] (built like any list literal is, not by a verb)"""
        return self.k._backend.kg_asarray([i, e])

    def mklist(self, xs):
        """the list of separately computed values (kept on the Python side as a marker)"""
        return ExpList(xs)


class Skip(Exception):
    pass


class ExpList(list):
    """a list assembled by the expansion evaluator"""


def canon_x(v):
    if isinstance(v, ExpList):
        return ('L', [canon_x(x) for x in v])
    return U.canon(v)


def norm(v):
    """Klong identifies a non-empty list of characters with a string"""
    if v[0] == 'L':
        xs = [norm(x) for x in v[1]]
        if xs and all(x[0] == 'c' for x in xs):
            return ('s', "".join(x[1] for x in xs))
        return ('L', xs)
    return v


ATOMIC = {"+", "-", "*", "%", "&", "|", "=", "<", ">", "!", "^", "{x+y}", "{x-y}", "{y-x}", "{(2*x)+y}",
          "{pyadd(x;y)}", "{x+1}", "{-x}", "-", "pj1", "pj2", "pyinc", "{pj1(x)}", "{pj2(x)}", "{pyinc(x)}"}
TEXT_OK = {",", "~", "{x,y}", "{x,,y}", "{x}", "{,x}", "{x,x}", "{#x}", "#", "|", "{x@1}", "{*x}"}


def mixed_numeric_array(v):
    """a regular nest of numbers holding both integers and reals (numpy stores it as one
    float array, so the integer kind of some members is lost) — C01's known class"""
    from .c01 import num_shape
    if v[0] != 'L':
        return False
    if num_shape(v) is not None:
        kinds = set()

        def leaves(x):
            if x[0] == 'L':
                for y in x[1]:
                    leaves(y)
            else:
                kinds.add(x[0])
        leaves(v)
        if kinds == {'i', 'r'}:
            return True
    return any(mixed_numeric_array(x) for x in v[1])


def scan_compiled_class(a):
    """Scan-Over of an atom or of a rank>=2 array through the expression compiler (np.cumsum /
    np.cumprod flatten) — the deviation named in property C05"""
    from .c01 import num_shape
    s = num_shape(a)
    return s is not None and (len(s) == 0 or len(s) >= 2)


def has_text(v):
    return v[0] in "csy" or (v[0] == 'L' and any(has_text(x) for x in v[1]))


def pathological(v):
    """C01 known classes that would only be re-reported here: irregular nests stored as rank>=2
    object arrays, and lists mixing integers and reals at one level"""
    from .c01 import num_shape, np_shape
    return (v[0] == 'L' and num_shape(v) is None and len(np_shape(v)) >= 2) or U.has_mixed_numeric_level(v)


def expansion(r, adv, verb, args):
    """the manual's definition written out as plain applications of the verb"""
    if adv == "/" and len(args) == 1:
        es = r.elems(args[0])
        if not es:
            return args[0]
        acc = es[0]
        for e in es[1:]:
            acc = r.app2(verb, acc, e)
        return acc
    if adv == "/" and len(args) == 2:
        es = r.elems(args[1])
        if es is None:
            return r.app2(verb, args[0], args[1])
        acc = args[0]
        for e in es:
            acc = r.app2(verb, acc, e)
        return acc
    if adv == "\\" and len(args) == 1:
        es = r.elems(args[0])
        if not es:
            return args[0]
        acc = es[0]
        out = [acc]
        for e in es[1:]:
            acc = r.app2(verb, acc, e)
            out.append(acc)
        return r.mklist(out)
    if adv == "\\" and len(args) == 2:
        es = r.elems(args[1])
        if es is not None and len(es) == 0:
            return args[0]
        if es is None:
            es = [args[1]]
        acc = args[0]
        out = [acc]
        for e in es:
            acc = r.app2(verb, acc, e)
            out.append(acc)
        return r.mklist(out)
    if adv == "'" and len(args) == 1:
        es = r.elems(args[0])
        if es is None:
            return r.app1(verb, args[0])
        if not es:
            return args[0]
        return r.mklist([r.app1(verb, e) for e in es])
    if adv == "'" and len(args) == 2:
        ea, eb = r.elems(args[0]), r.elems(args[1])
        if ea is None and eb is None:
            return r.app2(verb, args[0], args[1])
        if ea is None or eb is None or len(ea) != len(eb) or not ea:
            raise Skip()
        return r.mklist([r.app2(verb, x, y) for x, y in zip(ea, eb)])
    if adv == ":\\":
        es = r.elems(args[1])
        if es is None or not es:
            raise Skip()
        return r.mklist([r.app2(verb, args[0], e) for e in es])
    if adv == ":/":
        es = r.elems(args[1])
        if es is None or not es:
            raise Skip()
        return r.mklist([r.app2(verb, e, args[0]) for e in es])
    if adv == ":'":
        es = r.elems(args[0])
        if es is None or len(es) < 2:
            return args[0]
        return r.mklist([r.app2(verb, x, y) for x, y in zip(es, es[1:])])
    if adv == "@'":
        es = r.elems(args[0])
        if es is None:
            return r.app1(verb, r.pair(0, args[0]))
        if not es:
            return args[0]
        return r.mklist([r.app1(verb, r.pair(i, e)) for i, e in enumerate(es)])
    if adv == ":*":
        n, b = args
        for _ in range(int(n)):
            b = r.app1(verb, b)
        return b
    if adv == "\\*":
        n, b = args
        if int(n) == 0:
            return b
        out = [b]
        for _ in range(int(n)):
            b = r.app1(verb, b)
            out.append(b)
        return r.mklist(out)
    raise Skip()


def adverb_text(adv, verb, names):
    if len(names) == 1:
        return f"{verb}{adv}{names[0]}"
    if verb in ("pj1", "pj2", "pyinc"):        # a named function between two operands is not Klong syntax
        verb = "{" + verb + "(x)}"
    return f"{names[0]}{verb}{adv}{names[1]}"


def gen_cases(ctx):
    quick = ctx.tier == "quick"
    lists = [v for v in U.LISTS if not U.has_mixed_numeric_level(v)] + U.STRS
    atoms = [U.I(3), U.I(0), U.R(1.5), U.C("a")]
    operands = lists + atoms
    v2 = OPS2 + LAM2 + ["{pyadd(x;y)}"]
    v1 = LAM1 + PROJ1 + OPS1 + ["pyinc"]
    cases = []
    for verb in v2:
        for a in operands:
            cases.append(("/", verb, (a,)))
            cases.append(("\\", verb, (a,)))
            cases.append((":'", verb, (a,)))
        for a in atoms[:3] + [U.from_py([1, 2]), U.from_py([])]:
            for b in operands:
                cases.append(("/", verb, (a, b)))
                cases.append(("\\", verb, (a, b)))
                cases.append((":\\", verb, (a, b)))
                cases.append((":/", verb, (a, b)))
        for a in lists:
            for b in lists:
                if a[0] == 'L' and b[0] == 'L' and len(a[1]) == len(b[1]):
                    cases.append(("'", verb, (a, b)))
    for verb in LAM1 + ["{x@1}", "{*x}", "{(*x)+#x@1}"]:
        for a in operands:
            cases.append(("@'", verb, (a,)))
    for verb in v1:
        for a in operands:
            cases.append(("'", verb, (a,)))
        for n in (0, 1, 2, 3):
            for b in operands[::3]:
                cases.append((":*", verb, (U.I(n), b)))
                cases.append(("\\*", verb, (U.I(n), b)))
    if quick:
        ctx.rng.shuffle(cases)
        cases = cases[:3500]
    return cases


def classify(adv, verb, args):
    sc = ":".join(_shape(a) for a in args)
    return f"{adv}:{verb}:{sc}"


def _shape(v):
    from .c01 import shape_class
    return shape_class(v)


def run_chains(ctx, r):
    """two-adverb chains compose left to right: v a1 a2 operand == {v a1 x} a2 operand"""
    # manual: "subsequent adverbs must be adverbs of monadic verbs, because the first verb-adverb
    # combination in a chain of adverbs forms a monad"
    firsts = ["/", "\\", ":'", "'"]
    seconds = ["'", ":~", "\\~"]
    verbs = ["+", "-", "*", ",", "&", "{x-y}", "{x,y}"]
    operands = [U.from_py(x) for x in ([1, 2, 3, 4], [[1, 2, 3], [4, 5, 6], [7, 8, 9]], [[1, 2], [3, 4]],
                                       [[5], [6, 7]], [3])]
    for a1, a2, verb, a in itertools.product(firsts, seconds, verbs, operands):
        if a1 == "'" and verb not in ("-",):       # Each needs a monad
            continue
        if a2 in (":~", "\\~") and (a1 != "/" or verb not in (",", "&", "|", "+", "*")):
            continue                                # only chains whose definition has a fixpoint
        name = r.bind(r.k(U.klit(a, False)))
        chain = f"{verb}{a1}{a2}{name}"
        wrapped = f"{{{verb}{a1}x}}{a2}{name}"
        try:
            want = U.canon(r.k(wrapped))
        except Exception:
            ctx.bump("chain:wrapped-form-raises")     # outside the reference (e.g. Over with a monad)
            continue
        try:
            got = U.canon(r.k(chain))
        except Exception as e:
            got = ('E', type(e).__name__)
        ctx.count(("chain", chain, a))
        ctx.bump("chain:compared")
        if got[0] == 'E' or not U.veq(want, got):
            ctx.oracle_fail(f"chain:{verb}{a1}{a2}:{_shape(a)}", dict(text=f"{verb}{a1}{a2}{U.klit(a, False)}"),
                            U.show(want), U.show(got) if got[0] != 'E' else f"raises {got[1]}",
                            "chained adverbs must compose left to right: equal to the lambda-wrapped form "
                            f"{{{verb}{a1}x}}{a2}a")


def run_redefinition(ctx, r):
    """a named verb is re-resolved at every evaluation: after the name is rebound, the same call
    site (function body, identical top-level text) must apply the new definition"""
    defs1 = [("f", "{x+1}", "{x*10}"), ("f", "{-x}", "{x,x}")]
    defs2 = [("d", "{x-y}", "{y-x}"), ("d", "{x+y}", "{x,y}")]
    operands = [U.from_py(x) for x in ([1, 2, 3], [10, 2, 3], [[1, 2], [3, 4]], [5])]
    forms = [("'", 1), ("/", 2), ("\\", 2), (":'", 2), ("/'", 2)]
    for adv, ar in forms:
        for name, first, second in (defs1 if ar == 1 else defs2):
            for a in operands:
                if adv == "/'" and U.depth(a) < 2:
                    continue
                aname = r.bind(r.k(U.klit(a, False)))
                site = f"{name}{adv}{aname}"
                r.k(f"{name}::{first}")
                r.k(f"g::{{{name}{adv}x}}")
                outs = []
                for body in (first, second):
                    r.k(f"{name}::{body}")
                    try:
                        want = norm(U.canon(r.k(f"{body}{adv}{aname}")))       # the definition, inline
                    except Exception:
                        want = None
                    for form, text in (("function-body", f"g({aname})"), ("same-text", site)):
                        try:
                            got = norm(U.canon(r.k(text)))
                        except Exception as e:
                            got = ('E', type(e).__name__)
                        if want is None:
                            continue
                        ctx.count(("redef", adv, name, first, second, a, form, body))
                        ctx.bump("redefinition:compared")
                        if got[0] == 'E' or not U.veq(want, got):
                            ctx.oracle_fail(f"redefinition:{form}:{adv}",
                                            dict(program=[f"{name}::{first}", f"g::{{{name}{adv}x}}", f"g(a); {name}{adv}a",
                                                          f"{name}::{second}", f"g(a); {name}{adv}a"], a=U.klit(a)),
                                            U.show(want), U.show(got) if got[0] != 'E' else f"raises {got[1]}",
                                            "after the verb's name is rebound the adverb must apply the current definition")
    # a Python callable replaced through the interpreter's dictionary interface
    calls = []
    r.k["pf"] = lambda x: (calls.append(1), x + 1)[1]
    r.k("h::{pf'x}")
    v1 = U.canon(r.k("h([1 2 3])"))
    r.k["pf"] = lambda x: x * 100
    v2 = U.canon(r.k("h([1 2 3])"))
    ctx.count(("redef-python",))
    if not U.veq(v2, U.from_py([100, 200, 300])):
        ctx.oracle_fail("redefinition:python-callable", dict(program=["klong['pf']=inc", "h::{pf'x}", "h([1 2 3])",
                                                                     "klong['pf']=times100", "h([1 2 3])"]),
                        "[100 200 300]", U.show(v2), "a replaced Python callable must be the one applied")


def run(ctx):
    r = Real()
    drv = Driver("c02") if getattr(ctx, "driver_ok", True) else None
    ctx.rule = ("adverb x verb (operators, lambdas, projections, logging Python callables) x operands of the closed "
                "universe, plus two-adverb chains; each compared with its definitional expansion computed by separate "
                "applications; distinct = distinct (adverb, verb, operands); non-trivial = the expansion makes >= 1 call")
    ctx.assumptions += ["operands are evaluated once and passed by name, so both sides see the same stored value",
                        "reals by tolerance 1e-9 (floating-point summation order of ufunc.reduce is not modelled)"]
    cases = gen_cases(ctx)
    try:
        for adv, verb, args in cases:
            vals = [r.k(U.klit(a, False)) for a in args]
            names = [r.bind(v) for v in vals]
            text = adverb_text(adv, verb, names)
            shown = adverb_text(adv, verb, [U.klit(a) for a in args])
            # --- expansion (oracle)
            r.log = []
            try:
                if any(pathological(a) for a in args):
                    raise Skip()
                if any(has_text(a) for a in args) and verb not in TEXT_OK:
                    raise Skip()
                want = norm(canon_x(expansion(r, adv, verb, vals)))
                want_log = list(r.log)
            except Skip:
                ctx.bump("skip:outside-reference")
                continue
            except Exception:
                ctx.bump("skip:expansion-raises")     # the definition itself is undefined here
                continue
            r.log = []
            try:
                got = norm(U.canon(r.k(text)))
            except Exception as e:
                got = ('E', type(e).__name__)
            got_log = list(r.log)
            ctx.count((adv, verb, args), nontrivial=True)
            ctx.bump(f"adverb:{adv}/{len(args)}")
            if got[0] == 'E' or not U.veq(want, got):
                key = classify(adv, verb, args)
                if got[0] != 'E' and U.veq(want, got, kinds=False) and mixed_numeric_array(want):
                    # a result list whose members mix integers and reals is stored as one float array
                    key = "mixed-numeric-level"
                elif adv == "\\" and verb == "%" and got[0] != 'E' and U.veq(want, got, kinds=False):
                    key = "scan:divide-first-slot-kind"
                elif adv == "\\" and len(args) == 1 and scan_compiled_class(args[0]):
                    key = "scan:compiled-cumsum-rank"
                elif adv == "/" and len(args) == 1 and args[0] == ('L', []) and verb in ("+", "*", "&", "|"):
                    key = "over:compiled-empty"
                elif adv == "/" and len(args) == 1 and verb in ("&", "|") and args[0][0] == 'L' \
                        and __import__("vlib.c01", fromlist=["num_shape"]).num_shape(args[0]) is None:
                    key = "over:compiled-minmax-object-array"
                elif got[0] != 'E' and pathological(want):
                    key = "result:object-array-rank2"
                ctx.oracle_fail(key, dict(text=shown), U.show(want),
                                U.show(got) if got[0] != 'E' else f"raises {got[1]}",
                                "adverb result differs from its definitional expansion")
                ctx.bump("oracle-deviation")
                continue
            if "py" in verb and got_log != want_log:
                ctx.oracle_fail(f"calllog:{adv}:{verb}", dict(text=shown), repr(want_log), repr(got_log),
                                "the verb must be called exactly as the expansion prescribes")
                continue
            # --- correspondence with the Lean machines
            monadic_verb = adv in ("'", ":*", "\\*") and not (adv == "'" and len(args) == 2)
            modelled = (verb in (MODELLED1 if monadic_verb else MODELLED2)) and all(U.int_only(a) for a in args)
            if len(args) == 2 and U.depth(args[0]) >= 1 and U.depth(args[1]) >= 2:
                modelled = False      # numpy broadcasting between arrays of different rank: C01's known class
            if drv and modelled:
                op = verb if verb in OPS2 else "-none-"
                rep = drv.ask(f"adv {adv} {verb} {op} " + " ".join(U.to_wire(a) for a in args))
                if " impl=" in rep:
                    impl = rep.split(" impl=")[1]
                    if impl.startswith("ok:"):
                        iv = norm(U.from_wire(impl[3:].split(" log=")[0]))
                        if not U.veq(iv, got):
                            ctx.mismatch(f"Klong.C02 impl {adv} vs adverbs.py", dict(text=shown), U.show(iv), U.show(got))
                        else:
                            ctx.bump("model-agrees")
                    elif impl.startswith("err"):
                        ctx.mismatch(f"Klong.C02 impl {adv} vs adverbs.py", dict(text=shown), "err", U.show(got))
            if len(ctx.samples) < 6 and ctx.evaluations % 211 == 1:
                ctx.sample(dict(text=shown, expansion=U.show(want), real=U.show(got)))
        run_chains(ctx, r)
        run_redefinition(ctx, r)
    finally:
        if drv:
            drv.close()


def replay(ctx, case):
    run(ctx)
