"""Evaluate a seeded change: python3 -m vlib.seeded_eval <dir with patch.diff/demo.py/meta.json> [--tier quick|thorough]

Confirms, in a scratch worktree of /repo's main: (1) the demo passes without the change,
(2) fails with it, (3) the unedited test suite passes with it; then runs ./check <ID> against the
changed tree (VERIF_REPO) and records what the check reported.  Results go to
/verif/seeded/<name>/ (patch.diff, demo, meta.json)."""
import json
import os
import shutil
import subprocess
import sys
from pathlib import Path

ROOT = Path(__file__).resolve().parent.parent
PY = "/venv/bin/python"


def sh(cmd, cwd=None, timeout=1800, env=None):
    p = subprocess.run(cmd, shell=True, cwd=cwd, stdout=subprocess.PIPE, stderr=subprocess.STDOUT,
                       text=True, timeout=timeout, env=env)
    return p.returncode, p.stdout


def main():
    src = Path(sys.argv[1]).resolve()
    tier = sys.argv[sys.argv.index("--tier") + 1] if "--tier" in sys.argv else "quick"
    skip_suite = "--skip-suite" in sys.argv
    name = src.name
    meta = json.loads((src / "meta.json").read_text())
    prop = meta["property"]
    demo = next(p for p in src.iterdir() if p.name.startswith("demo"))
    wt = Path(f"/tmp/vt-{name}")
    if wt.exists():
        sh(f"git -C /repo worktree remove --force {wt}")
    rc, out = sh(f"git -C /repo worktree add --detach {wt} main")
    ran = []
    res = dict(property=prop, name=name)
    try:
        rc, out = sh(f"timeout 600 {PY} -W ignore {demo}", cwd=wt)
        res["demo_clean_rc"] = rc
        ran.append(f"demo on clean main: rc={rc}")
        rc, out = sh(f"git apply {src / 'patch.diff'}", cwd=wt)
        res["patch_applies"] = rc == 0
        if rc != 0:
            ran.append("patch does not apply to current main: " + out[-300:])
        else:
            rc, out = sh(f"timeout 600 {PY} -W ignore {demo}", cwd=wt)
            res["demo_changed_rc"] = rc
            ran.append(f"demo with change: rc={rc}")
            if not skip_suite:
                rc, out = sh(f"{PY} -m pytest -q -p no:cacheprovider --deselect tests/test_cli_exit.py 2>&1 | grep -E '^FAILED|passed|failed' | tail -6", cwd=wt, timeout=3000)
                summary = out.strip().splitlines()[-1] if out.strip() else ""
                failed = [l.split()[1] for l in out.splitlines() if l.startswith("FAILED")]
                if failed:      # load-sensitive tests (timers, subprocess): re-run the failed ones alone
                    rc2, out2 = sh(f"{PY} -m pytest -q -p no:cacheprovider {' '.join(failed)} 2>&1 | grep -E 'passed|failed' | tail -1", cwd=wt, timeout=1200)
                    summary += f" ; re-run of {failed} alone: {out2.strip()}"
                res["suite"] = summary
                ran.append("suite with change: " + summary)
            env = dict(os.environ, VERIF_REPO=str(wt), VERIF_SEED=os.environ.get("VERIF_SEED", "0"))
            rc, out = sh(f"./check {prop} --tier {tier}", cwd=ROOT, timeout=7200, env=env)
            lines = [l for l in out.splitlines() if l.startswith(("VIOLATION", "OK ", "KNOWN-FINDING"))]
            res["check_rc"] = rc
            res["check_lines"] = lines[:12]
            ran.append(f"VERIF_REPO={wt} ./check {prop} --tier {tier}: rc={rc}; " + "; ".join(lines[:6]))
            # the replay files name the failing input
            keys = []
            for l in lines:
                if "replay=" in l:
                    rp = ROOT / l.split("replay=")[1].split()[0]
                    if rp.exists():
                        try:
                            keys.append(json.loads(rp.read_text()).get("key") or "no-failing-input-found")
                        except Exception:
                            pass
                        rp.unlink()
            res["check_keys"] = keys
    finally:
        sh(f"git -C /repo worktree remove --force {wt}")
    dst = ROOT / "seeded" / name
    dst.mkdir(parents=True, exist_ok=True)
    shutil.copy(src / "patch.diff", dst / "patch.diff")
    shutil.copy(demo, dst / demo.name)
    old = {}
    if (dst / "meta.json").exists():
        try:
            old = json.loads((dst / "meta.json").read_text())
        except Exception:
            old = {}
    if skip_suite and "suite" not in res and old.get("evaluation", {}).get("suite"):
        # an earlier evaluation of this same patch ran the suite: keep its result and the misses seen since
        res["suite"] = old["evaluation"]["suite"]
        res["suite_from_earlier_evaluation"] = True
    hist = old.get("check_history", [])
    if old.get("evaluation", {}).get("check_rc") is not None:
        hist.append(dict(check_rc=old["evaluation"].get("check_rc"), check_keys=old["evaluation"].get("check_keys")))
    meta["check_history"] = hist
    meta["evaluation"] = res
    meta["ran_by_lead"] = ran
    caught = res.get("check_rc") == 1
    meta["caught_by_check"] = bool(caught)
    (dst / "meta.json").write_text(json.dumps(meta, indent=1))
    print(name, "confirmed" if res.get("demo_clean_rc") == 0 and res.get("demo_changed_rc", 0) != 0 else "NOT-CONFIRMED",
          "| suite:", res.get("suite"), "| check rc:", res.get("check_rc"), res.get("check_keys"))


if __name__ == "__main__":
    main()
