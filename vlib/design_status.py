"""Regenerates the machine-maintained block of DESIGN.md (section 12):  python3 -m vlib.design_status"""
import glob
import importlib
import json
import re
import subprocess
from pathlib import Path

ROOT = Path(__file__).resolve().parent.parent
BEGIN = "<!-- BEGIN GENERATED STATUS -->"
END = "<!-- END GENERATED STATUS -->"


def git(*a):
    return subprocess.run(["git", "-C", "/repo", *a], capture_output=True, text=True).stdout


def findings():
    out = []
    for f in [ROOT / "KNOWN_FINDINGS.json"] + [Path(p) for p in sorted(glob.glob(str(ROOT / "findings.d/*.json")))]:
        out += json.loads(f.read_text()).get("findings", [])
    return out


def main():
    props = [json.loads(l) for l in (ROOT / "properties.jsonl").read_text().splitlines() if l.strip()]
    man = json.loads((ROOT / "MANIFEST.json").read_text())
    claimed = {c["property_id"]: c for c in man["checks"]}
    fs = findings()
    lines = []
    lines.append("### 12.2 Per-property status\n")
    lines.append("| Id | claimed | theorems audited | Lean modules | notes | known findings | fixed defects |")
    lines.append("|---|---|---|---|---|---|---|")
    for p in props:
        pid = p["id"]
        try:
            mod = importlib.import_module(f"vlib.{pid.lower()}")
            nth = len(mod.THEOREMS)
            mods = ", ".join(m.replace("Klong.", "") for m in mod.MODULES)
        except Exception:
            nth, mods = 0, "-"
        kn = [e for e in fs if e["property"] == pid and e["status"] == "known"]
        fx = [e for e in fs if e["property"] == pid and e["status"] == "fixed"]
        note = f"notes/{pid}.md" if (ROOT / "notes" / f"{pid}.md").exists() else "this file"
        lines.append(f"| {pid} | {'yes' if pid in claimed else 'no'} | {nth} | {mods} | {note} | {len(kn)} | {len(fx)} |")
    lines.append("\n### 12.3 Defects of briangu/klongpy repaired (`fix:` commits on /repo main, oldest first)\n")
    for l in reversed(git("log", "--format=%h %s").splitlines()):
        if " fix:" in " " + l:
            lines.append(f"* `{l.split()[0]}` {l.split(' ', 1)[1]}")
    lines.append("\n### 12.4 Known findings (recorded, not repaired)\n")
    for e in fs:
        if e["status"] == "known":
            lines.append(f"* **{e['id']}** (`{e['matcher'].get('key')}`): {e['what_fails']}")
    lines.append("\n### 12.6 Seeded changes (written by fresh sub-agents from the property text alone) and what the checks report\n")
    lines.append("| change | property | what it breaks | needs | confirmed (demo fails with / passes without; suite passes) | check verdict |")
    lines.append("|---|---|---|---|---|---|")
    for mf in sorted(glob.glob(str(ROOT / "seeded/*/meta.json"))):
        m = json.loads(Path(mf).read_text())
        ev = m.get("evaluation", {})
        conf = "yes" if ev.get("demo_clean_rc") == 0 and ev.get("demo_changed_rc", 0) != 0 else "NO"
        verdict = ("caught: " + ", ".join(dict.fromkeys(ev.get("check_keys") or ["violation"]))) if m.get("caught_by_check") else "**missed**"
        if m.get("obsolete"):
            verdict = "obsolete — " + m["obsolete"]
        if m.get("note"):
            verdict += " — " + m["note"]
        wb = re.sub(r"\s+", " ", str(m.get("what_breaks", "")))[:160]
        nd = re.sub(r"\s+", " ", str(m.get("needs_to_manifest", "")))[:120]
        lines.append(f"| {Path(mf).parent.name} | {m.get('property')} | {wb} | {nd} | {conf}; {ev.get('suite', '')[:60]} | {verdict} |")
    block = BEGIN + "\n" + "\n".join(lines) + "\n" + END
    d = (ROOT / "DESIGN.md").read_text()
    if BEGIN in d:
        d = d[:d.index(BEGIN)] + block + d[d.index(END) + len(END):]
    else:
        d += "\n" + block + "\n"
    (ROOT / "DESIGN.md").write_text(d)


if __name__ == "__main__":
    main()
