"""C15 — timers tick once per interval until stopped, and stop for good.

Tie: the REAL `_call_periodic` / `eval_sys_fn_timer` / `.timerc` / KGFnWrapper run under a
SelectorEventLoop subclass whose clock is virtual (integer ticks of 2^-10 s, so every float
operation of the runner is exact).  The base class's `_run_once` is used unchanged: it decides
which handles run.  Every handle the real loop runs is replayed into the Lean machine
`Klong.C15` (`kd_c15`) as a `dispatch` input; the machine checks that the move is legal for
asyncio's dispatch rule and predicts the observable events (tick time, boundary, callback
version, `.timerc` results), the rescheduled deadline and the handle's delegate.

Oracle (needs no Lean model): a small reference simulation of the property text (live flag,
next boundary) evaluated directly on the observed (virtual time, tick) / `.timerc` sequence.

Hang trap: the clock is always advanced to the next scheduled deadline before `_run_once`,
the selector never blocks (timeout forced to 0), and every case runs under a step budget.
"""
import asyncio
import gc
import itertools
import json
import weakref

from . import common
from .common import Driver

CLAIM = dict(
    text="Lean 4 theorems over the timer machine (event-loop dispatch rule + _call_periodic runner + KGTimerHandler), "
         "for every input sequence (callback scripts, intervals, start times, dispatch latencies, external and "
         "in-callback cancellations): ticks only at or after their boundary, boundaries strictly increasing, missed "
         "boundaries skipped, no overlap, no tick after a false return / successful .timerc / raise, .timerc = 1 iff "
         "live, callback re-resolved at every tick; model tied to klongpy by replaying every handle the real "
         "asyncio loop runs under a virtual clock and comparing events + loop/handle state after each.",
    note="trusted: Lean kernel (axioms propext/Classical.choice/Quot.sound), the virtual-clock harness, asyncio "
         "(_run_once, call_at/call_later/call_soon, Handle.cancel), CPython float arithmetic on dyadic values; "
         "assumption earliness < minAdvance (clock advances by at least the loop resolution between dispatch decision "
         "and callback start); non-dyadic clock values are explored only",
    technique="Lean 4 invariant proof over a relational scheduler model, hand-written model, differential "
              "correspondence with the real run's dispatch choices replayed and checked for legality",
    design="7/C15")

MODULES = ["Klong.Props.C15"]
THEOREMS = [
    "Klong.C15.tick_on_boundary",
    "Klong.C15.one_tick_per_boundary",
    "Klong.C15.skips_missed",
    "Klong.C15.no_overlap",
    "Klong.C15.stops_for_good",
    "Klong.C15.timerc_result",
    "Klong.C15.callback_reresolved",
    "Klong.C15.live_timer_scheduled",
    "Klong.C15.due_handle_runs_body_or_stops",
    "Klong.C15.pinned_cancel_inside_callback_keeps_firing",
    "Klong.C15.pinned_timerc_after_raise_reports_one",
    "Klong.C15.frozen_clock_double_tick",
]

TICK = 2.0 ** -10
SEC = 1024
STEP_BUDGET = 200


class Budget(Exception):
    pass


# --------------------------------------------------------------------------- virtual loop

class VLoop(asyncio.SelectorEventLoop):
    """real asyncio loop, virtual clock (integer ticks), handles numbered in creation order"""

    def __init__(self, t0, res):
        super().__init__()
        self.t = t0
        self._clock_resolution = res * TICK
        self.drift = 0            # added to the clock after the next read (call_later's second read)
        self.next_id = 0
        self.recs = {}            # id(handle) -> dict(id, th, handle)
        self.current = None
        self.creating = None      # index of the timer being created (its first handle)
        self.on_exit = None
        orig = self._selector.select
        self._selector.select = lambda timeout=None: orig(0)      # never block on a virtual clock

    def time(self):
        v = self.t * TICK
        if self.drift:
            self.t += self.drift
            self.drift = 0
        return v

    def _wrap(self, callback, args):
        hid = self.next_id
        self.next_id += 1
        # owner = the timer being created, else the timer whose handle is running; the harness
        # keeps NO reference to the KGTimerHandler passed in `args` (it must not keep it alive)
        owner = self.creating if self.creating is not None else (self.current["k"] if self.current else None)
        rec = dict(id=hid, k=owner, handle=None)

        def shim(*a):
            self.current = rec
            try:
                return callback(*a)
            except BaseException as e:
                rec["exc"] = e          # what the runner let escape to the loop
                raise
            finally:
                self.current = None
                if self.on_exit:
                    self.on_exit(rec)
        return rec, shim

    def call_at(self, when, callback, *args, context=None):
        rec, shim = self._wrap(callback, args)
        h = super().call_at(when, shim, *args, context=context)
        rec["handle"] = h
        self.recs[id(h)] = rec
        return h

    def call_soon(self, callback, *args, context=None):
        rec, shim = self._wrap(callback, args)
        h = super().call_soon(shim, *args, context=context)
        rec["handle"] = h
        self.recs[id(h)] = rec
        return h

    def pending(self):
        hs = [h for h in list(self._scheduled) + list(self._ready) if not h._cancelled]
        return [self.recs[id(h)] for h in hs if id(h) in self.recs]


def ticks_of(x):
    v = x / TICK
    if v != int(v):
        raise ValueError(f"non-dyadic time {x!r}")
    return int(v)


# --------------------------------------------------------------------------- one case on the real code

class Real:
    """One scenario on the real code.  `case` is JSON-able:
       res, minadv, t0, path ('klong'|'direct'), steps: list of
         ["create", interval_ticks, script, hold] script = list of [adv_extra, dur, ret, act, drift];
                                                 hold (optional) = "keep": th_k::.timer(...) |
                                                 "drop": bare `.timer(...)`, result discarded |
                                                 "over:j": th_j::.timer(...) (timer j's handle is no
                                                 longer referenced by the program)
                                                 optional 5th element `on` (Klong path): the NAME the
                                                 timer is created on ("cbJ" / "alI"; default: a fresh
                                                 name cbK bound to a fresh function)
         ["forget", k]                           th_k::0 - the program drops its reference
         ["alias", i, k]                         alI::<name timer k was created on>  (same function
                                                 object under a second name)
         ["rebind", name, arity]                 name::{<fresh function>}  (any name, whether or not a
                                                 timer was created on it); arity optional (0..3)
       `create` takes an optional 6th element (arity of the fresh callback), `redefine` an optional 4th,
       the action "redef:v:a" re-binds to a function of arity a.  A tick calls the callback with no
       arguments, so a binding of arity > 0 cannot be invoked: the timer must then stop.
       Klong path: every function is `{tk(fid)}` with a globally unique fid, so the tick event says
       WHICH function ran; a timer must run whatever its creation name is bound to at that tick.
         ["pass", lat]                           run the loop once at (next deadline + lat)
         ["timerc", k] | ["redefine", k, v] | ["advance", d]
    """

    def __init__(self, ctx, case, drv, frozen=False):
        self.ctx, self.case, self.drv, self.frozen = ctx, case, drv, frozen
        self.res, self.minadv = case["res"], case["minadv"]
        self.loop = VLoop(case["t0"], self.res)
        self.loop.set_exception_handler(lambda l, c: self.exc.append(repr(c.get("exception"))))
        self.loop.on_exit = self._on_exit
        self.exc = []
        self.arity_raises = 0   # RuntimeErrors of KGFnWrapper's arity check that the property expects
        self.ths = []           # per timer: callable -> KGTimerHandler or None (strong only while the
                                # program itself retains the handle; a weakref afterwards)
        self.var = []           # per timer: name of the Klong variable holding the handle, or None
        self.weak_mode = False
        self.collect_due = False
        self.meta = []          # per timer: dict(start, interval, script, runs)
        self.obs = []           # all observed events, in order (strings in the model's format)
        self.cur = []           # events of the handle now running
        self.disp = []          # dispatches of the current pass: (line, impl_reply)
        self.in_cb = False
        self.failed = False
        self.spec = Spec(self)
        self.klong = None
        if case["path"] == "klong":
            from klongpy import KlongInterpreter
            self.klong = KlongInterpreter()
            self.klong[".system"] = {"klongloop": self.loop, "ioloop": self.loop}
            self.klong["tk"] = lambda x: self.hook_klong(int(x))
        self.names = {}         # Klong path: name -> (fid, token of the function object)
        self.tname = []         # per timer: the name it was created on (None on the direct path)
        self.next_fid = 1

    # ---- observation helpers
    def digest(self):
        L = self.loop
        items = []
        for rec in sorted(L.pending(), key=lambda r: r["id"]):
            h = rec["handle"]
            w = f"{ticks_of(h.when())}" if isinstance(h, asyncio.TimerHandle) else "soon"
            items.append(f"{rec['id']}:{rec['k']}:{w}")
        dels = []
        for k, get in enumerate(self.ths):
            th = get()
            d = th.delegate if th is not None else None     # a collected handler has no delegate
            dels.append(f"{k}:-" if d is None else f"{k}:{L.recs[id(d)]['id'] if id(d) in L.recs else '?'}")
        return f"now={L.t} pending={','.join(items)} delegates={','.join(dels)}"

    def emit(self, ev):
        self.obs.append(ev)
        self.cur.append(ev)

    # ---- the callback every timer runs
    def hook_klong(self, fid):
        """Klong function `{tk(fid)}` ran: the timer is the owner of the loop handle now running"""
        cur = self.loop.current
        if cur is None or cur["k"] is None or cur["k"] >= len(self.meta):
            self.oracle_fail("timer:callback-outside-dispatch", "callbacks run from their timer's loop handle",
                             f"function {fid} called with no timer handle running")
            return 0
        return self.hook(cur["k"], fid)

    def hook(self, k, ver):
        L = self.loop
        if self.in_cb:
            self.oracle_fail("timer:overlap", "callbacks never overlap", f"timer {k} entered while another callback runs")
        self.in_cb = True
        try:
            m = self.meta[k]
            sp = m["script"].pop(0) if m["script"] else [0, 0, 0, "none", 0]
            adv_extra, dur, ret, act, drift = sp
            # a `.timerc` needs the handle: the program cannot issue it on a timer it forgot
            if act == "self" and not self.held(k):
                act = "none"
            elif act.startswith("other:") and int(act.split(":")[1]) < len(self.ths) \
                    and not self.held(int(act.split(":")[1])):
                act = "none"
            adv = (0 if self.frozen else self.minadv) + adv_extra
            t_dec = L.t
            L.t += adv
            T = L.t
            L.t += dur
            rec = L.current
            h = rec["handle"]
            m["runs"] += 1
            if isinstance(h, asyncio.TimerHandle) and m["interval"] > 0:
                n = (ticks_of(h.when()) - m["start"]) // m["interval"]
            else:
                n = m["runs"]
            self.dispatch_info = dict(h=rec["id"], adv=adv, dur=dur, ret=ret, act=act, k=k, t_dec=t_dec)
            self.emit(f"tick:{k}:{T}:{n}:{dur}:{ver}")
            self.spec.tick(k, T, dur, ver, t_dec)
            if act == "self":
                self.do_timerc(k, inside=k)
            elif act.startswith("other:"):
                self.do_timerc(int(act.split(":")[1]), inside=k)
            elif act.startswith("redef:"):
                parts = act.split(":")
                ar = int(parts[2]) if len(parts) > 2 and self.klong else 0
                fid, others = self.do_redefine(k, int(parts[1]), inside=True, arity=ar)
                self.dispatch_info["act"] = f"redef:{fid}:{ar}"
                self.dispatch_info["extra"] = [(j, f, ar) for j, f in others]
            elif act == "raise":
                self.emit(f"raised:{k}")
                self.spec.raised(k)
                raise RuntimeError("callback script: raise")
            self.emit(f"ret:{k}:{1 if ret else 0}")
            self.spec.ret(k, ret)
            if m["interval"] > 0 and ret and drift:
                L.drift = drift
                self.dispatch_info["drift_req"] = drift
            return ret
        finally:
            self.in_cb = False

    def _on_exit(self, rec):
        """the real loop finished running one handle"""
        L = self.loop
        info = getattr(self, "dispatch_info", None)
        self.dispatch_info = None
        if info is None:            # the loop ran a due handle, the callback body did not run
            self.uninvoked(rec)
            return
        req = info.get("drift_req", 0)
        drift = req if (req and L.drift == 0) else 0
        L.drift = 0
        self.spec.after_handle(info["k"], drift)
        line = (f"dispatch h={info['h']} adv={info['adv']} dur={info['dur']} ret={1 if info['ret'] else 0} "
                f"act={info['act']} drift={drift}")
        try:
            impl = f"ok ev={';'.join(self.cur)} {self.digest()}"
        except ValueError as e:
            impl = f"error {e}"
        self.cur = []
        self.disp.append((line, impl))
        for j, fid, ar in info.get("extra", []):      # other timers created on the rebound name
            self.obs.append(f"redefined:{j}:{fid}")
            try:
                self.disp.append((f"redefine k={j} v={fid} a={ar}", f"ok ev=redefined:{j}:{fid} {self.digest()}"))
            except ValueError as e:
                self.disp.append((f"redefine k={j} v={fid} a={ar}", f"error {e}"))

    def uninvoked(self, rec):
        """A due handle of timer k ran and the hook was never entered.  Legitimate only when the
        current binding of the timer's name takes parameters (KGFnWrapper._apply raises before
        the body); then the timer must be dead afterwards - never armed with the body not run."""
        L = self.loop
        k = rec["k"]
        if k is None or k >= len(self.meta):
            self.cur = []
            return
        raised = rec.get("exc") is not None
        armed = any(r["k"] == k for r in L.pending())
        if raised:
            self.emit(f"raised:{k}")
        self.spec.uninvoked(k, raised, armed)
        try:
            impl = f"ok ev={';'.join(self.cur)} {self.digest()}"
        except ValueError as e:
            impl = f"error {e}"
        self.cur = []
        self.disp.append((f"dispatch h={rec['id']} adv=0 dur=0 ret=1 act=none drift=0", impl))
        self.ctx.bump("handle-ran-body-not-run")

    # ---- operations
    def held(self, k):
        return k < len(self.ths) and self.var[k] is not None

    def forget(self, k):
        """the program drops its reference to timer k's handle (th::0 / variable reused)"""
        if not self.held(k):
            return
        th = self.ths[k]()
        if self.klong:
            self.klong(f"{self.var[k]}::0")
        self.var[k] = None
        self.ths[k] = weakref.ref(th)
        del th
        self.weak_mode = self.collect_due = True
        self.ctx.bump("handle-forgotten")

    def do_timerc(self, k, inside=None):
        from klongpy.sys_fn_timer import eval_sys_fn_cancel_timer
        if k < len(self.ths):
            r = self.klong(f".timerc({self.var[k]})") if self.klong else eval_sys_fn_cancel_timer(self.ths[k]())
        else:
            r = self.klong(".timerc(0)") if self.klong else eval_sys_fn_cancel_timer(0)
        r = int(r)
        self.emit(f"timerc:{k}:{r}")
        self.spec.timerc(k, r, inside)
        return r

    def define(self, name, arity=0):
        """name::{tk(fid)} with a fresh function taking `arity` parameters; returns fid"""
        fid = self.next_fid
        self.next_fid += 1
        params = "".join(f"{p};" for p in "xyz"[:arity])        # {x;y;tk(7)} has arity 2
        self.klong(f"{name}::{{{params}tk({fid})}}")
        self.names[name] = (fid, fid, arity)
        self.spec.bind(name, fid, arity)
        if arity:
            self.ctx.bump(f"function-arity-{arity}")
        return fid

    def do_redefine(self, k, v, inside=False, arity=0):
        """rebind the name timer k was created on; returns (fid, [(j, fid) other timers on that name])"""
        if not self.klong:
            self.meta[k]["pyver"] = v       # a plain Python callable is its own binding
            self.emit(f"redefined:{k}:{v}")
            self.spec.redefined(k, v)
            return v, []
        name = self.tname[k]
        fid = self.define(name, arity)
        self.emit(f"redefined:{k}:{fid}")
        others = [(j, fid) for j, n in enumerate(self.tname) if n == name and j != k]
        if not inside:
            self.sync(f"redefine k={k} v={fid} a={arity}")
            for j, _ in others:
                self.emit(f"redefined:{j}:{fid}")
                self.sync(f"redefine k={j} v={fid} a={arity}")
        self.ctx.bump("rebind:timer-name")
        return fid, others

    def do_rebind(self, name, arity=0):
        """name::{fresh function} for any known name"""
        if not self.klong or name not in self.names:
            return
        users = [j for j, n in enumerate(self.tname) if n == name]
        if users:
            self.do_redefine(users[0], 0, arity=arity)
        else:
            self.define(name, arity)
            self.ctx.bump("rebind:other-name")

    def do_alias(self, i, k):
        if not self.klong or k >= len(self.tname):
            return
        old = self.tname[k]
        new = f"al{i}"
        if new == old or any(n == new for n in self.tname):
            return                      # keep it simple: never re-point a name a timer was created on
        self.klong(f"{new}::{old}")
        self.names[new] = self.names[old]
        self.spec.bind(new, self.names[old][0], self.names[old][2])
        self.ctx.bump("alias")

    def do_create(self, interval, script, hold="keep", on=None, arity=0):
        from klongpy.sys_fn_timer import _call_periodic, KGTimerHandler
        k = len(self.ths)
        L = self.loop
        name, shared = None, False
        if self.klong:
            if on is not None and on in self.names:
                name = on
            else:
                name = f"cb{k}"
                self.define(name, arity)
            # the same function object is bound under another name as well: which name the
            # wrapper follows is then decided by KGFnWrapper._find_symbol's search order
            shared = sum(1 for v in self.names.values() if v[1] == self.names[name][1]) > 1
        over = None
        if hold.startswith("over:"):
            over = int(hold.split(":")[1])
            if not self.held(over):
                hold, over = "keep", None
        self.meta.append(dict(start=L.t, interval=interval, script=[list(s) for s in script], runs=0, pyver=0))
        var = f"th{k}" if over is None else self.var[over]
        L.creating = k
        try:
            if self.klong:
                assert interval % SEC == 0
                call = f'.timer("t{k}";{interval // SEC};{name})'
                th = self.klong(call if hold == "drop" else f"{var}::{call}")
            else:
                th = _call_periodic(L, f"t{k}", interval * TICK if interval else 0,
                                    lambda k=k: self.hook(k, self.meta[k]["pyver"]))
        finally:
            L.creating = None
        if not isinstance(th, KGTimerHandler):
            raise RuntimeError(f".timer returned {th!r}")
        if over is not None:        # the variable now names the new timer: the old handle is unreferenced
            old = self.ths[over]()
            self.ths[over] = weakref.ref(old)
            self.var[over] = None
            del old
            self.weak_mode = self.collect_due = True
            self.ctx.bump("handle-overwritten")
        if hold == "drop":          # fire and forget: nobody keeps the value `.timer` returned
            self.ths.append(weakref.ref(th))
            self.var.append(None)
            self.weak_mode = self.collect_due = True
            self.ctx.bump("handle-dropped")
        else:
            self.ths.append(lambda th=th: th)
            self.var.append(var)
        del th
        self.tname.append(name)
        self.emit(f"created:{k}:{self.meta[k]['start']}:{interval}")
        self.spec.created(k, self.meta[k]["start"], interval, name, shared)
        if shared:
            self.ctx.bump("created-on-shared-function")
        elif on is not None and name == on:
            self.ctx.bump("created-on-existing-name")

    def after_create(self, k):
        """Klong path: tell the model which function the creation name is bound to"""
        if self.klong:
            fid, _, arity = self.names[self.tname[k]]
            self.emit(f"redefined:{k}:{fid}")
            self.sync(f"redefine k={k} v={fid} a={arity}")

    def sync(self, line):
        """send one non-dispatch input to the model and compare"""
        try:
            impl = f"ok ev={';'.join(self.cur)} {self.digest()}"
        except ValueError as e:
            impl = f"error {e}"
        self.cur = []
        self.compare(line, impl)

    def compare(self, line, impl):
        self.lines.append(line)
        if self.drv is None or self.failed:
            return
        model = self.drv.ask(line)
        self.ctx.bump("model-lines")
        if model != impl:
            self.failed = True
            self.ctx.mismatch("Klong.C15.step vs sys_fn_timer (" + line.split(" ")[0] + ")",
                              dict(self.case, upto=list(self.lines)), model, impl)

    def oracle_fail(self, key, expected, observed):
        if self.frozen:
            self.ctx.bump("frozen-clock:" + key)
            ex = self.ctx.extra.setdefault("frozen_clock_exploration", [])
            if len(ex) < 3:
                ex.append(dict(case=self.case, key=key, expected=expected, observed=observed))
            self.spec.dead = True
            return
        self.spec.dead = True
        self.failed = True      # the run has left the property: no model comparison beyond this point
        self.ctx.oracle_fail(key, self.case, expected, observed,
                             "observed events so far: " + ";".join(self.obs[-12:]))

    # ---- run
    def run(self):
        c = self.case
        L = self.loop
        self.lines = []
        budget = STEP_BUDGET
        try:
            self.compare(f"new res={self.res} minadv={0 if self.frozen else self.minadv} fix1=1 fix2=1 now={c['t0']}",
                         f"ok ev= {self.digest()}")
            for st in c["steps"]:
                budget -= 1
                if budget < 0:
                    raise Budget()
                op = st[0]
                if self.weak_mode and self.collect_due:
                    gc.collect()        # CPython frees an unreferenced handler at once; make it explicit
                    self.collect_due = False
                if op == "create":
                    self.do_create(st[1], st[2], st[3] if len(st) > 3 else "keep", st[4] if len(st) > 4 else None,
                                   st[5] if len(st) > 5 else 0)
                    self.sync(f"create interval={st[1]}")
                    self.after_create(len(self.ths) - 1)
                elif op == "alias":
                    self.do_alias(st[1], st[2])
                elif op == "rebind":
                    self.do_rebind(st[1], st[2] if len(st) > 2 else 0)
                elif op == "forget":
                    self.forget(st[1])
                elif op == "advance":
                    L.t += st[1]
                    self.sync(f"advance d={st[1]}")
                elif op == "timerc":
                    if st[1] >= len(self.ths) or self.held(st[1]):     # needs the handle
                        self.do_timerc(st[1])
                        self.sync(f"timerc k={st[1]}")
                elif op == "redefine":
                    if st[1] < len(self.ths):
                        self.do_redefine(st[1], st[2], arity=st[3] if len(st) > 3 else 0)
                        if not self.klong:
                            self.sync(f"redefine k={st[1]} v={st[2]}")
                elif op == "pass":
                    self.do_pass(st[1])
                if self.exc:
                    self.ctx.bump("callback-exceptions", len(self.exc))
                    stray = [e for e in self.exc if "callback script: raise" not in e]
                    while self.arity_raises and any("Klong function called with 0" in e for e in stray):
                        stray.remove(next(e for e in stray if "Klong function called with 0" in e))
                        self.arity_raises -= 1
                    if stray and not self.spec.dead:
                        self.oracle_fail("timer:loop-exception", "the runner raises only what the callback raised",
                                         "; ".join(stray)[:300])
                    self.exc = []
        finally:
            L.close()

    def do_pass(self, lat):
        L = self.loop
        if self.weak_mode:
            gc.collect(0)
        pend = L.pending()
        if not pend:
            if self.spec.next_due(L.t) is not None and not self.spec.dead:
                self.spec.fail("timer:missed-tick", "a live timer has a pending loop handle", "nothing scheduled")
            self.ctx.bump("pass:idle")
            return
        soon = [r for r in pend if not isinstance(r["handle"], asyncio.TimerHandle)]
        base = L.t if soon else min(ticks_of(r["handle"].when()) for r in pend)
        exp = self.spec.next_due(L.t)        # where the property expects the next tick
        if exp is not None and not self.spec.dead:
            base = min(base, exp)
        target = max(L.t, base + lat)
        d = target - L.t
        L.t = target
        self.sync(f"advance d={d}")
        self.disp = []
        self.spec.begin_pass(L.t)
        L._run_once()                    # the real dispatch rule
        if L.drift:                      # defensive: a clock read that did not happen
            L.drift = 0
        for line, impl in self.disp:
            self.compare(line, impl)
            self.ctx.bump("dispatch")
        if not self.disp:
            self.ctx.bump("pass:nothing-due")
        self.spec.end_pass()


# --------------------------------------------------------------------------- the property's own oracle

class Spec:
    """reference reading of the property text, driven by the observed events only"""

    def __init__(self, real):
        self.real = real
        self.tm = {}
        self.names = {}         # name -> function id currently bound to it
        self.arity = {}         # name -> number of parameters of that function
        self.dead = False
        self.ticked = set()
        self.pass_t = None

    def fail(self, key, exp, obs):
        if not self.dead:
            self.real.oracle_fail(key, exp, obs)

    def bind(self, name, fid, arity=0):
        self.names[name] = fid
        self.arity[name] = arity

    def uninvoked(self, k, raised, armed):
        """the loop ran a due handle of timer k and the callback body did not run"""
        m = self.tm.get(k)
        if m is None or self.dead:
            return
        ar = self.arity.get(m["name"], 0) if m["name"] is not None else 0
        if not m["live"]:
            self.fail("timer:tick-after-stop", f"no loop handle of timer {k} runs after it was stopped ({m['cause']})",
                      "a handle of the timer ran")
        elif ar == 0:
            # (a timer created while its function was also bound under another name follows that
            # other name - the known aliased-at-creation class - and may meet ITS arity)
            self.fail("timer:reresolve:aliased-at-creation" if m["shared"] else "timer:body-not-run",
                      f"the callback of timer {k} (no parameters) runs at its boundary",
                      "the loop ran the timer's handle, the body did not run" + (" (raised)" if raised else ""))
        else:
            # a tick calls the callback with no arguments: a callback that takes parameters cannot be
            # invoked; then the timer must die - never "armed but body not run"
            if armed:
                self.fail("timer:armed-without-running",
                          f"timer {k} (callback takes {ar} parameter(s), body cannot run) is dead: nothing pending",
                          "the timer re-armed itself without running the body")
            else:
                self.real.arity_raises += 1
            self.stop(k, "raise")
        self.ticked.add(k)

    def created(self, k, start, interval, name=None, shared=False):
        self.tm[k] = dict(live=True, start=start, I=interval, nb=start + interval, last_b=0, ver=0, cause=None,
                          late=0, fresh=True, runs=0, name=name, shared=shared)

    def next_due(self, now):
        ds = [now if m["I"] == 0 else m["nb"] + m["late"] for m in self.tm.values() if m["live"]]
        return min(ds) if ds else None

    def begin_pass(self, t):
        self.pass_t = t
        self.ticked = set()
        self.snapshot = {k: dict(live=m["live"], nb=m["nb"], late=m["late"], fresh=m["fresh"])
                         for k, m in self.tm.items()}
        for m in self.tm.values():
            m["fresh"] = False

    def end_pass(self):
        if self.dead:
            return
        res = self.real.res
        for k, snap in self.snapshot.items():
            m = self.tm[k]
            if not (snap["live"] and m["live"]) or k in self.ticked:
                continue
            if m["I"] == 0:
                due = True            # a call_soon handle queued before the pass runs in the pass
            else:
                due = snap["nb"] + snap["late"] < self.pass_t + res
            if due:
                self.fail("timer:missed-tick", f"timer {k} ticks in the loop pass at {self.pass_t} (boundary {snap['nb']})",
                          "no tick")
        self.snapshot = {}

    def tick(self, k, T, dur, ver, t_dec):
        m = self.tm[k]
        m["runs"] += 1
        self.ticked.add(k)
        if not m["live"]:
            key = {"inside": "timer:cancel-inside-callback", "timerc": "timer:tick-after-timerc",
                   "false": "timer:tick-after-false", "raise": "timer:tick-after-raise"}[m["cause"]]
            self.fail(key, f"no invocation of timer {k} after it was stopped ({m['cause']})", f"tick at {T}")
            return
        I = m["I"]
        if I > 0:
            b = (T - m["start"]) // I
            if b < 1:
                self.fail("timer:early-tick", f"first tick at or after {m['start'] + I}", f"tick at {T}")
            elif b <= m["last_b"]:
                self.fail("timer:double-boundary", f"boundary index > {m['last_b']}", f"tick at {T} is boundary {b} again")
            elif T < m["nb"]:
                self.fail("timer:early-tick", f"next tick at or after boundary {m['nb']}", f"tick at {T}")
            m["last_b"] = b
            f = T + dur
            m["nb"] = m["start"] + ((f - m["start"]) // I + 1) * I
        else:
            if T < m["start"]:
                self.fail("timer:early-tick", f">= {m['start']}", f"tick at {T}")
        want = self.names[m["name"]] if m["name"] is not None else m["ver"]
        if ver != want:
            # created while the function object was also bound under another name: a separate,
            # specific class (the wrapper can only look the VALUE up, first name found wins)
            key = "timer:reresolve:aliased-at-creation" if m["shared"] else "timer:reresolve"
            self.fail(key, f"function {want} runs (the current binding of {m['name'] or 'the callback'})",
                      f"function {ver} ran")
        m["late"] = 0

    def after_handle(self, k, drift):
        if k in self.tm:
            self.tm[k]["late"] = drift

    def stop(self, k, cause):
        if k in self.tm and self.tm[k]["live"]:
            self.tm[k]["live"] = False
            self.tm[k]["cause"] = cause

    def ret(self, k, r):
        if not r:
            self.stop(k, "false")

    def raised(self, k):
        self.stop(k, "raise")

    def redefined(self, k, v):
        self.tm[k]["ver"] = v

    def timerc(self, k, r, inside):
        live = k in self.tm and self.tm[k]["live"]
        exp = 1 if live else 0
        if r != exp:
            cause = self.tm[k]["cause"] if k in self.tm else None
            key = "timer:timerc-after-raise" if cause == "raise" else "timer:timerc-result"
            self.fail(key, f".timerc returns {exp} (timer {'live' if live else 'not live: ' + str(cause)})", f"returned {r}")
        if r == 1 or live:
            self.stop(k, "inside" if inside == k else "timerc")


# --------------------------------------------------------------------------- generators

ACTS = ["none"] * 12 + ["self", "other:0", "other:1", "other:2", "redef:3", "redef:5", "redef:3", "raise",
                        "redef:3:1", "redef:3:2"]


def gen_script(rng, n, interval, ntimers_hint):
    out = []
    unit = interval if interval else 7
    for _ in range(n):
        dur = rng.choice([0, 0, 1, unit // 3, unit // 3 + 1, unit - 1 if unit > 1 else 0, unit, unit + unit // 3, 2 * unit + 1])
        ret = rng.choice([1] * 9 + [0])
        if ret and rng.random() < 0.15:
            ret = rng.choice([2, 7])
        act = rng.choice(ACTS)
        adv_extra = rng.choice([0, 0, 0, 1, 3])
        drift = rng.choice([d for d in (0, 0, 0, 1, 2, unit // 3) if d < max(1, interval)])
        out.append([adv_extra, max(0, dur), ret, act, drift])
    return out


def gen_lat(rng, res, interval):
    unit = interval if interval else 7
    return rng.choice([0, 0, 0, -(res - 1), -(res - 1), -1 if res > 1 else 0, -res, -res - 3,
                       unit // 3, unit + unit // 3, 1, rng.randrange(0, 2 * unit + 2)])


def gen_case(rng, long=False):
    path = rng.choice(["klong", "direct"])
    res = rng.choice([1, 2, 4])
    minadv = res + rng.choice([0, 0, 1, res])
    t0 = rng.choice([0, 5, 1000 * SEC, 1000 * SEC + 1, 123457, 2 ** 33 + 11, rng.randrange(0, 10 ** 7)])
    if path == "klong":
        ivs = [0, SEC, 2 * SEC, 5 * SEC]
    else:
        ivs = [0, 1, 2, 3, 5, 7, SEC, 2 * SEC, 5 * SEC, 1536]
    nt = rng.choice([1, 1, 2, 3])
    steps = []
    intervals = []
    for i in range(nt):
        iv = rng.choice(ivs)
        intervals.append(iv)
        steps.append(["create", iv, gen_script(rng, rng.randrange(2, 12 if long else 8), iv, nt),
                      rng.choice(["keep", "keep", "keep", "drop"]), None,
                      rng.choice([0] * 12 + [1, 2, 3])])      # arity of the fresh callback
        if rng.random() < 0.5:
            steps.append(["advance", rng.choice([1, 2, 3, 100, SEC // 2])])
    npass = rng.randrange(3, 30 if long else 12)
    for _ in range(npass):
        r = rng.random()
        iv = rng.choice(intervals)
        if r < 0.70:
            steps.append(["pass", gen_lat(rng, res, iv)])
        elif r < 0.82:
            steps.append(["timerc", rng.choice(list(range(nt)) + [nt])])
        elif r < 0.90:
            steps.append(["redefine", rng.randrange(nt), rng.choice([1, 2, 4]), rng.choice([0, 0, 0, 0, 1, 2, 3])])
        elif r < 0.92:
            steps.append(["forget", rng.randrange(nt)])
        elif r < 0.94:
            steps.append(["alias", rng.randrange(2), rng.randrange(nt)])
        elif r < 0.955:
            steps.append(["rebind", rng.choice(["al0", "al1", "cb0", "cb1"]), rng.choice([0, 0, 0, 1, 2])])
        elif r < 0.985 and len(intervals) < 4:
            iv2 = rng.choice(ivs)
            intervals.append(iv2)
            steps.append(["create", iv2, gen_script(rng, rng.randrange(1, 5), iv2, nt),
                          rng.choice(["keep", "drop", f"over:{rng.randrange(nt)}"]),
                          rng.choice([None, None, "al0", "al1", "cb0", "cb1"])])
        else:
            steps.append(["advance", rng.choice([0, 1, 5, SEC])])
    return dict(path=path, res=res, minadv=minadv, t0=t0, steps=steps)


def calm_script(rng, n):
    """mostly plain true returns, so that timers stay alive through a naming history"""
    out = []
    for _ in range(n):
        act = rng.choice(["none"] * 8 + ["redef:1", "other:0"]) if rng else "none"
        out.append([0, rng.choice([0, 0, 1, 400]) if rng else 0, 1, act, 0])
    return out


def alias_case(iv, cancel_a, rebind_before, after, third, rng=None, lat=0, t0=1000 * SEC):
    """naming histories (Klong path): timer A on cb0; the function is kept under a second name al0;
    cb0 is (or is not) re-bound to a different function; timer B is created on al0; later al0 / cb0
    are re-bound; optionally a third timer is created on cb0.  Every timer must run what ITS creation
    name is bound to at each tick."""
    steps = [["create", iv, calm_script(rng, 10)], ["pass", lat], ["pass", lat]]
    if cancel_a:
        steps.append(["timerc", 0])
    steps.append(["alias", 0, 0])                          # al0::cb0
    if rebind_before:
        steps.append(["rebind", "cb0"])                    # cb0::{other function}
    steps.append(["advance", 300])
    steps.append(["create", iv, calm_script(rng, 10), "keep", "al0"])
    steps += [["pass", lat]] * 3
    if after in ("al0", "both"):
        steps += [["rebind", "al0"], ["pass", lat], ["pass", lat]]
    if after in ("cb0", "both"):
        steps += [["rebind", "cb0"], ["pass", lat], ["pass", lat]]
    if third:
        steps += [["create", iv, calm_script(rng, 4), "keep", "cb0"], ["pass", lat], ["rebind", "cb0"],
                  ["pass", lat], ["pass", lat]]
    steps += [["timerc", 1], ["pass", lat], ["timerc", 0]]
    return dict(path="klong", res=2, minadv=2, t0=t0, steps=steps)


def arity_case(iv, a0, a1, back, lat=0, t0=1000 * SEC, rng=None):
    """callbacks that take parameters: created so (a0) or re-bound so while the timer runs (a1), and
    re-bound to a nilad again before / after the next boundary.  The tick passes no arguments: the body of
    such a binding cannot run, the timer must die at that boundary (and `.timerc` then report 0)."""
    steps = [["create", iv, calm_script(rng, 10), "keep", None, a0], ["pass", lat], ["pass", lat],
             ["redefine", 0, 1, a1]]
    if back == "before":
        steps.append(["redefine", 0, 2, 0])
    steps.append(["pass", lat])
    if back == "after":
        steps.append(["redefine", 0, 2, 0])
    steps += [["pass", lat], ["pass", lat], ["timerc", 0], ["pass", lat]]
    return dict(path="klong", res=2, minadv=2, t0=t0, steps=steps)


def enum_arity_cases():
    for iv, a0, a1, back in itertools.product([0, SEC, 2 * SEC], [0, 1, 2, 3], [0, 1, 2, 3],
                                              ["none", "before", "after"]):
        yield arity_case(iv, a0, a1, back)


def enum_alias_cases():
    for iv, cancel_a, rebind_before, after, third in itertools.product(
            [0, SEC, 2 * SEC], [0, 1], [0, 1], ["none", "al0", "cb0", "both"], [0, 1]):
        yield alias_case(iv, cancel_a, rebind_before, after, third)


def enum_cases():
    """thorough tier: every script of length <= 2 over the grid of the property's quantifier text
    x intervals {0,1,2,5} s x start offsets x latencies x an external cancellation point"""
    acts = ["none", "self", "other:0", "redef:3", "raise"]
    for iv in [0, SEC, 2 * SEC, 5 * SEC]:
        unit = iv if iv else 3
        durs = [0, unit // 3, unit + unit // 3]
        ticks1 = [[0, d, r, a, 0] for d in durs for r in (1, 0) for a in acts]
        scripts = [[t] for t in ticks1] + [[a, b] for a in ticks1 for b in ticks1]
        lats = [0, -1, unit // 3, unit + unit // 3]
        for si, script in enumerate(scripts):
            lat = lats[si % 4]
            t0 = [1000 * SEC, 1000 * SEC + 341][si % 2]
            ext = si % 5          # external .timerc after this many passes (4 = never)
            hold = "drop" if si % 7 == 3 else "keep"      # fire-and-forget `.timer(...)`
            steps = [["create", iv, script + [[0, 0, 1, "none", 0]] * 2, hold]]
            for p in range(5):
                if p == ext:
                    steps.append(["forget", 0] if si % 7 == 5 else ["timerc", 0])
                steps.append(["pass", lat])
            steps.append(["timerc", 0])
            yield dict(path="klong" if si % 3 == 0 else "direct", res=2, minadv=2, t0=t0, steps=steps)


# --------------------------------------------------------------------------- entry

WITNESSES = [
    # DESIGN §8: .timerc(th) from inside th's own callback, then the timer must stay stopped
    dict(path="klong", res=2, minadv=2, t0=1000 * SEC, steps=[
        ["create", 2 * SEC, [[0, 0, 1, "none", 0], [0, 0, 1, "self", 0], [0, 0, 1, "none", 0]]],
        ["pass", 0], ["pass", 0], ["pass", 0], ["pass", 0], ["timerc", 0]]),
    # DESIGN §8: callback raises, then .timerc must report 0
    dict(path="klong", res=2, minadv=2, t0=1000 * SEC, steps=[
        ["create", SEC, [[0, 0, 1, "raise", 0]]], ["pass", 0], ["timerc", 0], ["pass", 0]]),
    dict(path="direct", res=1, minadv=1, t0=7, steps=[
        ["create", 0, [[0, 1, 1, "none", 0], [0, 0, 1, "self", 0]]], ["pass", 0], ["pass", 0], ["pass", 0], ["timerc", 0]]),
    # the handle is not retained: a live timer keeps ticking until its callback returns false
    # fire and forget: `.timer("t0";1;cb0)` as a bare statement
    dict(path="klong", res=2, minadv=2, t0=1000 * SEC, steps=[
        ["create", SEC, [[0, 0, 1, "none", 0]] * 5 + [[0, 0, 0, "none", 0]], "drop"]] + [["pass", 0]] * 8),
    # th0::.timer(a), two ticks, th0::.timer(b): timer a goes on next to b
    dict(path="klong", res=2, minadv=2, t0=1000 * SEC, steps=[
        ["create", SEC, [[0, 0, 1, "none", 0]] * 7 + [[0, 0, 0, "none", 0]]], ["pass", 0], ["pass", 0],
        ["advance", SEC // 2], ["create", SEC, [[0, 0, 1, "none", 0]] * 4, "over:0"]] + [["pass", 0]] * 14),
    # th0::.timer(...), a tick, th0::0
    dict(path="klong", res=2, minadv=2, t0=1000 * SEC + 3, steps=[
        ["create", 2 * SEC, [[0, 0, 1, "none", 0]] * 4 + [[0, 0, 0, "none", 0]]], ["pass", 0],
        ["forget", 0]] + [["pass", 0]] * 6),
    dict(path="direct", res=1, minadv=1, t0=11, steps=[
        ["create", 3, [[0, 1, 1, "none", 0]] * 4, "drop"], ["create", 0, [[0, 0, 1, "none", 0]] * 3, "drop"]]
        + [["pass", 0]] * 10),
    # names: timer a on cb0, cancelled; al0::cb0; cb0 re-bound; timer b on al0 follows al0
    alias_case(SEC, 1, 1, "al0", 0),
    # known finding (findings.d/C15.json): al0::cb0 while cb0 still holds the function, timer on al0,
    # then al0 re-bound - the wrapper follows cb0, the first name found for the value
    alias_case(SEC, 1, 0, "al0", 0),
    # the callback is re-bound to a function that takes a parameter while the timer runs
    arity_case(2 * SEC, 0, 1, "none"),
    # created on a callback with a parameter whose body would return 0
    dict(path="klong", res=2, minadv=2, t0=1000 * SEC, steps=[
        ["create", SEC, [[0, 0, 0, "none", 0]], "keep", None, 1]] + [["pass", 0]] * 4 + [["timerc", 0]]),
]


def run_case(ctx, case, drv, frozen=False):
    r = Real(ctx, case, drv, frozen=frozen)
    try:
        r.run()
    except Budget:
        raise common.Infra("C15: step budget exhausted")
    except Exception as e:   # the real code failed in a way no script asks for
        if not frozen:
            ctx.oracle_fail(f"timer:raises:{type(e).__name__}", case, "timer operations return", f"{type(e).__name__}: {e}")
        return r
    if not frozen:
        nt = sum(1 for e in r.obs if e.startswith("tick:"))
        ctx.count(json.dumps(case, sort_keys=True), nontrivial=nt >= 2)
        ctx.bump("ticks", nt)
        ctx.bump("path:" + case["path"])
        for e in r.obs:
            ctx.bump("ev:" + e.split(":")[0])
    return r


def frozen_exploration(ctx, drv):
    """early dispatch with the clock frozen during the handle (minAdvance = 0): unreachable on a
    real clock; explored and reported, never a verdict.  The Lean machine is still compared."""
    for iv, e in itertools.product([2, SEC, 2 * SEC], [1, 3]):
        case = dict(path="direct", res=4, minadv=0, t0=1000 * SEC, steps=[
            ["create", iv, [[0, 0, 1, "none", 0]] * 6]] + [["pass", -e]] * 6)
        run_case(ctx, case, drv, frozen=True)


def float_exploration(ctx):
    """arbitrary (non-dyadic) start times: the integer model cannot exhibit rounding in
    `(loop.time() - start) % interval`; look for double ticks on the real code (exploration)"""
    from klongpy.sys_fn_timer import _call_periodic
    rng = ctx.rng
    doubles = 0
    runs = 0
    for _ in range(40 if ctx.tier == "quick" else 400):
        class FLoop(VLoop):
            def time(self):
                return self.ft
        L = FLoop(0, 1)
        L._clock_resolution = 1e-9
        L.set_exception_handler(lambda l, c: None)
        L.ft = rng.uniform(0, 1e6)
        interval = rng.choice([1, 2, 5, 0.1, 0.3])
        start = L.ft
        seen = []

        def cb():
            L.ft += 1e-9           # minAdvance: one resolution
            seen.append(L.ft)
            return len(seen) < 8
        _call_periodic(L, "f", interval, cb)
        try:
            for _ in range(20):
                pend = [h for h in L._scheduled if not h._cancelled]
                if not pend:
                    break
                L.ft = max(L.ft, min(h.when() for h in pend) + rng.choice([0, 0, -5e-10, interval / 3]))
                L._run_once()
        finally:
            L.close()
        runs += 1
        bs = [int((t - start) // interval) for t in seen]
        if any(b2 <= b1 for b1, b2 in zip(bs, bs[1:])) or (bs and bs[0] < 1):
            doubles += 1
    ctx.extra["float_start_exploration"] = dict(runs=runs, double_or_early_ticks=doubles,
                                                note="exploration only: boundary index computed in floats")


def run(ctx):
    quick = ctx.tier == "quick"
    drv = Driver("c15") if getattr(ctx, "driver_ok", True) else None
    ctx.rule = ("scenarios = 1-4 timers (Klong path: .timer/.timerc/KGFnWrapper with intervals {0,1,2,5} s; direct path: "
                "_call_periodic with tick-sized intervals) x callback scripts (duration, truthy/false return, action none/"
                "cancel self/cancel other/redefine/raise, call_later drift) x start times x loop passes at latency {on the "
                "deadline, within resolution before it, too early, +1/3 interval, +1 1/3 interval, random} x external "
                ".timerc / redefinition / creation between passes x handle retention (th::.timer(...) kept, bare .timer(...) "
                "discarded, th::0 or th::.timer(<second>) later, with gc.collect()) x naming histories (function kept under a "
                "second name, names re-bound between timer creations, timers created on aliases / on re-used names; "
                "every function has a unique id so the tick says which function ran) x callback arity 0-3 (created so, "
                "re-bound to take parameters while the timer runs, and back); distinct = distinct scenarios; non-trivial = at least two ticks")
    ctx.assumptions += [
        "earliness < minAdvance: at least one loop resolution passes between the loop's dispatch decision and the "
        "callback's start (the virtual loop advances the clock on entry to every handle); the frozen-clock regime is "
        "explored separately and reported in coverage.frozen_clock_exploration",
        "all clock values are multiples of 2^-10 s so float arithmetic in the runner is exact; arbitrary float start "
        "times are explored only (coverage.float_start_exploration)",
        "asyncio's _run_once / call_at / call_later / call_soon / Handle.cancel are modelled, not verified; the loop's "
        "choice of which due handle runs next is replayed from the real run and only checked for legality",
    ]
    try:
        cdir = common.CORPUS / "C15"
        cases = list(WITNESSES)
        if cdir.exists():
            cases += [json.loads(p.read_text()) for p in sorted(cdir.glob("*.json"))]
        for c in cases:
            run_case(ctx, c.get("case", c), drv)
        for case in enum_alias_cases():
            run_case(ctx, case, drv)
            ctx.bump("enumerated-naming")
        for case in enum_arity_cases():
            run_case(ctx, case, drv)
            ctx.bump("enumerated-arity")
        n = 500 if quick else 6000
        for i in range(n):
            if i % 10 == 7:      # seeded arity history
                r = ctx.rng
                case = arity_case(r.choice([0, SEC, 2 * SEC, 5 * SEC]), r.choice([0, 0, 1, 2, 3]), r.randrange(4),
                                  r.choice(["none", "before", "after"]), rng=r,
                                  lat=r.choice([0, 0, -1, 341, 1400]), t0=r.choice([0, 1000 * SEC + 1, 123457]))
                run_case(ctx, case, drv)
                continue
            if i % 5 == 4:       # seeded naming history
                r = ctx.rng
                case = alias_case(r.choice([0, SEC, 2 * SEC, 5 * SEC]), r.randrange(2), r.randrange(2),
                                  r.choice(["none", "al0", "cb0", "both"]), r.randrange(2), rng=r,
                                  lat=r.choice([0, 0, -1, 341, 1400]), t0=r.choice([0, 1000 * SEC + 1, 123457]))
                run_case(ctx, case, drv)
                continue
            case = gen_case(ctx.rng, long=(not quick and i % 3 == 0))
            r = run_case(ctx, case, drv)
            if i < 4:
                ctx.sample(dict(case=case, observed=r.obs[:12]))
        if not quick:
            for case in enum_cases():
                run_case(ctx, case, drv)
                ctx.bump("enumerated")
        frozen_exploration(ctx, drv)
        float_exploration(ctx)
    finally:
        if drv:
            drv.close()


def replay(ctx, case):
    drv = Driver("c15") if getattr(ctx, "driver_ok", True) else None
    c = case.get("case", case)
    try:
        r = run_case(ctx, c, drv)
        print("replay: observed:", ";".join(r.obs))
        print("replay: model lines:", r.lines)
    finally:
        if drv:
            drv.close()
    print("replay:", "oracle failures:", ctx.oracle_failures, "mismatches:", ctx.mismatches)
