"""C06 — gradient operators return the mathematical derivative (partial: logic proved, IEEE tied by tolerance).

Per case: an expression tree over the differentiable Klong operations (Klong-level, with
vectors and broadcasting) x a grid point in the smooth domain x a form (`f:>p`, `p∇f`, `∇f`,
`p∂g`, `.jacobian`, `loss:>[w b ..]`, `[w b]∂g`) x a backend (numpy numeric, torch autograd).

  real      the value the interpreter returns
  oracle    an independent pure-Python forward-mode (dual number) evaluation of the SAME
            Klong-level tree, exact over fractions (floats for transcendental functions),
            with a running rounding-error bound used for the IEEE allowance
  model     the tree lowered to scalar components, sent to the Lean driver kd_c06:
              grad / jac   exact rational dual-number oracle (proved = symbolic derivative)
              gradf        the same over Float for transcendental functions
              numgrad / numjac / multigrad   the loops of klongpy/autograd.py run exactly over
                           rationals with eps = 1/10^6 (result and probe sequence)

Checks: property oracle  real vs oracle  (1e-5 relative numpy, 1e-3 torch float32, + IEEE
allowance), numpy vs torch; ties  oracle == Lean dual oracle (exact), real numeric == Lean
central difference (IEEE allowance only), probe sequences of the real numeric_grad /
numeric_jacobian / multi_grad_of_fn with an instrumented Python function == the model's.
"""
import json
import math
import re
from fractions import Fraction as Fr

import numpy as np

from . import common
from .common import Driver, fields

CLAIM = dict(
    text="Lean 4 theorems: forward-mode dual-number evaluation equals the symbolic derivative over any commutative "
         "ring (sum/product/quotient/power/chain rules, +/ */ @ and named functions), and for polynomial expressions that "
         "derivative is the coefficient of t in eval e (p + t*e_v); numeric_grad returns, per "
         "multi-index, the central difference with no other component perturbed and restores the point; "
         "numeric_jacobian's J[i,j] differentiates output i by input j; multi_grad_of_fn perturbs one parameter with "
         "the others at their original values; central differences are exact up to degree 2 and within M*h^2/6 for C^3 "
         "functions. Tied to klongpy by comparing every gradient form on both backends with the proved oracle and by "
         "replaying the real loops' probe sequences against the model.",
    note="partial: IEEE rounding/cancellation in the difference quotient and PyTorch's autograd engine are runtime "
         "behaviour covered by tolerance comparison only (1e-5 relative numpy, 1e-3 torch float32, plus a running "
         "rounding-error allowance); trusted: Lean kernel, harness (generator, lowering, independent dual evaluator), "
         "CPython, numpy, torch",
    technique="Lean 4 proofs of the derivative oracle and of the finite-difference loops; differential comparison against "
              "an exact rational oracle",
    design="7/C06")

MODULES = ["Klong.Props.C06", "Klong.Props.C06Taylor"]
THEOREMS = [
    "Klong.C06.dual_correct",
    "Klong.C06.dual_value",
    "Klong.C06.gradient_is_symbolic",
    "Klong.C06.D_is_linear_coefficient",
    "Klong.C06.gpow_rule",
    "Klong.C06.gpow_dual",
    "Klong.C06.numgrad_is_central_diff",
    "Klong.C06.numgrad_shape",
    "Klong.C06.numgrad_restores",
    "Klong.C06.jacobian_is_central_diff",
    "Klong.C06.multi_grad_separates",
    "Klong.C06.central_diff_exact_quadratic",
    "Klong.C06.numgrad_exact_quadratic",
    "Klong.C06.central_diff_error",
    "Klong.C06.numgrad_truncation",
]

U64 = 2.0 ** -53
U32 = 2.0 ** -24
EPS = Fr(1, 10 ** 6)            # numeric_grad / numeric_jacobian default step on float64
FLOOR = 1e-9                    # absolute floor where the derivative is (near) zero: truncation eps^2/6*|f'''| ~ 1e-12
FLOOR_TIE = 1e-12               # the same for real-vs-exact-central-difference (second-order rounding only)
RAT_FNS = ("sq", "cube", "recip")
TRANS_FNS = ("sin", "cos", "exp", "log", "sqrt", "tanh")
FN_DEFS = "sq::{x*x};cube::{x*x*x};recip::{1%x}"
GRID = [Fr(n, 2) for n in (-5, -3, -1, 1, 2, 3, 4, 5, 6)]
CONSTS = [Fr(1), Fr(2), Fr(3), Fr(1, 2), Fr(3, 2), Fr(1, 4), Fr(-1), Fr(-2), Fr(1, 3), Fr(5, 2)]


# =========================================================================== trees
# Klong-level nodes (JSON friendly lists):
#   ["const", "n/d"]  ["vconst", ["n/d", ..]]  ["par", name]
#   ["add"|"sub"|"mul"|"div", a, b]  ["neg", a]  ["pow", a, k]  ["gpow", a, b]  (a^b, b an expression)
#   ["sum", v]  ["prod", v]  ["idx", v, i]  ["count", v]
#   ["call", fn, a]  ["each", fn, v]  ["eachl", v]   ({x*x}'v)
#   ["join", [a, b, ..]]

ADVERB_DYADS = {"eachR": ":/", "eachL": ":\\", "each2": "'", "overN": "/", "scanN": "\\"}
ADV_OPS = {"+": "+", "-": "-", "*": "*", "%": "%", "^": "^", "L-": "{x-y}", "L%": "{x%y}", "&": "&", "|": "|"}


def fr(s):
    return Fr(s)


def frs(q):
    q = Fr(q)
    return f"{q.numerator}/{q.denominator}"


def lit(q):
    """Klong literal of a rational constant"""
    q = Fr(q)
    if q.denominator == 1:
        s = str(abs(q.numerator))
    elif (q.denominator & (q.denominator - 1)) == 0 or q.denominator in (5, 10, 20):
        s = repr(float(abs(q)))
    else:
        s = f"({abs(q.numerator)}%{q.denominator})"
    return f"(-{s})" if q < 0 else s


def point_lit(v, as_int=False):
    """Klong literal of a point (scalar / vector / matrix of fractions)"""
    if isinstance(v, list):
        return "[" + " ".join(point_lit(x, as_int) for x in v) + "]"
    q = Fr(v)
    if q.denominator == 1 and as_int:
        return str(q.numerator)
    return repr(float(q))


_RENDER_NAMES = {}          # parameter name -> name written in the program (projections: x -> free slot)


def render(n):
    k = n[0]
    if k == "fixed":
        return n[1]             # a fixed slot of a projection: the argument letter (value in the argument list)
    if k == "const":
        return lit(n[1])
    if k == "vconst":
        # floats: numpy refuses integer arrays to negative integer powers (plain evaluation, not C06)
        return "[" + " ".join(point_lit(fr(c)) for c in n[1]) + "]"
    if k == "par":
        return _RENDER_NAMES.get(n[1], n[1])
    if k in ("add", "sub", "mul", "div"):
        op = {"add": "+", "sub": "-", "mul": "*", "div": "%"}[k]
        return f"({render(n[1])}{op}{render(n[2])})"
    if k == "neg":
        return f"(-{render(n[1])})"
    if k == "mrecip":
        return f"(%{render(n[1])})"            # monadic % : reciprocal
    if k == "pow":
        return f"({render(n[1])}^{n[2]})"
    if k == "gpow":
        return f"({render(n[1])}^{render(n[2])})"
    if k in ADVERB_DYADS:
        # a f:/b  a f:\b  a f'b  a f/b  a f\b   (f a verb or a dyadic lambda)
        return f"({render(n[2])}{ADV_OPS[n[1]]}{ADVERB_DYADS[k]}{render(n[3])})"
    if k == "scan":
        return f"({ADV_OPS[n[1]]}\\{render(n[2])})"
    if k == "over":
        return f"({ADV_OPS[n[1]]}/{render(n[2])})"
    if k == "colfold":
        return f"({ADV_OPS[n[1]]}/{render(n[2])})"      # Over on a matrix folds its ROWS: one result per column
    if k == "mcount":
        return f"(#{render(n[1])})"                     # number of rows
    if k == "sum":
        return f"(+/{render(n[1])})"
    if k == "prod":
        return f"(*/{render(n[1])})"
    if k == "idx":
        return f"({render(n[1])}@{n[2]})"
    if k == "count":
        return f"(#{render(n[1])})"
    if k == "call":
        return f"{n[1]}({render(n[2])})"
    if k == "each":
        return f"({n[1]}'{render(n[2])})"
    if k == "eachl":
        return "({x*x}'" + render(n[1]) + ")"
    if k == "join":
        return "(" + ",".join(render(a) for a in n[1]) + ")"
    if k == "flat":
        return f"(,/{render(n[1])})"
    raise ValueError(k)


def tree_size(n):
    if not isinstance(n, list):
        return 0
    if n[0] in ("const", "vconst", "par"):
        return 1
    if n[0] == "join":
        return 1 + sum(tree_size(a) for a in n[1])
    return 1 + sum(tree_size(a) for a in n[1:] if isinstance(a, list))


def uses_trans(n):
    if not isinstance(n, list):
        return False
    if n[0] in ("call", "each") and n[1] in TRANS_FNS:
        return True
    if n[0] == "join":
        return any(uses_trans(a) for a in n[1])
    return any(uses_trans(a) for a in n[1:] if isinstance(a, list))


def ops_in(n, acc=None):
    acc = set() if acc is None else acc
    if isinstance(n, list) and n and isinstance(n[0], str):
        acc.add(n[0] if n[0] not in ("call", "each") else n[0] + ":" + n[1])
        if n[0] in ("const", "vconst", "par"):
            return acc
        kids = n[1] if n[0] == "join" else n[1:]
        for a in kids:
            if isinstance(a, list):
                ops_in(a, acc)
    return acc


class Env:
    """named parameters: name -> scalar fraction | list of fractions | list of lists"""

    def __init__(self, params):
        self.params = params                       # ordered dict name -> value
        self.offset = {}
        o = 0
        for k, v in params.items():
            self.offset[k] = o
            o += len(self.flat(k))
        self.n = o

    def flat(self, name):
        v = self.params[name]
        if not isinstance(v, list):
            return [v]
        if v and isinstance(v[0], list):
            return [x for row in v for x in row]
        return list(v)

    def flat_all(self):
        return [x for k in self.params for x in self.flat(k)]

    def kind(self, name):
        v = self.params[name]
        if not isinstance(v, list):
            return "S"
        if v and isinstance(v[0], list):
            return "M"
        return "V"


# --------------------------------------------------------------------------- generator

def gen_s(rng, env, depth, allow_trans, mat=None):
    """scalar-valued tree"""
    leaves = []
    for name in env.params:
        kd = env.kind(name)
        if kd == "S":
            leaves += [["par", name]] * 3
        elif kd == "V":
            leaves += [["idx", ["par", name], i] for i in range(len(env.params[name]))]
    leaves.append(["const", frs(rng.choice(CONSTS))])
    if depth <= 0:
        return rng.choice(leaves)
    r = rng.random()
    vec_lens = sorted({len(env.params[k]) for k in env.params if env.kind(k) == "V"}) or [rng.choice([2, 3])]
    if r < 0.34:
        op = rng.choice(["add", "sub", "mul", "mul", "div"])
        return [op, gen_s(rng, env, depth - 1, allow_trans), gen_s(rng, env, depth - 1, allow_trans)]
    if r < 0.40:
        return [rng.choice(["neg", "neg", "mrecip"]), gen_s(rng, env, depth - 1, allow_trans)]
    if r < 0.48:
        return ["pow", gen_s(rng, env, depth - 1, allow_trans), rng.choice([2, 2, 3, 3, -1, -2, 1, 0, 4])]
    if r < 0.54:
        # a power whose exponent is an expression (x^x, (x@0)^(x@1), w^p, 2^x, x^1.5)
        return ["gpow", gen_s(rng, env, rng.choice([0, 0, depth - 1]), allow_trans),
                gen_s(rng, env, rng.choice([0, 0, depth - 1]), allow_trans)]
    if r < 0.72:
        n = rng.choice(vec_lens)
        if rng.random() < 0.3:
            # Over with the other verbs: -/ %/ &/ |/ (TorchUfunc.reduce paths), 3-5 members when possible
            return ["over", rng.choice(["-", "%", "-", "%", "&", "|"]), gen_v(rng, env, n, depth - 1, allow_trans)]
        return [rng.choice(["sum", "sum", "prod"]), gen_v(rng, env, n, depth - 1, allow_trans)]
    if r < 0.78:
        fns = RAT_FNS + (TRANS_FNS if allow_trans else ())
        return ["call", rng.choice(fns), gen_s(rng, env, depth - 1, allow_trans)]
    if r < 0.83:
        # adverbs with a scalar result: Over-Neutral; Each-Left / Each-Right / Each-2 of two atoms
        op = rng.choice(["-", "%", "-", "%", "+", "*", "^", "L-", "L%"])
        if rng.random() < 0.5:
            n = rng.choice(vec_lens)
            return ["overN", rng.choice(["+", "-", "*", "%", "L-"]), gen_s(rng, env, 0, allow_trans),
                    gen_v(rng, env, n, depth - 1, allow_trans)]
        return [rng.choice(["eachR", "eachL", "each2"]), op, gen_s(rng, env, depth - 1, allow_trans),
                gen_s(rng, env, depth - 1, allow_trans)]
    if r < 0.88:
        n = rng.choice(vec_lens)
        return ["idx", gen_v(rng, env, n, depth - 1, allow_trans), rng.randrange(n)]
    if r < 0.93:
        n = rng.choice(vec_lens)
        v = gen_v(rng, env, n, depth - 1, allow_trans)
        return ["div", ["sum", v], ["count", v]]
    return rng.choice(leaves)


def gen_v(rng, env, n, depth, allow_trans):
    """vector-valued tree of length n"""
    leaves = [["par", k] for k in env.params if env.kind(k) == "V" and len(env.params[k]) == n] * 3
    leaves.append(["vconst", [frs(rng.choice(CONSTS)) for _ in range(n)]])
    if depth <= 0:
        return rng.choice(leaves)
    r = rng.random()
    if r < 0.40:
        op = rng.choice(["add", "sub", "mul", "mul", "div"])
        shape = rng.choice(["vv", "sv", "vs"])
        a = gen_v(rng, env, n, depth - 1, allow_trans) if shape[0] == "v" else gen_s(rng, env, depth - 1, allow_trans)
        b = gen_v(rng, env, n, depth - 1, allow_trans) if shape[1] == "v" else gen_s(rng, env, depth - 1, allow_trans)
        return [op, a, b]
    if r < 0.46:
        return [rng.choice(["neg", "neg", "mrecip"]), gen_v(rng, env, n, depth - 1, allow_trans)]
    if r < 0.56:
        return ["pow", gen_v(rng, env, n, depth - 1, allow_trans), rng.choice([2, 2, 3, -1, -2, 1, 0])]
    if r < 0.62:
        shape = rng.choice(["vv", "sv", "vs"])
        dd = rng.choice([0, 0, depth - 1])
        a = gen_v(rng, env, n, dd, allow_trans) if shape[0] == "v" else gen_s(rng, env, dd, allow_trans)
        b = gen_v(rng, env, n, dd, allow_trans) if shape[1] == "v" else gen_s(rng, env, dd, allow_trans)
        return ["gpow", a, b]
    if r < 0.70:
        fns = RAT_FNS + (TRANS_FNS if allow_trans else ())
        return [rng.choice(["call", "each"]), rng.choice(fns), gen_v(rng, env, n, depth - 1, allow_trans)]
    if r < 0.78:
        # adverbs with a vector result: a f:/b and a f:\b with one atom operand (the ATOM case of the
        # iterated operand included), a f'b, scans
        op = rng.choice(["-", "%", "-", "%", "+", "*", "^", "L-", "L%"])
        kind = rng.choice(["eachR", "eachR", "eachL", "eachL", "each2", "scan", "scanN"])
        d = rng.choice([0, depth - 1])
        if kind in ("eachR", "eachL"):
            if rng.random() < 0.5:      # whole operand a vector, iterated operand an atom
                return [kind, op, gen_v(rng, env, n, d, allow_trans), gen_s(rng, env, d, allow_trans)]
            return [kind, op, gen_s(rng, env, d, allow_trans), gen_v(rng, env, n, d, allow_trans)]
        if kind == "each2":
            return ["each2", op, gen_v(rng, env, n, d, allow_trans), gen_v(rng, env, n, d, allow_trans)]
        if kind == "scan" or n < 2:
            return ["scan", rng.choice(["+", "*", "-", "%", "&", "|"]), gen_v(rng, env, n, d, allow_trans)]
        return ["scanN", rng.choice(["+", "*", "-", "%"]), gen_s(rng, env, 0, allow_trans),
                gen_v(rng, env, n - 1, d, allow_trans)]
    if r < 0.78:
        return ["eachl", gen_v(rng, env, n, depth - 1, allow_trans)]
    return rng.choice(leaves)


def gen_m(rng, depth, allow_trans, pname="x"):
    """elementwise tree over the matrix parameter (scalars are constants)"""
    if depth <= 0:
        return ["par", pname]
    r = rng.random()
    if r < 0.45:
        op = rng.choice(["add", "sub", "mul", "mul", "div"])
        shape = rng.choice(["mm", "cm", "mc"])
        a = gen_m(rng, depth - 1, allow_trans, pname) if shape[0] == "m" else ["const", frs(rng.choice(CONSTS))]
        b = gen_m(rng, depth - 1, allow_trans, pname) if shape[1] == "m" else ["const", frs(rng.choice(CONSTS))]
        return [op, a, b]
    if r < 0.52:
        return [rng.choice(["neg", "neg", "mrecip"]), gen_m(rng, depth - 1, allow_trans, pname)]
    if r < 0.68:
        return ["pow", gen_m(rng, depth - 1, allow_trans, pname), rng.choice([2, 2, 3, -1, -2, 1, 0])]
    if r < 0.74:
        return ["gpow", gen_m(rng, rng.choice([0, depth - 1]), allow_trans, pname),
                rng.choice([gen_m(rng, 0, allow_trans, pname), ["const", frs(rng.choice(CONSTS))]])]
    if r < 0.84:
        fns = RAT_FNS + (TRANS_FNS if allow_trans else ())
        return ["call", rng.choice(fns), gen_m(rng, depth - 1, allow_trans, pname)]
    return ["par", pname]


def matfold_tree(rng, mat, pname, allow_trans):
    """nested folds over a matrix: an outer +/ of something NON-LINEAR in an inner fold along the rows
    (+/M */M |/M &/M give one value per column) — not symmetric in rows and columns"""
    r_, c_ = len(mat), len(mat[0])
    inner = ["colfold", rng.choice(["+", "+", "*", "|", "&"]), gen_m(rng, rng.choice([0, 0, 1]), allow_trans, pname), r_, c_]
    kind = rng.choice(["square", "mean-square", "weighted", "cube", "recip"])
    if kind == "square":
        v = ["pow", inner, 2]
    elif kind == "mean-square":
        v = ["pow", ["div", inner, ["mcount", ["par", pname], r_]], 2]
    elif kind == "weighted":
        v = ["mul", inner, ["vconst", [frs(rng.choice(CONSTS)) for _ in range(c_)]]]
    elif kind == "cube":
        v = ["call", "cube", inner]
    else:
        v = ["pow", ["add", ["mul", inner, inner], ["const", "1/1"]], -1]
    return [rng.choice(["sum", "sum", "prod"]), v]


def gen_join(rng, env, depth, allow_trans):
    """vector-valued g for the Jacobian forms: an elementwise vector or a join of pieces"""
    vec_lens = sorted({len(env.params[k]) for k in env.params if env.kind(k) == "V"})
    if vec_lens and rng.random() < 0.4:
        return gen_v(rng, env, rng.choice(vec_lens), max(1, depth), allow_trans)
    pieces = []
    for _ in range(rng.choice([2, 2, 3])):
        if vec_lens and rng.random() < 0.3:
            pieces.append(gen_v(rng, env, rng.choice(vec_lens), depth - 1, allow_trans))
        else:
            pieces.append(gen_s(rng, env, depth, allow_trans))
    return ["join", pieces]


# =========================================================================== independent oracle

class NotSmooth(Exception):
    pass


class DN:
    """dual number with running first-order rounding-error bounds (in units of the unit
    roundoff): v value, d derivative part, err bound on the absolute rounding error of a
    floating-point evaluation of v, derr the same for d (forward or reverse mode: the local
    derivative factors are the same)"""
    __slots__ = ("v", "d", "err", "derr")

    def __init__(self, v, d, err, derr):
        self.v, self.d, self.err, self.derr = v, d, err, derr


def _f(x):
    return float(x)


def _a(x):
    return abs(float(x))


def dn_const(c):
    return DN(c, c * 0, _a(c), 0.0)


def dn_add(a, b, sign=1):
    v = a.v + b.v if sign > 0 else a.v - b.v
    d = a.d + b.d if sign > 0 else a.d - b.d
    return DN(v, d, a.err + b.err + _a(v), a.derr + b.derr + _a(d))


def dn_mul(a, b):
    v = a.v * b.v
    d = a.d * b.v + a.v * b.d
    return DN(v, d, a.err * _a(b.v) + _a(a.v) * b.err + _a(v),
              a.derr * _a(b.v) + _a(a.d) * b.err + a.err * _a(b.d) + _a(a.v) * b.derr
              + _a(a.d * b.v) + _a(a.v * b.d) + _a(d))


def dn_recip(b, what):
    if abs(b.v) < Fr(1, 4):
        raise NotSmooth(what)
    v = 1 / b.v
    d = -b.d / (b.v * b.v)
    bv = _a(b.v)
    return DN(v, d, b.err / bv ** 2 + _a(v), b.derr / bv ** 2 + 2 * _a(b.d) * b.err / bv ** 3 + 3 * _a(d))


def dn_div(a, b):
    return dn_mul(a, dn_recip(b, "division by a value near zero"))


def dn_neg(a):
    return DN(-a.v, -a.d, a.err, a.derr)


def dn_pow(a, k):
    if k < 0:
        return dn_recip(dn_pow(a, -k), "negative power of a value near zero")
    if k == 0:
        return DN(a.v * 0 + 1, a.d * 0, 1.0, 0.0)
    v = a.v ** k
    d = k * a.v ** (k - 1) * a.d           # the power rule, written out (the model multiplies repeatedly)
    av = _a(a.v)
    second = k * (k - 1) * av ** (k - 2) if k >= 2 else 0.0
    return DN(v, d, k * av ** (k - 1) * a.err + k * _a(v),
              k * av ** (k - 1) * a.derr + second * _a(a.d) * a.err + (k + 1) * _a(d))


def dn_fn(name, a):
    x = a.v
    if name == "sq":
        f, fp, fpp = x * x, 2 * x, 2
    elif name == "cube":
        f, fp, fpp = x * x * x, 3 * x * x, 6 * x
    elif name == "recip":
        if abs(x) < Fr(1, 4):
            raise NotSmooth("recip near zero")
        f, fp, fpp = 1 / x, -1 / (x * x), 2 / (x * x * x)
    else:
        x = float(x)
        if name == "sin":
            f, fp, fpp = math.sin(x), math.cos(x), -math.sin(x)
        elif name == "cos":
            f, fp, fpp = math.cos(x), -math.sin(x), -math.cos(x)
        elif name == "exp":
            if x > 6:
                raise NotSmooth("exp of a large value")
            f = fp = fpp = math.exp(x)
        elif name == "log":
            if x < 0.25:
                raise NotSmooth("log near or below zero")
            f, fp, fpp = math.log(x), 1 / x, -1 / (x * x)
        elif name == "sqrt":
            if x < 0.25:
                raise NotSmooth("sqrt near or below zero")
            f, fp, fpp = math.sqrt(x), 0.5 / math.sqrt(x), -0.25 / x ** 1.5
        elif name == "tanh":
            t = math.tanh(x)
            f, fp, fpp = t, 1 - t * t, -2 * t * (1 - t * t)
        else:
            raise ValueError(name)
        d = fp * float(a.d)
        # the local derivative is itself computed in floating point; 1 - tanh^2 cancels
        fperr = 2.0 if name == "tanh" else abs(fp)
        return DN(f, d, abs(fp) * a.err + 4 * abs(f) + 1e-300,
                  abs(fp) * a.derr + abs(fpp) * _a(a.d) * a.err + 4 * fperr * _a(a.d) + 6 * abs(d))
    d = fp * a.d
    return DN(f, d, _a(fp) * a.err + 3 * _a(f), _a(fp) * a.derr + _a(fpp) * _a(a.d) * a.err + 4 * _a(d))


def dn_gpow(a, b):
    """u^v with a non-constant exponent, u > 0:  d(u^v) = v*u^(v-1)*du + u^v*ln(u)*dv"""
    u, v = float(a.v), float(b.v)
    if u < 0.25:
        raise NotSmooth("general power of a base near or below zero")
    if abs(v) > 4 or abs(v * math.log(u)) > 6:
        raise NotSmooth("general power too large for the grid")
    val = u ** v
    d = v * u ** (v - 1) * float(a.d) + val * math.log(u) * float(b.d)
    # rounding-error bounds through the composition exp(v * ln u)
    comp = dn_fn("exp", dn_mul(b, dn_fn("log", a)))
    return DN(val, d, comp.err + 4 * abs(val), comp.derr + 6 * abs(d))


def _bc(a, b, fn):
    """Klong atomic dyad broadcasting: scalar with vector, vector with vector of equal length"""
    if isinstance(a, list) and isinstance(b, list):
        if len(a) != len(b):
            raise ValueError("length mismatch")
        return [fn(x, y) for x, y in zip(a, b)]
    if isinstance(a, list):
        return [fn(x, b) for x in a]
    if isinstance(b, list):
        return [fn(a, y) for y in b]
    return fn(a, b)


def _map(a, fn):
    return [fn(x) for x in a] if isinstance(a, list) else fn(a)


def pd_eval(n, env, seed):
    """independent forward-mode evaluation of a Klong-level tree; `seed` = flat index of the
    component carrying the infinitesimal.  Returns DN or list of DN."""
    k = n[0]
    if k == "const":
        return dn_const(fr(n[1]))
    if k == "vconst":
        return [dn_const(fr(c)) for c in n[1]]
    if k == "par":
        off = env.offset[n[1]]
        vals = env.flat(n[1])
        out = [DN(v, Fr(1 if off + i == seed else 0), _a(v), 0.0) for i, v in enumerate(vals)]
        return out[0] if env.kind(n[1]) == "S" else out
    if k == "add":
        return _bc(pd_eval(n[1], env, seed), pd_eval(n[2], env, seed), dn_add)
    if k == "sub":
        return _bc(pd_eval(n[1], env, seed), pd_eval(n[2], env, seed), lambda a, b: dn_add(a, b, -1))
    if k == "mul":
        return _bc(pd_eval(n[1], env, seed), pd_eval(n[2], env, seed), dn_mul)
    if k == "div":
        return _bc(pd_eval(n[1], env, seed), pd_eval(n[2], env, seed), dn_div)
    if k == "neg":
        return _map(pd_eval(n[1], env, seed), dn_neg)
    if k == "mrecip":
        return _map(pd_eval(n[1], env, seed), lambda a: dn_recip(a, "reciprocal of a value near zero"))
    if k == "pow":
        return _map(pd_eval(n[1], env, seed), lambda a: dn_pow(a, n[2]))
    if k == "gpow":
        return _bc(pd_eval(n[1], env, seed), pd_eval(n[2], env, seed), dn_gpow)
    if k == "colfold":
        # f/M over an r x c matrix (seen flattened, row-major): out[j] = M[0][j] f M[1][j] f ...
        vs, r_, c_ = pd_eval(n[2], env, seed), n[3], n[4]
        f = {"+": dn_add, "*": dn_mul}[n[1]]
        out = []
        for j in range(c_):
            acc = vs[j]
            for i in range(1, r_):
                acc = f(acc, vs[i * c_ + j])
            out.append(acc)
        return out
    if k == "mcount":
        return dn_const(Fr(n[2]))
    if k == "over":
        vs = pd_eval(n[2], env, seed)
        f = {"+": dn_add, "-": lambda u, v: dn_add(u, v, -1), "*": dn_mul, "%": dn_div}[n[1]]
        acc = vs[0]
        for x in vs[1:]:
            acc = f(acc, x)
        return acc
    if k in ADVERB_DYADS or k == "scan":
        # the manual's definitions: a f:/b = f(b1;a),..,f(bN;a) (an atom b: f(b;a));  a f:\b = f(a;b1),..;
        # a f'b = f(a1;b1),..;  a f/b = f(..f(f(a;b1);b2)..;bN);  a f\b = a, f(a;b1), f(f(a;b1);b2), ..
        f = {"+": dn_add, "-": lambda u, v: dn_add(u, v, -1), "*": dn_mul, "%": dn_div, "^": dn_gpow,
             "L-": lambda u, v: dn_add(u, v, -1), "L%": dn_div}[n[1]]
        if k == "scan":
            vs = pd_eval(n[2], env, seed)
            out = [vs[0]]
            for x in vs[1:]:
                out.append(f(out[-1], x))
            return out
        a, b = pd_eval(n[2], env, seed), pd_eval(n[3], env, seed)
        if k == "eachR":
            return [_bc(x, a, f) for x in b] if isinstance(b, list) else _bc(b, a, f)
        if k == "eachL":
            return [_bc(a, x, f) for x in b] if isinstance(b, list) else _bc(a, b, f)
        if k == "each2":
            return _bc(a, b, f)
        acc, out = a, [a]
        for x in b:
            acc = f(acc, x)
            out.append(acc)
        return acc if k == "overN" else out
    if k == "sum":
        vs = pd_eval(n[1], env, seed)
        acc = vs[0]
        for x in vs[1:]:
            acc = dn_add(acc, x)
        return acc
    if k == "prod":
        vs = pd_eval(n[1], env, seed)
        acc = vs[0]
        for x in vs[1:]:
            acc = dn_mul(acc, x)
        return acc
    if k == "idx":
        return pd_eval(n[1], env, seed)[n[2]]
    if k == "count":
        return dn_const(Fr(len(pd_eval(n[1], env, seed))))
    if k in ("call", "each"):
        return _map(pd_eval(n[2], env, seed), lambda a: dn_fn(n[1], a))
    if k == "eachl":
        return _map(pd_eval(n[1], env, seed), lambda a: dn_mul(a, a))
    if k == "join":
        out = []
        for a in n[1]:
            r = pd_eval(a, env, seed)
            out += r if isinstance(r, list) else [r]
        return out
    raise ValueError(k)


def resolve_minmax(n, env):
    """`&` (min) and `|` (max) folds / scans are piecewise selections: away from ties (gap >= 1/4, else
    the point is not in the smooth domain) `&/v` IS the member that is smallest at the point.  Rewrites
    over / scan / over-neutral with & | into index / join nodes; everything else is copied."""
    if not isinstance(n, list):
        return n
    if n and n[0] in ("over", "scan", "overN", "scanN") and n[1] in ("&", "|"):
        pick_min = n[1] == "&"
        if n[0] in ("over", "scan"):
            start, vec = None, resolve_minmax(n[2], env)
        else:
            start, vec = resolve_minmax(n[2], env), resolve_minmax(n[3], env)
        vals = pd_eval(vec, env, 0)
        cands = ([(start, pd_eval(start, env, 0).v)] if start is not None else []) + \
            [(["idx", vec, i], d.v) for i, d in enumerate(vals)]
        best, out = None, []
        for node, v in cands:
            if best is None:
                best = (node, v)
            else:
                if abs(v - best[1]) < Fr(1, 4):
                    raise NotSmooth("min / max at (or near) a tie")
                if (v < best[1]) == pick_min:
                    best = (node, v)
            out.append(best[0])
        return best[0] if n[0] in ("over", "overN") else ["join", out]
    if n and n[0] == "colfold" and n[1] in ("&", "|"):
        mat, r_, c_ = resolve_minmax(n[2], env), n[3], n[4]
        vals = pd_eval(mat, env, 0)
        out = []
        for j in range(c_):
            best = None
            for i in range(r_):
                v = vals[i * c_ + j].v
                if best is not None and abs(v - best[1]) < Fr(1, 4):
                    raise NotSmooth("min / max at (or near) a tie")
                if best is None or (v < best[1]) == (n[1] == "&"):
                    best = (i * c_ + j, v)
            out.append(["idx", mat, best[0]])
        return ["join", out]
    if n and n[0] in ("const", "vconst", "par"):
        return n
    if n and n[0] == "join":
        return ["join", [resolve_minmax(a, env) for a in n[1]]]
    return [resolve_minmax(a, env) if isinstance(a, list) else a for a in n]


class Oracle:
    """value(s), Jacobian (rows = outputs, columns = flat inputs) and error bounds"""

    def __init__(self, tree, env):
        tree = resolve_minmax(tree, env)
        self.tree = tree                # what the Lean driver is given (min / max resolved at the point)
        cols = []
        for s in range(env.n):
            r = pd_eval(tree, env, s)
            cols.append(r if isinstance(r, list) else [r])
        self.scalar = not isinstance(pd_eval(tree, env, 0), list)
        m = len(cols[0])
        self.val = [cols[0][i].v for i in range(m)]
        self.jac = [[cols[s][i].d for s in range(env.n)] for i in range(m)]
        self.err = [max(c[i].err for c in cols) for i in range(m)]            # rounding-error bound of output i
        self.derr = [[cols[s][i].derr for s in range(env.n)] for i in range(m)]  # rounding-error bound of d out_i/d in_s
        for v in self.val:
            if abs(_f(v)) > 1e6:
                raise NotSmooth("value too large for the grid")
        self.exact = all(isinstance(x, Fr) for row in self.jac for x in row) and all(isinstance(v, Fr) for v in self.val)


# =========================================================================== lowering to the Lean model

def lower(n, env):
    """scalar component trees for the Lean driver: ('S', t) or ('V', [t..])"""
    k = n[0]
    if k == "const":
        return "S", ("c", fr(n[1]))
    if k == "vconst":
        return "V", [("c", fr(c)) for c in n[1]]
    if k == "par":
        off = env.offset[n[1]]
        cnt = len(env.flat(n[1]))
        if env.kind(n[1]) == "S":
            return "S", ("v", off)
        return "V", [("v", off + i) for i in range(cnt)]
    if k in ("add", "sub", "mul", "div"):
        op = {"add": "+", "sub": "-", "mul": "*", "div": "/"}[k]
        ka, a = lower(n[1], env)
        kb, b = lower(n[2], env)
        if ka == "V" and kb == "V":
            return "V", [(op, x, y) for x, y in zip(a, b)]
        if ka == "V":
            return "V", [(op, x, b) for x in a]
        if kb == "V":
            return "V", [(op, a, y) for y in b]
        return "S", (op, a, b)
    if k == "colfold":
        _, vs = lower(n[2], env)
        r_, c_ = n[3], n[4]
        return "V", [({"+": "S", "*": "P"}[n[1]], [vs[i * c_ + j] for i in range(r_)]) for j in range(c_)]
    if k == "mcount":
        return "S", ("c", Fr(n[2]))
    if k == "over":
        _, vs = lower(n[2], env)
        acc = vs[0]
        for x in vs[1:]:
            acc = ({"+": "+", "-": "-", "*": "*", "%": "/"}[n[1]], acc, x)
        return "S", acc
    if k in ADVERB_DYADS or k == "scan":
        def ap(u, v, o=n[1]):
            if o == "^":
                return ("f", "exp", ("*", v, ("f", "log", u)))
            return ({"+": "+", "-": "-", "*": "*", "%": "/", "L-": "-", "L%": "/"}[o], u, v)

        def bc(ku, u, kv, v):
            if ku == "V" and kv == "V":
                return "V", [ap(p_, q_) for p_, q_ in zip(u, v)]
            if ku == "V":
                return "V", [ap(p_, v) for p_ in u]
            if kv == "V":
                return "V", [ap(u, q_) for q_ in v]
            return "S", ap(u, v)
        if k == "scan":
            _, vs = lower(n[2], env)
            out = [vs[0]]
            for x in vs[1:]:
                out.append(ap(out[-1], x))
            return "V", out
        ka, a = lower(n[2], env)
        kb, b = lower(n[3], env)
        if k == "eachR":
            return bc(kb, b, ka, a)
        if k in ("eachL", "each2"):
            return bc(ka, a, kb, b)
        acc, out = a, [a]
        for x in b:
            acc = ap(acc, x)
            out.append(acc)
        return ("S", acc) if k == "overN" else ("V", out)
    if k == "gpow":
        # Klong.C06.gpow: u^v = exp (v * ln u)
        def gp(x, y):
            return ("f", "exp", ("*", y, ("f", "log", x)))
        ka, a = lower(n[1], env)
        kb, b = lower(n[2], env)
        if ka == "V" and kb == "V":
            return "V", [gp(x, y) for x, y in zip(a, b)]
        if ka == "V":
            return "V", [gp(x, b) for x in a]
        if kb == "V":
            return "V", [gp(a, y) for y in b]
        return "S", gp(a, b)
    if k == "neg":
        ka, a = lower(n[1], env)
        return (ka, [("n", x) for x in a]) if ka == "V" else ("S", ("n", a))
    if k == "mrecip":
        ka, a = lower(n[1], env)
        one = ("c", Fr(1))
        return (ka, [("/", one, x) for x in a]) if ka == "V" else ("S", ("/", one, a))
    if k == "pow":
        e = n[2]

        def pw(x):
            return ("p", e, x) if e >= 0 else ("/", ("c", Fr(1)), ("p", -e, x))
        ka, a = lower(n[1], env)
        return (ka, [pw(x) for x in a]) if ka == "V" else ("S", pw(a))
    if k == "sum":
        return "S", ("S", lower(n[1], env)[1])
    if k == "prod":
        return "S", ("P", lower(n[1], env)[1])
    if k == "idx":
        return "S", ("I", lower(n[1], env)[1], n[2])
    if k == "count":
        return "S", ("c", Fr(len(lower(n[1], env)[1])))
    if k in ("call", "each"):
        ka, a = lower(n[2], env)
        return (ka, [("f", n[1], x) for x in a]) if ka == "V" else ("S", ("f", n[1], a))
    if k == "eachl":
        ka, a = lower(n[1], env)
        return "V", [("*", x, x) for x in a]
    if k == "join":
        out = []
        for a in n[1]:
            ka, t = lower(a, env)
            out += t if ka == "V" else [t]
        return "V", out
    raise ValueError(k)


def toks(t, out=None):
    top = out is None
    out = [] if top else out
    h = t[0]
    if h == "c":
        out.append("c:" + frs(t[1]))
    elif h == "v":
        out.append(f"v:{t[1]}")
    elif h in "+-*/":
        out.append(h)
        toks(t[1], out)
        toks(t[2], out)
    elif h == "n":
        out.append("n")
        toks(t[1], out)
    elif h == "p":
        out.append(f"p:{t[1]}")
        toks(t[2], out)
    elif h in ("S", "P"):
        out.append(f"{h}:{len(t[1])}")
        for x in t[1]:
            toks(x, out)
    elif h == "I":
        out.append(f"I:{len(t[1])}:{t[2]}")
        for x in t[1]:
            toks(x, out)
    elif h == "f":
        out.append(f"f:{t[1]}:0")
        toks(t[2], out)
    else:
        raise ValueError(h)
    return ",".join(out) if top else None


def lowered_rows(tree, env):
    k, t = lower(tree, env)
    return [t] if k == "S" else t


def rats(s):
    return [Fr(x) for x in s.split(",") if x]


def rows(s):
    return [rats(r) for r in s.split(";") if r]


def f2hex(x):
    return np.float64(x).view(np.uint64).item().to_bytes(8, "big").hex()


def hex2f(h):
    return float(np.frombuffer(bytes.fromhex(h), dtype=">f8")[0])


class Model:
    """what the Lean driver says about a case"""

    def __init__(self, drv):
        self.drv = drv

    def jac(self, tree, env):
        es = ";".join(toks(t) for t in lowered_rows(tree, env))
        r = fields(self.drv.ask(f"jac es={es} p={','.join(frs(x) for x in env.flat_all())}"))
        if r["_"] != "ok":
            raise common.Infra(f"kd_c06 jac: {r}")
        return rats(r["val"]), rows(r["jac"])

    def gradsym(self, tree, env):
        (t,) = lowered_rows(tree, env)
        r = fields(self.drv.ask(f"gradsym e={toks(t)} p={','.join(frs(x) for x in env.flat_all())}"))
        return rats(r["grad"])

    def jacf(self, tree, env):
        p = ",".join(f2hex(float(x)) for x in env.flat_all())
        vals, jac = [], []
        for t in lowered_rows(tree, env):
            r = fields(self.drv.ask(f"gradf e={toks(t)} p={p}"))
            if r["_"] != "ok":
                raise common.Infra(f"kd_c06 gradf: {r}")
            vals.append(hex2f(r["val"]))
            jac.append([hex2f(h) for h in r["grad"].split(",")])
        return vals, jac

    def numgrad(self, tree, env):
        (t,) = lowered_rows(tree, env)
        r = fields(self.drv.ask(f"numgrad e={toks(t)} p={','.join(frs(x) for x in env.flat_all())} eps={frs(EPS)}"))
        return rats(r["grad"]), rows(r["probes"]), rats(r["x"])

    def numjac(self, tree, env):
        es = ";".join(toks(t) for t in lowered_rows(tree, env))
        r = fields(self.drv.ask(f"numjac es={es} p={','.join(frs(x) for x in env.flat_all())} eps={frs(EPS)}"))
        return rows(r["jac"]), rows(r["probes"])

    def multigrad(self, tree, env):
        (t,) = lowered_rows(tree, env)
        ps = ";".join(",".join(frs(x) for x in env.flat(k)) for k in env.params)
        r = fields(self.drv.ask(f"multigrad e={toks(t)} params={ps} eps={frs(EPS)}"))
        probes = [rows(p) for p in r["probes"].split("|") if p]
        return rows(r["grads"]), probes


# =========================================================================== the real code

class Real:
    def __init__(self):
        self.k = {}
        self.fallback = False
        self.torch_ok = None

    def interp(self, backend):
        if backend not in self.k:
            from klongpy import KlongInterpreter
            if backend == "torch":
                k = KlongInterpreter(backend="torch", device="cpu")
            else:
                k = KlongInterpreter()
            k(FN_DEFS)
            for f in TRANS_FNS:
                k(f'.bkf("{f}")')
            self.k[backend] = k
        return self.k[backend]

    def drop(self, backend):
        self.k.pop(backend, None)

    def have_torch(self):
        if self.torch_ok is None:
            try:
                import torch  # noqa: F401
                self.interp("torch")
                self.torch_ok = True
            except Exception as e:  # torch missing: the numpy half still runs
                common.log(f"C06: torch backend unavailable ({type(e).__name__}: {e})")
                self.torch_ok = False
        return self.torch_ok

    def run(self, backend, program):
        """evaluate; returns ('ok', value, fallback?) or ('exc', 'Type: msg', fallback?)"""
        import klongpy.autograd as ag
        k = self.interp(backend)
        used = []
        orig = ag.numeric_jacobian

        def spy(*a, **kw):
            used.append(1)
            return orig(*a, **kw)
        ag.numeric_jacobian = spy
        try:
            # `<<py b=w>>` between two statements: bind b to the very object w is bound to, from Python
            parts = re.split(r";<<py (\w+)=(\w+)>>;", program)
            r = k(parts[0])
            for i in range(1, len(parts), 3):
                k[parts[i]] = k[parts[i + 1]]
                r = k(parts[i + 2])
            return "ok", to_np(r), bool(used)
        except Exception as e:
            self.drop(backend)          # do not let a failed case leak state into the next
            return "exc", f"{type(e).__name__}: {str(e)[:160]}", bool(used)
        finally:
            ag.numeric_jacobian = orig


def to_np(r):
    if isinstance(r, list):
        return [to_np(x) for x in r]
    if hasattr(r, "detach"):
        r = r.detach().cpu().numpy()
    return np.asarray(r, dtype=float)


# =========================================================================== cases

INLINE_SAFE = {"const", "vconst", "par", "add", "sub", "mul", "div", "pow", "gpow", "mrecip", "sum", "prod", "idx", "join", "neg",
               "count", "flat"}
SINGLE_FORMS = ["ag", "ag-named", "ag-sym", "nabla", "nabla-sym", "nabla-monad"]
JAC_FORMS = ["partial", "partial-named", "sysjac", "sysjac-named"]


def depends(tree, name):
    """does the parameter occur in the tree (syntactically)"""
    if not isinstance(tree, list):
        return False
    if tree and tree[0] == "par":
        return tree[1] == name
    return any(depends(a, name) for a in tree if isinstance(a, list))


def any_par(tree):
    if not isinstance(tree, list):
        return False
    if tree and tree[0] == "par":
        return True
    return any(any_par(a) for a in tree if isinstance(a, list))


def pars_in(tree, acc=None):
    acc = set() if acc is None else acc
    if isinstance(tree, list):
        if tree and tree[0] == "par":
            acc.add(tree[1])
        else:
            for a in tree:
                if isinstance(a, list):
                    pars_in(a, acc)
    return acc


def untracked_base_power(tree, form=None, env=None):
    """a power b^e whose base carries no gradient while its exponent does: the base holds no
    parameter (2^x); or, in [a b]∂g — one parameter at a time, the others are plain values /
    untracked tensors — the exponent depends on a parameter the base does not ((w@0)^(c@0))"""
    if not isinstance(tree, list):
        return False
    if tree and tree[0] == "gpow":
        pb, pe = pars_in(tree[1]), pars_in(tree[2])
        if pe and not pb:
            return True
        if form == "multi-partial" and (pe - pb):
            return True
    return any(untracked_base_power(a, form, env) for a in tree if isinstance(a, list))


def direct_probe(tree):
    """trees made of the point itself, + - *, +/ */ and imported backend math functions applied
    DIRECTLY to the point (sin(x), +/exp(x), sqrt(x)*log(x)): on the torch backend p∇f hands these
    functions the float64 probe array as it is, so numeric differentiation is float64-accurate —
    the float32 finding does not cover this class"""
    def ok(n):
        k = n[0]
        if k == "par":
            return True
        if k in ("add", "sub", "mul"):
            return ok(n[1]) and ok(n[2])
        if k in ("sum", "prod"):
            return ok(n[1])
        if k == "call" and n[1] in TRANS_FNS:
            return n[2][0] == "par"
        return False
    return isinstance(tree, list) and ok(tree) and any(o.startswith("call:") for o in ops_in(tree))


def gen_probe(rng, depth, vector):
    """the direct-probe class, scalar-valued (a vector point is reduced with +/ or */)"""
    def g(d):
        if d <= 0 or rng.random() < 0.35:
            return rng.choice([["call", rng.choice(TRANS_FNS), ["par", "x"]]] * 3 + [["par", "x"]])
        return [rng.choice(["add", "sub", "mul", "mul"]), g(d - 1), g(d - 1)]
    t = g(depth)
    if not any(o.startswith("call:") for o in ops_in(t)):
        t = ["mul", t, ["call", rng.choice(TRANS_FNS), ["par", "x"]]]
    return [rng.choice(["sum", "sum", "prod"]), t] if vector else t


def transposed_lit(v, as_int=False):
    """a matrix point written as the Klong Transpose of its transpose: `(+[[..] [..]])` — the same
    value, but a column-major (not C-contiguous) numpy array / a transposed tensor view"""
    t = [list(col) for col in zip(*v)]
    return f"(+{point_lit(t, as_int)})"


def bindings(env, as_int, var):
    """`name::value` statements of the named parameters.  Variants: matrices as `+A` (transposed
    layout); `alias` {b: w}: b bound to the very object of w — `b::w`, or from Python"""
    var = var or {}
    alias = var.get("alias") or {}
    out, py = [], []
    for k in env.params:
        if k in alias:
            if var.get("alias_py"):
                py.append(f"<<py {k}={alias[k]}>>")
            else:
                out.append(f"{k}::{alias[k]}")
        elif env.kind(k) == "M" and var.get("transposed"):
            out.append(f"{k}::{transposed_lit(env.params[k], bool(as_int))}")
        else:
            out.append(f"{k}::{bind_lit(env.params[k], as_int)}")
    return ";".join(out + py)


def value_program(body, env, var=None):
    """plain evaluation of the function at the point (precondition of every gradient form)"""
    names = list(env.params)
    if (var or {}).get("proj"):
        return projection_program("value", body, env, False, var["tree"], var)
    if names == ["x"]:
        return f"{bindings(env, False, var)};f::{{{body}}};f(x)"
    return f"{bindings(env, False, var)};loss::{{{body}}};loss()"


def bind_lit(v, as_int):
    """literal a named parameter is bound to: floats, or (as_int) integer atoms / integer vectors
    for whole values — `w::2` — or ("sum") a computed numpy integer — `w::+/[1 1]`"""
    if not as_int:
        return point_lit(v)
    if as_int == "sum" and not isinstance(v, list) and Fr(v).denominator == 1:
        n = Fr(v).numerator
        return f"+/[1 {n - 1}]"
    return point_lit(v, True)


UNRELATED_GLOBALS = "x::-7.5;y::10.0;z::4.0;"


def projection_program(form, body, env, as_int, tree, var):
    """every form with a projection as the function operand; the point never goes by the names
    x y z (those are the projection's own argument names — and, variant `globals`, unrelated
    session globals of the same names)"""
    fun = function_text(body, tree, var)
    p = point_lit(env.params["x"], as_int)
    pre = UNRELATED_GLOBALS if var.get("globals") else ""
    if env.kind("x") == "S" and env.params["x"] < 0 and form in ("nabla", "nabla-inline"):
        form = "nabla-sym"          # `-1.5∇g` parses as -(1.5∇g)
    pp = f"({p})" if env.kind("x") == "S" and env.params["x"] < 0 else p
    return pre + {
        "value": f"pt::{p};f::{fun};f(pt)",
        "ag": f"{fun}:>{p}",
        "ag-named": f"f::{fun};f:>{p}",
        "ag-sym": f"pt::{p};f::{fun};f:>pt",
        "nabla": f"g::{fun};{p}∇g",
        "nabla-inline": f"{p}∇{fun}",
        "nabla-sym": f"pt::{p};g::{fun};pt∇g",
        "nabla-monad": f"g::{fun};gf::∇g;gf({p})",
        "partial": f"{pp}∂{fun}",
        "partial-named": f"g::{fun};{pp}∂g",
        "sysjac": f".jacobian({fun};{p})",
        "sysjac-named": f"g::{fun};.jacobian(g;{p})",
    }[form]


def program(form, body, env, as_int=False, tree=None, var=None):
    names = list(env.params)
    if (var or {}).get("proj"):
        return projection_program(form, body, env, as_int, tree, var)
    if form in SINGLE_FORMS + JAC_FORMS:
        p = point_lit(env.params["x"], as_int)
        if env.kind("x") == "M" and (var or {}).get("transposed"):
            p = transposed_lit(env.params["x"], as_int)
            if form == "nabla":
                form = "nabla-sym"          # ∇ does not evaluate its left operand: the point goes by name
        if env.kind("x") == "S" and env.params["x"] < 0:
            # `-1.5∇f` parses as -(1.5∇f) and ∇ does not evaluate its left operand: a negative
            # scalar point cannot be written there; ∂ evaluates it, so parentheses do
            if form == "nabla":
                form = "nabla-sym"
            elif form in ("partial", "partial-named"):
                p = f"({p})"
        return {
            "ag": f"{{{body}}}:>{p}",
            "ag-named": f"f::{{{body}}};f:>{p}",
            "ag-sym": f"pt::{p};f::{{{body}}};f:>pt",
            "nabla": f"{p}∇{{{body}}}",
            "nabla-sym": f"x::{p};f::{{{body}}};x∇f",
            "nabla-monad": f"gf::∇{{{body}}};gf({p})",
            "partial": f"{p}∂{{{body}}}",
            "partial-named": f"g::{{{body}}};{p}∂g",
            "sysjac": f".jacobian({{{body}}};{p})",
            "sysjac-named": f"g::{{{body}}};.jacobian(g;{p})",
        }[form]
    binds = bindings(env, as_int, var)
    if form == "multi-ag":
        return f"{binds};loss::{{{body}}};loss:>[{' '.join(names)}]"
    if form == "multi-partial":
        return f"{binds};g::{{{body}}};[{' '.join(names)}]∂g"
    raise ValueError(form)


def numeric_form(form, backend):
    """does this form differentiate numerically on this backend (else torch autograd)"""
    if form in ("nabla", "nabla-sym", "nabla-inline"):
        return True
    return backend == "numpy"


def shape_of(v):
    if not isinstance(v, list):
        return ()
    if v and isinstance(v[0], list):
        return (len(v), len(v[0]))
    return (len(v),)


def case_json(c):
    return json.loads(json.dumps(c, default=lambda o: frs(o) if isinstance(o, Fr) else str(o)))


def params_from_json(p):
    def cv(v):
        return [cv(x) for x in v] if isinstance(v, list) else Fr(v)
    return {k: cv(v) for k, v in p.items()}


def gen_point(rng, kind):
    if kind == "S":
        return rng.choice(GRID)
    if kind == "M":
        r, c = rng.choice([(2, 2), (2, 3), (3, 2)])
        return [[rng.choice(GRID) for _ in range(c)] for _ in range(r)]
    return [rng.choice(GRID) for _ in range(rng.choice([1, 2, 3, 3, 4, 4, 5]))]


def gen_case(rng, quick):
    """one (tree, parameters, family) triple inside the smooth domain"""
    for _ in range(40):
        fam = rng.choice(["scalar", "vector", "vector", "matrix", "jac", "jac", "multi", "multi", "multi-jac", "probe",
                          "proj", "proj-jac"])
        var = {}
        allow_trans = rng.random() < 0.3
        depth = rng.choice([1, 2, 2, 3] if quick else [1, 2, 2, 3, 3])
        if fam in ("proj", "proj-jac"):
            # a projection (a dyad / triad with all but one argument fixed) as the function operand
            params = {"x": gen_point(rng, rng.choice(["S", "V", "V"]) if fam == "proj" else "V")}
            env = Env(params)
            tree = gen_s(rng, env, depth, allow_trans) if fam == "proj" else gen_join(rng, env, depth, allow_trans)
            if not depends(tree, "x"):
                continue
            tree, pj = make_projection(rng, tree)
            var = dict(proj=pj, globals=rng.random() < 0.5)
        elif fam == "probe":
            vector = rng.random() < 0.6
            params = {"x": gen_point(rng, "V" if vector else "S")}
            env = Env(params)
            tree = gen_probe(rng, rng.choice([0, 1, 1, 2]), vector)
        elif fam == "scalar":
            params = {"x": gen_point(rng, "S")}
            env = Env(params)
            tree = gen_s(rng, env, depth, allow_trans)
        elif fam == "vector":
            params = {"x": gen_point(rng, "V")}
            env = Env(params)
            tree = gen_s(rng, env, depth, allow_trans)
        elif fam == "matrix":
            params = {"x": gen_point(rng, "M")}
            if rng.random() < 0.5:
                tree = ["sum", ["flat", gen_m(rng, max(1, depth), allow_trans)]]
            else:
                tree = matfold_tree(rng, params["x"], "x", allow_trans)
            env = Env(params)
        elif fam == "jac":
            params = {"x": gen_point(rng, rng.choice(["V", "V", "S"]))}
            env = Env(params)
            tree = gen_join(rng, env, depth, allow_trans) if env.kind("x") == "V" else \
                ["join", [gen_s(rng, env, depth, allow_trans) for _ in range(rng.choice([1, 2, 3]))]]
        else:
            names = rng.choice([["w", "b"], ["w", "b", "c"], ["a", "b"], ["w", "c"], ["w"], ["b"]] +
                               ([["M", "b"], ["M", "w"], ["M"]] if fam == "multi" else []))
            params = {}
            for nm in names:
                params[nm] = gen_point(rng, "S" if nm in ("a", "b") else ("M" if nm == "M" else "V"))
            vecs = [nm for nm in names if nm in ("w", "c")]
            if len(vecs) == 2 and rng.random() < 0.3:
                # two names bound to the very same array object (tied weights: c::w)
                params[vecs[1]] = list(params[vecs[0]])
                var = dict(alias={vecs[1]: vecs[0]}, alias_py=rng.random() < 0.4)
            env = Env(params)
            if "M" in names:
                # a matrix parameter (half of the time with the transposed, column-major layout)
                var = dict(transposed=rng.random() < 0.6)
                inner = ["sum", ["flat", gen_m(rng, max(1, depth - 1), allow_trans, "M")]] if rng.random() < 0.5 \
                    else matfold_tree(rng, params["M"], "M", allow_trans)
                tree = [rng.choice(["add", "mul"]), inner, gen_s(rng, env, depth - 1, allow_trans)]
            else:
                tree = gen_s(rng, env, depth, allow_trans) if fam == "multi" else gen_join(rng, env, depth, allow_trans)
        if tree_size(tree) > (14 if quick else 22):
            continue
        if any(not depends(tree, nm) for nm in params) and rng.random() > 0.04:
            continue            # mostly functions of all their parameters; a few constant ones
        try:
            Oracle(strip_flat(tree), oracle_env(env))
        except (NotSmooth, ZeroDivisionError, OverflowError, ValueError):
            continue
        if fam == "matrix":
            var = dict(transposed=rng.random() < 0.5)
        return fam, tree, params, var
    return None


def strip_flat(tree):
    """`["flat", v]` (Klong `,/` over a matrix) is the identity on the flattened parameter"""
    if not isinstance(tree, list):
        return tree
    if tree and tree[0] == "flat":
        return strip_flat(tree[1])
    if tree and tree[0] == "fixed":
        return strip_flat(tree[2])          # a fixed slot of a projection is its value
    return [strip_flat(a) for a in tree]


def oracle_env(env):
    """matrix parameters are seen flattened (row-major) by the oracle and the model"""
    return Env({k: (env.flat(k) if env.kind(k) == "M" else v) for k, v in env.params.items()})


def render_case(tree, var=None):
    proj = (var or {}).get("proj")
    _RENDER_NAMES.clear()
    if proj:
        _RENDER_NAMES["x"] = proj["free"]
    try:
        if tree[0] == "sum" and isinstance(tree[1], list) and tree[1][0] == "flat":
            return f"(+/,/{render(tree[1][1])})"
        return render(tree)
    finally:
        _RENDER_NAMES.clear()


def fixed_nodes(tree, acc=None):
    acc = {} if acc is None else acc
    if isinstance(tree, list):
        if tree and tree[0] == "fixed":
            acc[tree[1]] = tree[2]
        else:
            for a in tree:
                if isinstance(a, list):
                    fixed_nodes(a, acc)
    return acc


def function_text(body, tree, var):
    """the function operand: `{body}`, or for a projection `{body}(a;;c)` — the fixed slots filled,
    the free one left open"""
    proj = (var or {}).get("proj")
    if not proj:
        return "{" + body + "}"
    fx = fixed_nodes(tree)
    args = ";".join("" if s_ == proj["free"] else render(fx[s_]) for s_ in "xyz"[:proj["arity"]])
    return "{" + body + "}(" + args + ")"


def make_projection(rng, tree):
    """turn constant leaves of the tree into fixed slots of a dyad / triad; returns (tree, proj)"""
    arity = rng.choice([2, 2, 3])
    tree = json.loads(json.dumps(tree))     # no shared sub-lists (the mean pattern uses one twice)
    paths = []

    def walk(n, path):
        if isinstance(n, list) and n and n[0] in ("const", "vconst"):
            paths.append(path)
        elif isinstance(n, list):
            kids = list(enumerate(n[1])) if n and n[0] == "join" else list(enumerate(n))
            for i, a in kids:
                if isinstance(a, list):
                    walk(a, path + ([1, i] if n[0] == "join" else [i]))
    walk(tree, [])
    while len(paths) < arity - 1:
        tree = [rng.choice(["add", "mul"]), tree, ["const", frs(rng.choice(CONSTS))]]
        paths = []
        walk(tree, [])
    free = rng.choice("xyz"[:arity])
    slots = [c for c in "xyz"[:arity] if c != free]
    for slot, path in zip(slots, rng.sample(paths, len(slots))):
        node = tree
        for i in path[:-1]:
            node = node[i]
        node[path[-1]] = ["fixed", slot, node[path[-1]]]
    return tree, dict(free=free, arity=arity)



# =========================================================================== comparison

def flat_np(v):
    return np.asarray(v, dtype=float).reshape(-1)


def allowances(orc, backend, numeric, nops):
    """per output i, per input j: tolerance on |real - exact|"""
    m, n = len(orc.jac), len(orc.jac[0])
    J = np.array([[float(x) for x in row] for row in orc.jac], dtype=float).reshape(m, n)
    DE = np.array(orc.derr, dtype=float).reshape(m, n)
    tol = np.zeros((m, n))
    for i in range(m):
        scale = float(np.max(np.abs(J[i]))) if n else 0.0
        if numeric:
            # 1e-5 relative (the property) + rounding of f(x+h) - f(x-h): 2*err*u / (2*eps), x4 safety
            round_off = 4 * orc.err[i] * U64 / float(EPS)
            # + truncation eps^2/6*|f'''| where the gradient row is (near) zero: f''' is not tracked, the
            #   running magnitude bound err stands in for it (10*eps^2*err)
            tol[i, :] = 1e-5 * scale + round_off + FLOOR
        else:
            # float32 autograd: 1e-3 relative (the property) + rounding of the backward products
            tol[i, :] = 1e-3 * scale + 8 * U32 * DE[i] + FLOOR
    return J, tol


def run_case(ctx, model, real, fam, tree, params, **kw):
    """one case; whatever a (changed) klongpy makes the harness choke on is a failure of the case with
    the case as replay, never an infrastructure error"""
    try:
        return _run_case(ctx, model, real, fam, tree, params, **kw)
    except common.Infra:
        raise
    except Exception as e:                                   # noqa: BLE001
        import traceback
        var = {k_: v_ for k_, v_ in (kw.get("var") or {}).items() if k_ != "tree"}
        ctx.oracle_fail(f"harness:{type(e).__name__}", dict(family=fam, tree=tree, params=case_json(params),
                                                           as_int=kw.get("as_int"), var=var),
                        "a comparable result", traceback.format_exc()[-600:],
                        "the harness could not evaluate / decode this case")


def py_central_difference(tree, env, m):
    """(f(x + eps e_j) - f(x - eps e_j)) / (2 eps) by the independent evaluator, rows = outputs"""
    names = list(env.params)
    out = np.zeros((m, env.n))
    for j in range(env.n):
        vals = []
        for sign in (1, -1):
            params, o = {}, 0
            for k_ in names:
                fl = env.flat(k_)
                new = [v + sign * EPS if o + i == j else v for i, v in enumerate(fl)]
                o += len(fl)
                params[k_] = new[0] if env.kind(k_) == "S" else new
            r = pd_eval(tree, Env(params), -1)
            vals.append([float(d.v) for d in (r if isinstance(r, list) else [r])])
        out[:, j] = (np.array(vals[0]) - np.array(vals[1])) / (2 * float(EPS))
    return out


def judge(got, orc, backend, numeric, nops):
    """'ok' | 'float32-evaluation' | 'wrong-value', with the exact table, tolerance and first bad index"""
    m, n = len(orc.jac), len(orc.jac[0])
    J, tol = allowances(orc, backend, numeric, nops)
    finite = bool(np.all(np.isfinite(got)))
    bad = np.abs(got - J) > tol
    if finite and not bad.any():
        return "ok", J, tol, None
    i, j = np.argwhere(bad | ~np.isfinite(got))[0]
    kind = "wrong-value"
    if backend == "torch" and numeric and finite:
        # numeric differentiation on the torch backend: the step is 1e-6 (float64 is "supported")
        # but the function is evaluated through float32 tensors.  Is the deviation within what
        # float32 rounding of f explains?
        # (first order in the rounding of f, plus the quantisation of x +- eps itself where the
        #  first-order term vanishes)
        noise = np.array([[4 * orc.err[a] * U32 / float(EPS) + 32 * U32 * max(1.0, orc.err[a])] * n
                          for a in range(m)])
        if not (np.abs(got - J) > tol + noise).any():
            kind = "float32-evaluation"
    return kind, J, tol, (int(i), int(j))


def _run_case(ctx, model, real, fam, tree, params, forms=None, backends=None, quick=True, as_int=None, var=None):
    env = Env(params)
    oenv = oracle_env(env)
    otree = strip_flat(tree)
    body = render_case(tree, var)
    proj = (var or {}).get("proj")
    if proj:
        var = dict(var, tree=tree)
    try:
        orc = Oracle(otree, oenv)
    except (NotSmooth, ZeroDivisionError, OverflowError, ValueError) as e:
        ctx.bump("skipped:not-smooth")
        return
    nops = tree_size(tree)
    m, n = len(orc.jac), oenv.n
    base = dict(family=fam, tree=tree, params=case_json(params), body=body)

    # ---- tie: the two oracles (independent Python dual numbers vs the proved Lean evaluator)
    cd_rows = None
    trunc_ok = np.ones((m, n), dtype=bool)
    if model is not None:
        if orc.exact:
            mv, mj = model.jac(orc.tree, oenv)
            if mv != orc.val or mj != orc.jac:
                ctx.mismatch("Klong.C06.gradient (dual numbers) vs independent forward-mode evaluation",
                             base, dict(val=[frs(x) for x in mv], jac=[[frs(x) for x in r] for r in mj]),
                             dict(val=[frs(x) for x in orc.val], jac=[[frs(x) for x in r] for r in orc.jac]))
                return
            if orc.scalar and ctx.rng.random() < 0.25:
                gs = model.gradsym(orc.tree, oenv)
                ctx.bump("tie:symbolic-D-evaluated")
                if gs != orc.jac[0]:
                    ctx.mismatch("Klong.C06.D (symbolic derivative) vs dual numbers", base,
                                 [frs(x) for x in gs], [frs(x) for x in orc.jac[0]])
                    return
            # the exact central difference of the model's loop: quantifies truncation
            cd_rows, _ = model.numjac(orc.tree, oenv)
            ctx.bump("tie:oracle-exact")
        else:
            mv, mj = model.jacf(orc.tree, oenv)
            a = np.array(mj, dtype=float).reshape(m, n)
            b = np.array([[float(x) for x in r] for r in orc.jac], dtype=float).reshape(m, n)
            de = np.array(orc.derr, dtype=float).reshape(m, n)
            if not np.all(np.abs(a - b) <= 1e-9 * np.abs(b) + 64 * U64 * de + 1e-300):
                ctx.mismatch("Klong.C06.gradient over Float vs independent forward-mode evaluation",
                             base, a.tolist(), b.tolist())
                return
            ctx.bump("tie:oracle-float")
    if cd_rows is None:
        # float-mode tree (transcendental functions / general powers): no exact central difference from the
        # model; the independent evaluator's own central difference (float64 around exact shifted points)
        # serves the same purpose — is the point inside the domain where central differences converge?
        try:
            pc = py_central_difference(orc.tree, oenv, m)
            J = np.array([[float(x) for x in r] for r in orc.jac], dtype=float).reshape(m, n)
            for i in range(m):
                sc = float(np.max(np.abs(J[i]))) if n else 0.0
                trunc_ok[i, :] = np.abs(pc[i] - J[i]) <= 2e-6 * sc + 1e-10 + 8 * orc.err[i] * U64 / float(EPS)
        except (NotSmooth, ZeroDivisionError, OverflowError, ValueError):
            trunc_ok[:] = False
        if not trunc_ok.all():
            ctx.bump("skipped:near-singular(truncation)")
            return
    if cd_rows is not None:
        J = np.array([[float(x) for x in r] for r in orc.jac], dtype=float).reshape(m, n)
        C = np.array([[float(x) for x in r] for r in cd_rows], dtype=float).reshape(m, n)
        for i in range(m):
            sc = float(np.max(np.abs(J[i]))) if n else 0.0
            trunc_ok[i, :] = np.abs(C[i] - J[i]) <= 2e-6 * sc + 1e-10
        if not trunc_ok.all():
            # the *exact* central difference is already off by more than a fifth of the property's
            # tolerance: |f'''| h^2 is not << |f'| here, the point is outside the domain the property
            # (and central_diff_error) speak about
            ctx.bump("skipped:near-singular(truncation)")
            return

    if forms is None:
        if fam == "proj":
            forms = ["nabla", "nabla-sym"] + ctx.rng.sample(["nabla-inline", "ag", "ag-named", "ag-sym", "nabla-monad"],
                                                            2 if quick else 5)
        elif fam == "proj-jac":
            forms = ctx.rng.sample(JAC_FORMS, 2 if quick else 4)
        elif fam == "probe":
            forms = ["nabla", "nabla-sym"] + ctx.rng.sample(["ag", "ag-named", "ag-sym", "nabla-monad"], 1 if quick else 4)
        elif fam in ("scalar", "vector"):
            forms = ctx.rng.sample(SINGLE_FORMS, 3 if quick else 6)
        elif fam == "matrix":
            forms = ctx.rng.sample(["ag", "ag-sym", "nabla", "nabla-sym", "nabla-monad"], 2 if quick else 5)
        elif fam == "jac":
            forms = ctx.rng.sample(JAC_FORMS, 2 if quick else 4)
        elif fam == "multi":
            forms = ["multi-ag"]
        else:
            forms = ["multi-partial"]
    if backends is None:
        backends = ["numpy"] + (["torch"] if real.have_torch() else [])

    if proj:
        for backend in backends:
            real.drop(backend)          # a session in which y and z are not defined (unless `globals`)
    # ---- precondition: the function itself evaluates to its value on this backend (else the
    #      case says nothing about differentiation: plain evaluation is C01 / C08)
    usable = []
    for backend in backends:
        status, val, _ = real.run(backend, value_program(body, env, var))
        okv = False
        if status == "ok":
            try:
                got = flat_np(val)
                want = np.array([float(v) for v in orc.val])
                rt = 1e-9 if backend == "numpy" else 1e-4
                okv = got.shape == want.shape and bool(np.all(
                    np.abs(got - want) <= rt * np.maximum(np.abs(want), 1.0) + 8 * U32 * np.array(orc.err) * (backend != "numpy")))
            except Exception:
                okv = False
        if okv:
            usable.append(backend)
        elif status == "ok":
            # the function returns another value on this backend: the gradient forms are still judged
            # (a fold / scan kernel that is wrong shows in both), the value itself is C01 / C08
            usable.append(backend)
            ctx.bump(f"function-value-differs-but-evaluates({backend})")
        else:
            ctx.bump(f"skipped:function-value-differs({backend})")
            ctx.extra.setdefault("function_value_differs", [])
            if len(ctx.extra["function_value_differs"]) < 12:
                ctx.extra["function_value_differs"].append(
                    dict(backend=backend, program=value_program(body, env, var), got=repr(val)[:120],
                         want=[float(v) for v in orc.val]))
    backends = usable
    unused = [nm for nm in env.params if not depends(tree, nm)]

    if as_int is None:
        r = ctx.rng.random()
        if fam in ("multi", "multi-jac"):
            # integer atoms (w::2) and computed numpy integers (w::+/[1 1]) as parameter bindings
            as_int = "lit" if r < 0.3 else ("sum" if r < 0.4 else False)
        else:
            as_int = r < 0.2
    base["as_int"] = as_int
    base["var"] = {k_: v_ for k_, v_ in (var or {}).items() if k_ != "tree"}
    results = {}
    for form in forms:
        prog = program(form, body, env, as_int, tree, var)
        for backend in backends:
            case = dict(base, form=form, backend=backend, program=prog)
            ctx.count((prog, backend), nontrivial=nops >= 3)
            numeric = numeric_form(form, backend)
            status, val, fell_back = real.run(backend, prog)
            fclass = "jacobian" if form in JAC_FORMS + ["multi-partial"] else \
                ("multi" if form == "multi-ag" else form.split("-")[0])
            site = f"{backend}:{fclass}"
            if fell_back and backend == "torch":
                numeric = True
                site = "torch:jacobian:numeric-fallback"
                ctx.bump("torch-jacobian-fell-back-to-numeric")
            if status == "exc" and backend == "torch" and not numeric and "mrecip" in ops_in(tree) \
                    and val.startswith("RuntimeError") and "Can't call numpy() on Tensor that requires grad" in val:
                # eval_monad_reciprocal converts its operand with numpy's asarray: a tracked tensor cannot pass
                ctx.bump("raises:torch:autograd:monadic-reciprocal")
                ctx.oracle_fail("torch:autograd:monadic-reciprocal", case, "the derivative", val,
                                "monadic % (reciprocal) of the differentiated variable raises under torch autograd; "
                                "dyadic 1%x, numeric ∇ and the numpy backend are right")
                continue
            if status == "exc" and backend == "torch" and not numeric and "Can't call numpy() on Tensor that requires grad" in val \
                    and ops_in(tree) & {"each2", "scan", "scanN"}:
                # Each-2 and the scans collect their results with the module-level numpy `asarray` /
                # a mixed list: tracked tensors cannot pass through it
                ctx.bump("raises:torch:autograd:adverb-collects-through-numpy")
                ctx.oracle_fail("torch:autograd:adverb-collects-through-numpy", case, "the derivative", val,
                                "a f'b / f\\a / a f\\b over tracked tensors raise under torch autograd")
                continue
            if form in ("sysjac", "sysjac-named"):
                # `.jacobian(f;p)` receives f through the interpreter's evaluation of SYSTEM-function
                # arguments (`call`), which invokes / partially applies function values whose body holds
                # monads, adverbs or calls (`.p({-x})` fails the same way).  When `p∂f` — the same
                # jacobian_of_fn on the same f — is right and `.jacobian` is not, the failure is that.
                g0 = assemble(val, form, env, m, n) if status == "ok" else None
                if g0 is None or judge(g0, orc, backend, numeric, nops)[0] != "ok":
                    st2, v2, fb2 = real.run(backend, program("partial-named", body, env, as_int, tree, var))
                    g2 = assemble(v2, "partial-named", env, m, n) if st2 == "ok" else None
                    if g2 is not None and judge(g2, orc, backend, numeric or fb2, nops)[0] != "wrong-value":
                        ctx.bump("deviation:sysjac:function-argument-evaluation")
                        ctx.oracle_fail("sysjac:function-argument-evaluation", case,
                                        [[float(q) for q in r] for r in orc.jac],
                                        val if status == "exc" else g0.tolist() if g0 is not None else repr(val)[:200],
                                        ".jacobian(f;p) differs from the exact Jacobian although p∂f returns it")
                        continue
                    # p∂f fails as well: the failure is not about how `.jacobian` receives f — judge (and
                    # classify) what p∂f did, reported for this case
                    case = dict(case, program=program("partial-named", body, env, as_int, tree, var),
                                instead_of=prog)
                    status, val, fell_back = st2, v2, fb2
                    if fell_back and backend == "torch":
                        numeric, site = True, "torch:jacobian:numeric-fallback"
            if proj and form not in ("nabla", "nabla-sym", "nabla-inline"):
                # every form except dyadic ∇ reaches the function through autograd._invoke_fn, which unwraps
                # a KGFn to its body and so drops a projection's fixed arguments
                g0 = assemble(val, form, env, m, n) if status == "ok" else None
                if g0 is None or judge(g0, orc, backend, numeric or fell_back, nops)[0] == "wrong-value":
                    ctx.bump("deviation:projection:fixed-arguments-dropped")
                    ctx.oracle_fail("projection:fixed-arguments-dropped", case, [[float(q) for q in r] for r in orc.jac],
                                    val if status == "exc" else g0.tolist() if g0 is not None else repr(val)[:200],
                                    "a projection as the function operand of :> / ∇f / ∂ / .jacobian loses its fixed "
                                    "arguments (they resolve to same-named globals or stay bare symbols); p∇f is right")
                    continue
            if status == "exc" and backend == "torch" and unused and not numeric and fclass != "jacobian" \
                    and ("not have been used in the graph" in str(val) or "AutogradChainBroken" in str(val)
                         or not untracked_base_power(tree, form, env)):
                # autograd: the output is not connected to (one of) the differentiated inputs
                ctx.bump("raises:torch:autograd:parameter-not-used")
                ctx.oracle_fail("torch:autograd:parameter-not-used", case, "zero gradient for the unused parameter",
                                val, f"the function does not depend on {unused}: its derivative there is 0 "
                                     "(numpy returns 0), torch autograd raises instead")
                continue
            if backend == "torch" and not numeric and untracked_base_power(tree, form, env):
                # Power looks only at the BASE for gradient: a plain-number base takes the numpy branch of
                # torch power() (tracked exponent unwrapped / refused), and an untracked tensor base lets
                # _e_dyad_power coerce a whole result to integers, detaching the exponent: the a^b*ln(a)
                # term is lost or the call raises
                g0 = assemble(val, form, env, m, n) if status == "ok" else None
                if g0 is None or judge(g0, orc, backend, numeric, nops)[0] != "ok":
                    ctx.bump("deviation:torch:power:untracked-base-tracked-exponent")
                    ctx.oracle_fail("torch:power:untracked-base-tracked-exponent", case,
                                    [[float(q) for q in r] for r in orc.jac],
                                    val if status == "exc" else g0.tolist() if g0 is not None else repr(val)[:200],
                                    "c^e with c a plain number and e depending on the differentiated variable: "
                                    "torch autograd raises or drops the c^e*ln(c) term (numpy is right)")
                    continue
            if numeric and fclass == "jacobian" and any(env.kind(q) == "S" for q in env.params) \
                    and ops_in(tree) & (set(ADVERB_DYADS) | {"scan"}):
                # numeric_jacobian flattens the point: a scalar point reaches g as a one-element LIST, and
                # adverbs (which tell atoms from lists) then raise or build another shape inside g
                g0 = assemble(val, form, env, m, n) if status == "ok" else None
                if g0 is None or judge(g0, orc, backend, numeric, nops)[0] == "wrong-value":
                    ctx.bump("deviation:jacobian:scalar-point-handed-over-as-list")
                    ctx.oracle_fail("jacobian:scalar-point-handed-over-as-list", case,
                                    [[float(q) for q in r] for r in orc.jac],
                                    val if status == "exc" else g0.tolist() if g0 is not None else repr(val)[:200],
                                    "numeric Jacobian at a scalar point of a function using an adverb")
                    continue
            if status == "exc" and "Integers to negative integer powers" in val:
                # `^` turns whole-valued results into integers; an integer ARRAY (the probes are 0-d /
                # n-d arrays) to a negative power is refused by numpy.  Plain `([2.0 1.0]^2)^-1` fails alike.
                ctx.bump("raises:power:integer-array-negative-exponent")
                ctx.oracle_fail("power:integer-array-negative-exponent", case, "the derivative", val,
                                "a whole-valued power result is coerced to an integer array; raising it to a "
                                "negative power raises inside the differentiated function")
                continue
            if status == "exc" and backend == "torch" and numeric and "pow() received an invalid combination" in val \
                    and "numpy.ndarray" in val:
                ctx.bump("raises:torch:numeric:tensor-power-numpy-exponent")
                ctx.oracle_fail("torch:numeric:tensor-power-numpy-exponent", case, "the derivative", val,
                                "numeric differentiation hands numpy probes to the function; a tensor constant "
                                "raised to such a probe ([2.0 1.0]^x) is refused by Tensor.pow")
                continue
            if status == "exc" and backend == "torch" and numeric and "must be Tensor, not numpy." in val \
                    and "numpy.float64" not in val:
                ctx.bump("raises:torch:numeric:backend-function-on-numpy-scalar")
                ctx.oracle_fail("torch:numeric:backend-function-on-numpy-scalar", case, "the derivative", val,
                                "a .bkf function applied to a numpy integer / float32 scalar inside a numerically "
                                "differentiated function: the torch wrapper converts only Python int / float")
                continue
            if status == "exc" and backend == "torch" and numeric and "must be Tensor, not" in val:
                ctx.bump("raises:torch:numeric:backend-function-on-scalar")
                ctx.oracle_fail("torch:numeric:backend-function-on-scalar", case, "the derivative", val,
                                "numeric differentiation hands numpy scalars to the function; a .bkf function "
                                "outside the wrapper's scalar-converting list (tanh) rejects them")
                continue
            if status == "exc":
                ctx.bump(f"raises:{site}")
                ctx.oracle_fail(f"{site}:raises:{val.split(':')[0]}", case, "the derivative", val,
                                "a differentiable expression at a smooth point must have a gradient")
                continue
            got = assemble(val, form, env, m, n)
            if got is None:
                ctx.oracle_fail(f"{site}:wrong-shape", case, f"{m}x{n} values", repr(val)[:300])
                continue
            kind, J, tol, where = judge(got, orc, backend, numeric, nops)
            if kind != "ok":
                i, j = where
                if kind == "float32-evaluation" and direct_probe(tree):
                    kind = "direct-probe:wrong-value"       # float64-accurate on the torch backend: not the finding
                ctx.oracle_fail(f"{site}:{kind}", case,
                                dict(exact=J.tolist(), tolerance=float(tol[i, j]), component=[int(i), int(j)]),
                                got.tolist(),
                                f"d out[{i}] / d in[{j}]: exact {J[i, j]!r}, returned {got[i, j]!r}, "
                                f"allowed error {tol[i, j]:.3g}")
                ctx.bump(f"deviation:{site}")
                continue
            results[(form, backend)] = got
            ctx.bump(f"ok:{site}")
            # ---- tie: the real numeric result against the model's exact loop (IEEE allowance only)
            if numeric and cd_rows is not None and backend == "numpy":
                C = np.array([[float(x) for x in r] for r in cd_rows], dtype=float).reshape(m, n)
                allow = np.array([[4 * orc.err[i] * U64 / float(EPS) + 1e-12 * abs(C[i, j]) + FLOOR_TIE
                                   for j in range(n)] for i in range(m)])
                if (np.abs(got - C) > allow).any() and proj and form not in ("nabla", "nabla-sym", "nabla-inline"):
                    # right derivative, wrong rounding: the function evaluated is not the projection (its
                    # fixed slots were read from the same-named globals) but happens to have the same gradient
                    # (through `.jacobian` an inline projection is the older system-function-argument finding)
                    key_ = "sysjac:function-argument-evaluation" if form in ("sysjac", "sysjac-named") \
                        else "projection:fixed-arguments-dropped"
                    ctx.bump("deviation:" + key_)
                    ctx.oracle_fail(key_, case, C.tolist(), got.tolist(),
                                    "the central difference is not that of the projection: its fixed arguments were "
                                    "replaced by same-named globals (the gradient happens to coincide)")
                elif (np.abs(got - C) > allow).any():
                    i, j = np.argwhere(np.abs(got - C) > allow)[0]
                    ctx.mismatch(f"Klong.C06 central difference vs {form} on numpy", case,
                                 dict(central_difference=C.tolist(), allowance=float(allow[i, j])), got.tolist())
                else:
                    ctx.bump("tie:real-numeric==model-central-difference")
        # ---- property: the two backends agree
        a, b = results.get((form, "numpy")), results.get((form, "torch"))
        if a is not None and b is not None:
            _, t1 = allowances(orc, "numpy", True, nops)
            _, t2 = allowances(orc, "torch", numeric_form(form, "torch"), nops)
            if (np.abs(a - b) > t1 + t2).any():
                ctx.oracle_fail(f"backends-disagree:{form}", dict(base, form=form, program=prog),
                                a.tolist(), b.tolist(), "numpy and torch differ by more than both tolerances")
            else:
                ctx.bump("ok:backends-agree")
    if proj:
        for backend in list(real.k):
            real.drop(backend)
    ctx.sample(dict(body=body, params=case_json(params), forms=forms,
                    exact=[[float(x) for x in r] for r in orc.jac]))
    for o in ops_in(tree):
        ctx.bump("op:" + o)
    ctx.bump("family:" + fam)
    ctx.bump(f"size:{min(nops, 20) // 4 * 4}+")


def assemble(val, form, env, m, n):
    """the returned value as an m x n array (rows = outputs, columns = flattened inputs), or None"""
    try:
        if form in ("multi-ag", "multi-partial"):
            if not isinstance(val, list) or len(val) != len(env.params):
                return None
            cols = []
            for name, v in zip(env.params, val):
                cnt = len(env.flat(name))
                a = np.asarray(v, dtype=float)
                if a.size != m * cnt:
                    return None
                cols.append(a.reshape(m, cnt))
            return np.concatenate(cols, axis=1)
        a = np.asarray(val, dtype=float)
        if a.size != m * n:
            return None
        if form in SINGLE_FORMS + ["nabla-inline"] and a.shape != shape_of(env.params["x"]):
            return None
        return a.reshape(m, n)
    except Exception:
        return None


# =========================================================================== loop bookkeeping (instrumented f)

def quad_tree(rng, n):
    """a random polynomial of degree <= 2 in n variables, as a lowered scalar tree"""
    terms = []
    for _ in range(rng.randrange(1, 2 * n + 2)):
        c = ("c", rng.choice(CONSTS))
        i, j = rng.randrange(n), rng.randrange(n)
        terms.append(rng.choice([("*", c, ("v", i)), ("*", c, ("*", ("v", i), ("v", j))), ("*", c, ("p", 2, ("v", i))), c]))
    return ("S", terms)


def ev_tree(t, y):
    """float evaluation of a lowered polynomial tree at the array y (row-major flat)"""
    h = t[0]
    if h == "c":
        return float(t[1])
    if h == "v":
        return float(y[t[1]])
    if h == "*":
        return ev_tree(t[1], y) * ev_tree(t[2], y)
    if h == "p":
        return ev_tree(t[2], y) ** t[1]
    if h == "S":
        return sum(ev_tree(x, y) for x in t[1])
    raise ValueError(h)


def close_seq(real_probes, model_probes):
    if len(real_probes) != len(model_probes):
        return False
    for r, mo in zip(real_probes, model_probes):
        if len(r) != len(mo):
            return False
        for a, b in zip(r, mo):
            if abs(a - float(b)) > 4 * U64 * max(1.0, abs(float(b))):
                return False
    return True


def run_bookkeeping(ctx, drv, count):
    """real numeric_grad / numeric_jacobian / multi_grad_of_fn with a Python function that logs
    its arguments, against the model's probe sequence and exact result"""
    import klongpy.autograd as ag
    from klongpy import KlongInterpreter
    from klongpy.core import KGSym
    k = KlongInterpreter()
    be = k._backend
    for it in range(count):
        try:
            _bookkeeping_once(ctx, drv, ag, k, be, KGSym)
        except common.Infra:
            raise
        except Exception as e:                               # noqa: BLE001
            import traceback
            ctx.oracle_fail(f"harness:bookkeeping:{type(e).__name__}", dict(kind="bookkeeping", iteration=it),
                            "a comparable result", traceback.format_exc()[-600:])


def _bookkeeping_once(ctx, drv, ag, k, be, KGSym):
    if True:
            kind = ctx.rng.choice(["grad", "grad", "grad2d", "grad2dT", "grad0d", "jac", "multi"])
            if kind == "grad0d":
                shape = ()
            elif kind in ("grad2d", "grad2dT"):
                shape = ctx.rng.choice([(2, 2), (2, 3), (3, 2), (1, 3)])
            else:
                shape = (ctx.rng.randrange(1, 5),)
            n = int(np.prod(shape)) if shape else 1
            x = [ctx.rng.choice(GRID) for _ in range(n)]
            p = ",".join(frs(v) for v in x)
            log = []
            if kind in ("grad", "grad2d", "grad2dT", "grad0d"):
                t = quad_tree(ctx.rng, n)

                def f(y, t=t, shape=shape):
                    y = np.asarray(y)
                    ok_shape = y.shape == shape
                    log.append(([float(v) for v in y.reshape(-1)], ok_shape))
                    return ev_tree(t, y.reshape(-1))
                xin = np.array([float(v) for v in x], dtype=float).reshape(shape)
                if kind == "grad2dT":
                    # the same point as a transposed view: column-major memory, not C-contiguous
                    xin = np.ascontiguousarray(xin.T).T
                    assert not xin.flags["C_CONTIGUOUS"] or 1 in shape
                case = dict(kind="bookkeeping:numeric_grad", shape=list(shape), x=[frs(v) for v in x], f=toks(t),
                            layout="transposed" if kind == "grad2dT" else "row-major")
                ctx.count(("bk", kind, p, toks(t)))
                try:
                    g = ag.numeric_grad(f, xin, be)
                except Exception as e:
                    ctx.oracle_fail("numpy:numeric_grad:raises:" + type(e).__name__, case, "a gradient", repr(e))
                    return
                r = fields(drv.ask(f"numgrad e={toks(t)} p={p} eps={frs(EPS)}")) if drv else None
                exact = fields(drv.ask(f"grad e={toks(t)} p={p}")) if drv else None
                if r:
                    mg, mp = rats(r["grad"]), rows(r["probes"])
                    if rats(exact["grad"]) != mg:
                        ctx.mismatch("central_diff_exact_quadratic instance: model loop vs exact gradient of a quadratic",
                                     case, r["grad"], exact["grad"])
                    seen = [q for q, _ in log]
                    if kind == "grad2dT":
                        # np.nditer walks a column-major array in memory order: the same probes, another order
                        seen = sorted(seen)
                        mp = sorted(mp, key=lambda q: [float(v) for v in q])
                    if not close_seq(seen, mp) or not all(ok for _, ok in log):
                        ctx.mismatch("Klong.C06.numGradState.probes vs numeric_grad call arguments", case,
                                     [[float(v) for v in q] for q in mp], [q for q, _ in log])
                        return
                    gg = np.asarray(g, dtype=float)
                    scale = max(1.0, max(abs(float(v)) for v in mg), max(abs(ev_tree(t, q)) for q, _ in log))
                    if gg.shape != shape or not np.allclose(gg.reshape(-1), [float(v) for v in mg], rtol=0, atol=2e-8 * scale):
                        ctx.mismatch("Klong.C06.numGrad vs numeric_grad result", case, [float(v) for v in mg], gg.tolist())
                        # the property's own oracle: a quadratic's gradient is known exactly
                        if gg.shape != shape or not np.allclose(gg.reshape(-1), [float(v) for v in mg], rtol=1e-5, atol=1e-5 * scale):
                            ctx.oracle_fail("numpy:numeric_grad:wrong-value", case, [float(v) for v in mg], gg.tolist())
                        return
                ctx.bump("bookkeeping:numeric_grad:" + ("0d" if shape == () else f"{len(shape)}d") +
                         ("-transposed" if kind == "grad2dT" else ""))
            elif kind == "jac":
                mo = ctx.rng.randrange(1, 4)
                ts = [quad_tree(ctx.rng, n) for _ in range(mo)]

                def g(y, ts=ts):
                    y = np.asarray(y)
                    log.append([float(v) for v in y.reshape(-1)])
                    return np.array([ev_tree(t, y.reshape(-1)) for t in ts])
                case = dict(kind="bookkeeping:numeric_jacobian", x=[frs(v) for v in x], g=[toks(t) for t in ts])
                ctx.count(("bk", kind, p, tuple(toks(t) for t in ts)))
                try:
                    J = ag.numeric_jacobian(g, np.array([float(v) for v in x]), be)
                except Exception as e:
                    ctx.oracle_fail("numpy:numeric_jacobian:raises:" + type(e).__name__, case, "a Jacobian", repr(e))
                    return
                if drv:
                    es = ";".join(toks(t) for t in ts)
                    r = fields(drv.ask(f"numjac es={es} p={p} eps={frs(EPS)}"))
                    ex = fields(drv.ask(f"jac es={es} p={p}"))
                    mj, mp = rows(r["jac"]), rows(r["probes"])
                    if rows(ex["jac"]) != mj:
                        ctx.mismatch("central_diff_exact_quadratic instance: numJacobian vs exact Jacobian of quadratics",
                                     case, r["jac"], ex["jac"])
                    if not close_seq(log, mp):
                        ctx.mismatch("Klong.C06.numJacState.probes vs numeric_jacobian call arguments", case,
                                     [[float(v) for v in q] for q in mp], log)
                        return
                    want = np.array([[float(v) for v in row] for row in mj]).reshape(mo, n)
                    scale = max(1.0, float(np.max(np.abs(want))), max(abs(ev_tree(t, q)) for q in log for t in ts))
                    JJ = np.asarray(J, dtype=float)
                    if JJ.shape != (mo, n) or not np.allclose(JJ, want, rtol=0, atol=2e-8 * scale):
                        ctx.mismatch("Klong.C06.numJacobian vs numeric_jacobian result", case, want.tolist(), JJ.tolist())
                        if JJ.shape != (mo, n) or not np.allclose(JJ, want, rtol=1e-5, atol=1e-5 * scale):
                            ctx.oracle_fail("numpy:numeric_jacobian:wrong-value", case, want.tolist(), JJ.tolist(),
                                            "J[i,j] must be d out_i / d in_j")
                        return
                ctx.bump("bookkeeping:numeric_jacobian")
            else:
                names = ["w", "b", "c"][:ctx.rng.randrange(2, 4)]
                sizes = [ctx.rng.randrange(1, 4) if nm != "b" else 0 for nm in names]     # 0 = scalar
                vals, flat = {}, []
                for nm, sz in zip(names, sizes):
                    v = [ctx.rng.choice(GRID) for _ in range(max(1, sz))]
                    vals[nm] = v
                    flat += v
                t = quad_tree(ctx.rng, len(flat))
                for nm, sz in zip(names, sizes):
                    k[nm] = float(vals[nm][0]) if sz == 0 else np.array([float(v) for v in vals[nm]])

                def loss(t=t, names=names):
                    cur = []
                    for nm in names:
                        cur.append([float(v) for v in np.asarray(k[nm], dtype=float).reshape(-1)])
                    log.append(cur)
                    return ev_tree(t, [v for blk in cur for v in blk])
                ps = ";".join(",".join(frs(v) for v in vals[nm]) for nm in names)
                case = dict(kind="bookkeeping:multi_grad_of_fn", params={nm: [frs(v) for v in vals[nm]] for nm in names},
                            f=toks(t))
                ctx.count(("bk", kind, ps, toks(t)))
                try:
                    gs = ag.multi_grad_of_fn(k, loss, [KGSym(nm) for nm in names])
                except Exception as e:
                    ctx.oracle_fail("numpy:multi_grad_of_fn:raises:" + type(e).__name__, case, "gradients", repr(e))
                    return
                if drv:
                    r = fields(drv.ask(f"multigrad e={toks(t)} params={ps} eps={frs(EPS)}"))
                    ex = fields(drv.ask(f"grad e={toks(t)} p={','.join(frs(v) for v in flat)}"))
                    mg = rows(r["grads"])
                    mp = [rows(q) for q in r["probes"].split("|") if q]
                    if [v for blk in mg for v in blk] != rats(ex["grad"]):
                        ctx.mismatch("central_diff_exact_quadratic instance: multiGrad vs exact gradient of a quadratic",
                                     case, r["grads"], ex["grad"])
                    same = len(mp) == len(log) and all(close_seq(a, b) for a, b in zip(log, mp))
                    if not same:
                        ctx.mismatch("Klong.C06.multiGradState.probes vs bindings seen by the loss in multi_grad_of_fn",
                                     case, [[[float(v) for v in blk] for blk in q] for q in mp], log)
                        return
                    got = np.concatenate([np.asarray(g, dtype=float).reshape(-1) for g in gs])
                    want = np.array([float(v) for blk in mg for v in blk])
                    scale = max(1.0, float(np.max(np.abs(want))),
                                max(abs(ev_tree(t, [v for blk in q for v in blk])) for q in log))
                    if len(gs) != len(names) or got.shape != want.shape or not np.allclose(got, want, rtol=0, atol=2e-8 * scale):
                        ctx.mismatch("Klong.C06.multiGrad vs multi_grad_of_fn result", case, want.tolist(), got.tolist())
                        if got.shape != want.shape or not np.allclose(got, want, rtol=1e-5, atol=1e-5 * scale):
                            ctx.oracle_fail("numpy:multi_grad_of_fn:wrong-value", case, want.tolist(), got.tolist())
                        return
                ctx.bump("bookkeeping:multi_grad_of_fn")


# =========================================================================== points supplied from Python

PY_CLASSES = {
    "numpy": ["np-f64", "np-f32", "np-int", "np-0d", "py-float", "py-int", "np-f64-readonly"],
    "torch": ["np-f64", "np-int", "t-f32", "t-f64", "t-int", "t-0d", "leaf", "leaf-0d", "leaf-f64", "param",
              "nongrad-view"],
}


def make_point(cls, vals):
    """the evaluation point as the Python object of class `cls` (vals: list of fractions; one value = 0-d)"""
    import torch
    fl = [float(v) for v in vals]
    scalar = cls.endswith("0d") or cls.startswith("py-")
    if cls == "py-float":
        return fl[0]
    if cls == "py-int":
        return int(fl[0])
    if cls.startswith("np-"):
        a = np.array(fl[0] if scalar else fl, dtype={"np-f32": np.float32, "np-int": np.int64}.get(cls, np.float64))
        if cls == "np-f64-readonly":
            a.setflags(write=False)
        return a
    data = fl[0] if scalar else fl
    if cls == "t-f32" or cls == "t-0d":
        return torch.tensor(data, dtype=torch.float32)
    if cls == "t-f64":
        return torch.tensor(data, dtype=torch.float64)
    if cls == "t-int":
        return torch.tensor([int(v) for v in fl], dtype=torch.int64)
    if cls in ("leaf", "leaf-0d"):
        return torch.tensor(data, dtype=torch.float32, requires_grad=True)
    if cls == "leaf-f64":
        return torch.tensor(data, dtype=torch.float64, requires_grad=True)
    if cls == "param":
        return torch.nn.Parameter(torch.tensor(data, dtype=torch.float32))
    if cls == "nongrad-view":
        return torch.tensor(fl + [0.0], dtype=torch.float32)[:-1]
    raise ValueError(cls)


def run_python_points(ctx, real, count, quick):
    """evaluation points handed in through the Python API (klong['pp'] = obj), of every class, and
    REPEATED differentiation at the same point object with different functions: every result against the
    exact gradient, and the earlier results must not change afterwards"""
    backends = ["numpy"] + (["torch"] if real.have_torch() else [])
    for it in range(count):
        backend = ctx.rng.choice(backends)
        cls = ctx.rng.choice(PY_CLASSES[backend])
        scalar = cls.endswith("0d") or cls.startswith("py-")
        whole = "int" in cls
        grid = [Fr(v) for v in (1, 2, 3, -1, -2)] if whole else GRID
        vals = [ctx.rng.choice(grid) for _ in range(1 if scalar else ctx.rng.choice([1, 2, 3, 4]))]
        params = {"x": vals[0] if scalar else vals}
        env = Env(params)
        trees = []
        for _ in range(60):
            t = gen_s(ctx.rng, env, ctx.rng.choice([1, 2, 2]), ctx.rng.random() < 0.2)
            if not depends(t, "x") or ops_in(t) & {"each2", "scan", "scanN", "mrecip"} or tree_size(t) > 14:
                continue
            try:
                trees.append((t, Oracle(t, env)))
            except (NotSmooth, ZeroDivisionError, OverflowError, ValueError):
                continue
            if len(trees) == 3:
                break
        if len(trees) < 3:
            continue
        plan = [("ag", 0), ("ag", 0), ("ag", 1), ("nabla-sym", 2), ("nabla-monad", 1), ("ag", 0)]
        if quick:
            plan = plan[:3] + [ctx.rng.choice(plan[3:])]
        case = dict(kind="python-point", backend=backend, cls=cls, x=[frs(v) for v in vals],
                    functions=[render(t) for t, _ in trees], trees=[t for t, _ in trees], plan=plan)
        try:
            _python_point_once(ctx, real, backend, cls, vals, env, trees, plan, case)
        except common.Infra:
            raise
        except Exception as e:                               # noqa: BLE001
            import traceback
            real.drop(backend)
            ctx.oracle_fail(f"harness:python-point:{type(e).__name__}", case, "a comparable result",
                            traceback.format_exc()[-600:])


def _python_point_once(ctx, real, backend, cls, vals, env, trees, plan, case):
    k = real.interp(backend)
    for i, (t, _) in enumerate(trees):
        k(f"pf{i}::{{{render(t)}}}")
    obj = make_point(cls, vals)
    k["pp"] = obj
    kept = []
    m, n = 1, env.n
    for step, (form, fi) in enumerate(plan):
        tree, orc = trees[fi]
        prog = {"ag": f"pf{fi}:>pp", "nabla-sym": f"pp∇pf{fi}", "nabla-monad": f"gq::∇pf{fi};gq(pp)"}[form]
        numeric = form == "nabla-sym" or backend == "numpy"
        cs = dict(case, step=step, program=prog)
        ctx.count(("pypoint", backend, cls, tuple(case["x"]), render(tree), step))
        site = f"pypoint:{backend}:{cls}:{form}"
        try:
            raw = k(prog)
            snap = np.array(to_np(raw), dtype=float, copy=True)
        except Exception as e:                               # noqa: BLE001
            real.drop(backend)
            ctx.oracle_fail(f"{site}:raises:{type(e).__name__}", cs, "the gradient", f"{type(e).__name__}: {str(e)[:160]}",
                            "differentiation at a point supplied from Python")
            return
        if snap.size != n:
            ctx.oracle_fail(f"{site}:wrong-shape", cs, f"{n} values", repr(snap)[:200])
            return
        got = snap.reshape(m, n)
        kind, J, tol, where = judge(got, orc, backend, numeric, tree_size(tree))
        if kind == "float32-evaluation" and not direct_probe(tree):
            ctx.oracle_fail("torch:nabla:float32-evaluation", cs, J.tolist(), got.tolist())
            ctx.bump("pypoint:known-float32")
        elif kind != "ok":
            i, j = where
            ctx.oracle_fail(f"{site}:{kind}", cs, dict(exact=J.tolist(), tolerance=float(tol[i, j])), got.tolist(),
                            f"evaluation {step + 1} at the same point object: exact {J[i, j]!r}, returned {got[i, j]!r}")
            ctx.bump("deviation:" + site)
            return
        else:
            ctx.bump(f"ok:pypoint:{backend}:{cls}")
        kept.append((step, prog, raw, snap))
    # earlier results are values: later differentiations must not change them
    for step, prog, raw, snap in kept:
        now = np.array(to_np(raw), dtype=float)
        if now.shape != snap.shape or not np.array_equal(now, snap):
            ctx.oracle_fail(f"pypoint:{backend}:{cls}:result-changed-afterwards", dict(case, step=step, program=prog),
                            snap.tolist(), now.tolist(),
                            "a gradient returned earlier changed its value when the point was differentiated again")
            return


# =========================================================================== fixed cases (always run)

FIXED = [
    ("scalar", ["pow", ["par", "x"], 2], {"x": Fr(3)}),
    ("scalar", ["add", ["add", ["pow", ["par", "x"], 3], ["mul", ["const", "2/1"], ["pow", ["par", "x"], 2]]], ["par", "x"]],
     {"x": Fr(2)}),
    ("scalar", ["div", ["const", "1/1"], ["par", "x"]], {"x": Fr(2)}),
    ("scalar", ["pow", ["par", "x"], -2], {"x": Fr(2)}),
    ("scalar", ["add", ["pow", ["par", "x"], 0], ["par", "x"]], {"x": Fr(2)}),
    ("vector", ["sum", ["pow", ["par", "x"], 2]], {"x": [Fr(1), Fr(2), Fr(3)]}),
    ("vector", ["prod", ["par", "x"]], {"x": [Fr(1), Fr(2), Fr(3)]}),
    ("vector", ["mul", ["sum", ["par", "x"]], ["prod", ["par", "x"]]], {"x": [Fr(1, 2), Fr(2), Fr(3, 2)]}),
    ("vector", ["div", ["idx", ["par", "x"], 0], ["idx", ["par", "x"], 1]], {"x": [Fr(2), Fr(5, 2)]}),
    ("vector", ["sum", ["div", ["par", "x"], ["add", ["const", "1/1"], ["mul", ["par", "x"], ["par", "x"]]]]],
     {"x": [Fr(1, 2), Fr(2), Fr(3, 2)]}),
    ("vector", ["sum", ["each", "cube", ["par", "x"]]], {"x": [Fr(1), Fr(2)]}),
    ("vector", ["sum", ["call", "sin", ["par", "x"]]], {"x": [Fr(1), Fr(2)]}),
    ("matrix", ["sum", ["flat", ["mul", ["par", "x"], ["par", "x"]]]], {"x": [[Fr(1), Fr(2), Fr(3)], [Fr(-1), Fr(1, 2), Fr(2)]]}),
    ("jac", ["join", [["mul", ["idx", ["par", "x"], 0], ["idx", ["par", "x"], 1]],
                      ["add", ["idx", ["par", "x"], 0], ["idx", ["par", "x"], 1]],
                      ["pow", ["idx", ["par", "x"], 1], 3]]], {"x": [Fr(1), Fr(2)]}),
    ("jac", ["mul", ["idx", ["par", "x"], 0], ["par", "x"]], {"x": [Fr(1), Fr(2), Fr(3)]}),
    ("jac", ["div", ["par", "x"], ["sum", ["par", "x"]]], {"x": [Fr(1), Fr(2), Fr(3)]}),
    ("multi", ["add", ["pow", ["par", "a"], 2], ["mul", ["par", "b"], ["par", "a"]]], {"a": Fr(2), "b": Fr(3)}),
    ("multi", ["add", ["mul", ["sum", ["mul", ["par", "w"], ["par", "w"]]], ["par", "b"]],
               ["div", ["prod", ["par", "c"]], ["idx", ["par", "w"], 0]]],
     {"w": [Fr(1), Fr(2)], "b": Fr(1, 2), "c": [Fr(2), Fr(1), Fr(3)]}),
    ("multi-jac", ["join", [["mul", ["par", "w"], ["par", "b"]], ["sum", ["par", "w"]]]],
     {"w": [Fr(1), Fr(2)], "b": Fr(1, 2)}),
    # imported backend math functions applied directly to the point (numeric ∇ on torch is float64 here)
    ("probe", ["call", "sin", ["par", "x"]], {"x": Fr(1)}),
    ("probe", ["sum", ["call", "exp", ["par", "x"]]], {"x": [Fr(1), Fr(2), Fr(-1, 2)]}),
    ("probe", ["mul", ["call", "sqrt", ["par", "x"]], ["call", "log", ["par", "x"]]], {"x": Fr(2)}),
    ("probe", ["sum", ["mul", ["par", "x"], ["call", "cos", ["par", "x"]]]], {"x": [Fr(3, 2), Fr(3)]}),
    # adverbs inside the differentiated function, at scalar and vector points (the ATOM case of :/ and :\)
    ("scalar", ["sum", ["eachR", "%", ["vconst", ["1/1", "2/1", "3/1"]], ["par", "x"]]], {"x": Fr(2)}),
    ("scalar", ["sum", ["eachR", "-", ["vconst", ["1/1", "2/1", "3/1"]], ["par", "x"]]], {"x": Fr(2)}),
    ("scalar", ["sum", ["eachL", "%", ["vconst", ["1/1", "2/1", "3/1"]], ["par", "x"]]], {"x": Fr(2)}),
    ("scalar", ["sum", ["eachR", "L%", ["vconst", ["1/1", "2/1"]], ["mul", ["par", "x"], ["par", "x"]]]], {"x": Fr(3, 2)}),
    ("scalar", ["eachR", "^", ["par", "x"], ["const", "2/1"]], {"x": Fr(3)}),
    ("vector", ["sum", ["eachR", "%", ["const", "2/1"], ["par", "x"]]], {"x": [Fr(2), Fr(4)]}),
    ("vector", ["sum", ["eachL", "%", ["const", "2/1"], ["par", "x"]]], {"x": [Fr(2), Fr(4)]}),
    ("vector", ["sum", ["eachR", "-", ["par", "x"], ["const", "2/1"]]], {"x": [Fr(2)]}),
    ("vector", ["sum", ["each2", "%", ["vconst", ["1/1", "2/1"]], ["par", "x"]]], {"x": [Fr(2), Fr(4)]}),
    ("vector", ["overN", "%", ["const", "10/1"], ["par", "x"]], {"x": [Fr(2), Fr(4)]}),
    ("vector", ["overN", "-", ["const", "1/1"], ["par", "x"]], {"x": [Fr(2), Fr(4)]}),
    ("vector", ["sum", ["scanN", "*", ["const", "1/1"], ["par", "x"]]], {"x": [Fr(2), Fr(4)]}),
    ("vector", ["sum", ["scan", "*", ["par", "x"]]], {"x": [Fr(2), Fr(4), Fr(1, 2)]}),
    ("multi", ["sum", ["eachR", "%", ["par", "w"], ["par", "b"]]], {"w": [Fr(1), Fr(2), Fr(3)], "b": Fr(2)}),
    ("jac", ["eachR", "-", ["vconst", ["1/1", "2/1", "3/1"]], ["par", "x"]], {"x": Fr(2)}),
    ("jac", ["join", [["each2", "+", ["par", "x"], ["const", "1/1"]], ["gpow", ["par", "x"], ["par", "x"]]]], {"x": Fr(2)}),
    ("jac", ["join", [["const", "1/4"], ["call", "sqrt", ["idx", ["pow", ["par", "x"], 0], 0]]]],
     {"x": [Fr(1, 2), Fr(3), Fr(3)]}),
    # nested folds over a MATRIX: Over folds the rows (axis 0); something non-linear between the folds
    ("matrix", ["sum", ["pow", ["colfold", "+", ["par", "x"], 2, 2], 2]], {"x": [[Fr(1), Fr(2)], [Fr(3), Fr(5)]]}),
    ("matrix", ["sum", ["pow", ["div", ["colfold", "+", ["par", "x"], 3, 2], ["mcount", ["par", "x"], 3]], 2]],
     {"x": [[Fr(1), Fr(2)], [Fr(3), Fr(5)], [Fr(-1), Fr(1, 2)]]}),
    ("matrix", ["sum", ["pow", ["colfold", "*", ["par", "x"], 2, 3], 2]], {"x": [[Fr(1), Fr(2), Fr(3)], [Fr(3), Fr(5), Fr(1, 2)]]}),
    ("matrix", ["sum", ["pow", ["colfold", "|", ["par", "x"], 2, 2], 2]], {"x": [[Fr(1), Fr(5)], [Fr(3), Fr(2)]]}),
    ("matrix", ["sum", ["pow", ["colfold", "&", ["mul", ["par", "x"], ["par", "x"]], 2, 2], 2]],
     {"x": [[Fr(1), Fr(5)], [Fr(3), Fr(2)]]}),
    ("matrix", ["sum", ["pow", ["colfold", "+", ["par", "x"], 2, 2], 2]], {"x": [[Fr(1), Fr(2)], [Fr(3), Fr(5)]]},
     dict(transposed=True)),
    ("multi", ["sum", ["pow", ["colfold", "+", ["mul", ["par", "M"], ["par", "M"]], 2, 2], 2]],
     {"M": [[Fr(1), Fr(2)], [Fr(3), Fr(5)]]}),
    ("multi", ["mul", ["sum", ["pow", ["colfold", "+", ["par", "M"], 2, 3], 2]], ["par", "b"]],
     {"M": [[Fr(1), Fr(2), Fr(3)], [Fr(3), Fr(5), Fr(1, 2)]], "b": Fr(1, 2)}),
    # monadic arithmetic verbs: reciprocal %x and negate -x
    ("scalar", ["mrecip", ["par", "x"]], {"x": Fr(2)}),
    ("scalar", ["neg", ["par", "x"]], {"x": Fr(2)}),
    ("scalar", ["mul", ["par", "x"], ["mrecip", ["add", ["par", "x"], ["const", "1/1"]]]], {"x": Fr(3, 2)}),
    ("vector", ["sum", ["mrecip", ["par", "x"]]], {"x": [Fr(2), Fr(4)]}),
    ("vector", ["sum", ["neg", ["mrecip", ["mul", ["par", "x"], ["par", "x"]]]]], {"x": [Fr(2), Fr(-1), Fr(1, 2)]}),
    ("multi", ["add", ["sum", ["mrecip", ["par", "w"]]], ["mrecip", ["par", "b"]]], {"w": [Fr(2), Fr(4)], "b": Fr(-2)}),
    ("multi", ["mrecip", ["par", "b"]], {"b": Fr(2)}),
    ("jac", ["mrecip", ["par", "x"]], {"x": [Fr(2), Fr(4)]}),
    ("jac", ["join", [["mrecip", ["idx", ["par", "x"], 0]], ["neg", ["idx", ["par", "x"], 1]]]], {"x": [Fr(2), Fr(4)]}),
    # Over / Scan with every arithmetic verb over 3-5 members
    ("vector", ["over", "-", ["pow", ["par", "x"], 2]], {"x": [Fr(3), Fr(1), Fr(2)]}),
    ("vector", ["over", "%", ["par", "x"]], {"x": [Fr(3), Fr(1, 2), Fr(2), Fr(-1)]}),
    ("vector", ["over", "&", ["mul", ["par", "x"], ["par", "x"]]], {"x": [Fr(3), Fr(1), Fr(2), Fr(-5, 2), Fr(3, 2)]}),
    ("vector", ["over", "|", ["par", "x"]], {"x": [Fr(1), Fr(3), Fr(2)]}),
    ("vector", ["sum", ["scan", "-", ["par", "x"]]], {"x": [Fr(3), Fr(1), Fr(2), Fr(1, 2)]}),
    ("vector", ["sum", ["scan", "%", ["par", "x"]]], {"x": [Fr(3), Fr(1), Fr(2)]}),
    ("vector", ["sum", ["scan", "+", ["pow", ["par", "x"], 2]]], {"x": [Fr(3), Fr(1), Fr(2), Fr(-1)]}),
    ("vector", ["sum", ["scan", "|", ["par", "x"]]], {"x": [Fr(1), Fr(3), Fr(2)]}),
    ("vector", ["overN", "-", ["const", "10/1"], ["pow", ["par", "x"], 2]], {"x": [Fr(3), Fr(1), Fr(2)]}),
    ("jac", ["join", [["over", "-", ["par", "x"]], ["over", "%", ["par", "x"]]]], {"x": [Fr(3), Fr(1), Fr(2)]}),
    # a list of exactly one named parameter
    ("multi", ["sum", ["mul", ["par", "w"], ["par", "w"]]], {"w": [Fr(1), Fr(2), Fr(3)]}),
    ("multi", ["pow", ["par", "b"], 3], {"b": Fr(2)}),
    ("multi-jac", ["mul", ["par", "w"], ["par", "w"]], {"w": [Fr(1), Fr(2)]}),
    # projections as the function operand, with and without unrelated globals named like the slots
    ("proj", ["mul", ["par", "x"], ["fixed", "y", ["const", "3/1"]]], {"x": Fr(2)},
     dict(proj=dict(free="x", arity=2), globals=True)),
    ("proj", ["mul", ["par", "x"], ["fixed", "y", ["const", "3/1"]]], {"x": Fr(2)},
     dict(proj=dict(free="x", arity=2), globals=False)),
    ("proj", ["mul", ["fixed", "x", ["const", "3/1"]], ["pow", ["par", "x"], 2]], {"x": Fr(2)},
     dict(proj=dict(free="y", arity=2), globals=True)),
    ("proj", ["div", ["sum", ["pow", ["sub", ["par", "x"], ["fixed", "y", ["vconst", ["1/1", "2/1", "3/1"]]]], 2]],
              ["count", ["par", "x"]]], {"x": [Fr(1, 2), Fr(1, 2), Fr(1, 2)]},
     dict(proj=dict(free="x", arity=2), globals=True)),
    ("proj", ["add", ["mul", ["fixed", "x", ["const", "2/1"]], ["par", "x"]],
              ["mul", ["fixed", "z", ["const", "5/1"]], ["pow", ["par", "x"], 2]]], {"x": Fr(4)},
     dict(proj=dict(free="y", arity=3), globals=False)),
    ("proj-jac", ["mul", ["par", "x"], ["fixed", "y", ["const", "3/1"]]], {"x": [Fr(1), Fr(2)]},
     dict(proj=dict(free="x", arity=2), globals=True)),
    # matrix points with the transposed (column-major) layout, M::+A
    ("matrix", ["sum", ["flat", ["mul", ["par", "x"], ["par", "x"]]]],
     {"x": [[Fr(1), Fr(4)], [Fr(2), Fr(5)], [Fr(3), Fr(6)]]}, dict(transposed=True)),
    ("matrix", ["sum", ["flat", ["pow", ["par", "x"], 3]]], {"x": [[Fr(1), Fr(2)], [Fr(-1), Fr(3, 2)]]}, dict(transposed=True)),
    ("multi", ["mul", ["sum", ["flat", ["mul", ["par", "M"], ["par", "M"]]]], ["par", "b"]],
     {"M": [[Fr(1), Fr(4)], [Fr(2), Fr(5)], [Fr(3), Fr(6)]], "b": Fr(1, 2)}, dict(transposed=True)),
    ("multi", ["mul", ["sum", ["flat", ["mul", ["par", "M"], ["par", "M"]]]], ["par", "b"]],
     {"M": [[Fr(1), Fr(4)], [Fr(2), Fr(5)]], "b": Fr(3)}, dict(transposed=False)),
    # two parameters bound to the identical array object (b::w in Klong, and from Python)
    ("multi", ["sum", ["add", ["mul", ["par", "w"], ["par", "w"]], ["mul", ["const", "3/1"], ["par", "c"]]]],
     {"w": [Fr(1), Fr(2), Fr(3)], "c": [Fr(1), Fr(2), Fr(3)]}, dict(alias={"c": "w"}, alias_py=False)),
    ("multi", ["sum", ["add", ["mul", ["par", "w"], ["par", "w"]], ["mul", ["const", "3/1"], ["par", "c"]]]],
     {"w": [Fr(1), Fr(2), Fr(3)], "c": [Fr(1), Fr(2), Fr(3)]}, dict(alias={"c": "w"}, alias_py=True)),
    ("multi-jac", ["join", [["mul", ["par", "w"], ["par", "c"]], ["sum", ["par", "c"]]]],
     {"w": [Fr(1), Fr(2)], "c": [Fr(1), Fr(2)]}, dict(alias={"c": "w"}, alias_py=False)),
    # integer atoms as parameter bindings in loss:>[w b]
    ("multi", ["add", ["pow", ["par", "a"], 2], ["pow", ["par", "b"], 2]], {"a": Fr(2), "b": Fr(3)}, "lit"),
    ("multi", ["add", ["pow", ["par", "a"], 2], ["mul", ["par", "b"], ["par", "a"]]], {"a": Fr(2), "b": Fr(-3)}, "sum"),
    ("multi", ["mul", ["sum", ["mul", ["par", "w"], ["par", "w"]]], ["par", "b"]], {"w": [Fr(1), Fr(2)], "b": Fr(2)}, "lit"),
    ("multi-jac", ["join", [["mul", ["par", "w"], ["par", "b"]], ["pow", ["par", "b"], 2]]], {"w": [Fr(1), Fr(2)], "b": Fr(3)}, "lit"),
    # powers with a non-constant exponent: d(u^v) = v*u^(v-1)*du + u^v*ln(u)*dv
    ("scalar", ["gpow", ["par", "x"], ["par", "x"]], {"x": Fr(2)}),
    ("scalar", ["gpow", ["add", ["par", "x"], ["const", "1/1"]], ["mul", ["par", "x"], ["const", "1/2"]]], {"x": Fr(2)}),
    ("scalar", ["gpow", ["par", "x"], ["const", "3/2"]], {"x": Fr(2)}),
    ("vector", ["gpow", ["idx", ["par", "x"], 0], ["idx", ["par", "x"], 1]], {"x": [Fr(2), Fr(3)]}),
    ("vector", ["sum", ["gpow", ["par", "x"], ["par", "x"]]], {"x": [Fr(2), Fr(3, 2)]}),
    ("vector", ["sum", ["gpow", ["par", "x"], ["idx", ["par", "x"], 0]]], {"x": [Fr(2), Fr(3)]}),
    ("jac", ["join", [["gpow", ["par", "x"], ["idx", ["par", "x"], 1]], ["gpow", ["idx", ["par", "x"], 0], ["par", "x"]]]],
     {"x": [Fr(2), Fr(3)]}),
    ("multi", ["add", ["gpow", ["par", "a"], ["par", "b"]], ["mul", ["par", "b"], ["par", "a"]]], {"a": Fr(2), "b": Fr(3)}),
    ("multi", ["sum", ["gpow", ["par", "w"], ["par", "b"]]], {"w": [Fr(2), Fr(3, 2)], "b": Fr(3)}),
    # witnesses of the known findings (findings.d/C06.json)
    ("scalar", ["add", ["gpow", ["const", "2/1"], ["par", "x"]], ["par", "x"]], {"x": Fr(3)}),
    ("scalar", ["sum", ["gpow", ["vconst", ["2/1", "2/1", "1/1"]], ["par", "x"]]], {"x": Fr(1)}),
    ("multi", ["sum", ["par", "w"]], {"w": [Fr(1), Fr(2)], "b": Fr(2)}),
    ("matrix", ["sum", ["flat", ["pow", ["add", ["sub", ["const", "3/1"], ["par", "x"]], ["const", "-2/1"]], -1]]],
     {"x": [[Fr(3, 2), Fr(3)], [Fr(1, 2), Fr(5, 2)], [Fr(-1, 2), Fr(2)]]}),
    ("jac", ["join", [["mul", ["par", "x"], ["const", "1/2"]], ["const", "1/4"]]], {"x": [Fr(1), Fr(2)]}),
    ("jac", ["call", "recip", ["call", "cube", ["par", "x"]]], {"x": [Fr(1, 2)]}),
    ("multi-jac", ["join", [["idx", ["par", "w"], 0],
                            ["pow", ["pow", ["sub", ["par", "b"], ["idx", ["par", "w"], 2]], 2], -1]]],
     {"w": [Fr(-5, 2), Fr(-3, 2), Fr(-1, 2)], "b": Fr(-3, 2)}),
    ("vector", ["call", "tanh", ["idx", ["par", "x"], 2]], {"x": [Fr(3), Fr(3, 2), Fr(-1, 2)]}),
]


def run(ctx):
    quick = ctx.tier == "quick"
    drv = Driver("c06") if getattr(ctx, "driver_ok", True) else None
    model = Model(drv) if drv else None
    real = Real()
    ctx.rule = ("typed random expression trees (depth <= 3, size <= 14 quick / 22 thorough) over + - * %, integer powers "
                "-2..4, adverbs a f:/b a f:\\b a f'b a f/b a f\\b f\\a over - % ^ + * and dyadic lambdas (atom and list operands), "
                "powers with an expression as exponent (x^x, (x@0)^(x@1), w^p, c^x), negate, +/ */ @ # each, named functions sq cube recip (exact) and sin cos exp log sqrt tanh, "
                "scalar / vector / matrix / multi-parameter, x half-integer grid points in [-2.5, 3] with every "
                "denominator / log / sqrt argument >= 1/4, x forms f:>p, named, by symbol, p∇f, x∇f, ∇f, p∂g, "
                ".jacobian, loss:>[..], [..]∂g, x numpy and torch; plus fixed cases from the test-suite and "
                "instrumented-function runs of numeric_grad / numeric_jacobian / multi_grad_of_fn. "
                "distinct = distinct (program text, backend); non-trivial = expression tree of at least 3 nodes "
                "(bookkeeping runs: every run)")
    ctx.assumptions += [
        "tolerance: |returned - exact| <= 1e-5*max|grad row| + 4*E*u/eps for numeric differentiation (E = running "
        "rounding-error bound of a float64 evaluation of f, u = 2^-53), <= 1e-3*max|grad row| + float32 rounding of the "
        "backward products for torch autograd; components are compared relative to the largest entry of their row",
        "smooth domain: every divisor, recip / negative-power base, log and sqrt argument has magnitude >= 1/4; cases where "
        "the EXACT central difference (Lean, rationals) misses the derivative by > 2e-6 relative are outside it",
        "Jacobians are compared as (outputs x flattened inputs) value tables; torch returns lower-rank shapes for scalar "
        "inputs/outputs, which is recorded but not required to match numpy's",
        "the derivative rules of D (sum, product, quotient, power, chain) are the definition of 'mathematical derivative' "
        "for these trees; named functions are trusted to come with their true derivatives",
    ]
    ctx.partial += [
        "IEEE cancellation in the difference quotient: tolerance comparison only",
        "PyTorch autograd engine and gradient-preserving branches of the torch kernels: tolerance comparison only",
        "central_diff_error is stated for functions R -> R along one coordinate; its hypothesis (a bound on f''') is not "
        "derived from the expression tree",
    ]
    try:
        ctx.extra["torch_backend"] = real.have_torch()
        for fx in FIXED:
            fam, tree, params = fx[:3]
            extra = fx[3] if len(fx) > 3 else None
            run_case(ctx, model, real, fam, tree, params, quick=False,
                     as_int=extra if isinstance(extra, str) else None,
                     var=extra if isinstance(extra, dict) else None)
        cdir = common.CORPUS / "C06"
        if cdir.exists():
            for p in sorted(cdir.glob("*.json")):
                c = json.loads(p.read_text())
                run_case(ctx, model, real, c["family"], c["tree"], params_from_json(c["params"]), quick=False)
        run_bookkeeping(ctx, drv, 60 if quick else 600)
        run_python_points(ctx, real, 50 if quick else 600, quick)
        ncases = 260 if quick else 3200
        done = 0
        while done < ncases:
            g = gen_case(ctx.rng, quick)
            if g is None:
                continue
            run_case(ctx, model, real, *g[:3], quick=quick, var=g[3])
            done += 1
    finally:
        if drv:
            drv.close()


def replay(ctx, case):
    drv = Driver("c06") if getattr(ctx, "driver_ok", True) else None
    model = Model(drv) if drv else None
    real = Real()
    c = case.get("case", case)
    try:
        if "tree" in c:
            forms = [c["form"]] if "form" in c else None
            backends = [c["backend"]] if "backend" in c else None
            run_case(ctx, model, real, c["family"], c["tree"], params_from_json(c["params"]),
                     forms=forms, backends=backends, quick=False, as_int=c.get("as_int"), var=c.get("var"))
        elif c.get("kind") == "python-point":
            vals = [Fr(v) for v in c["x"]]
            scalar = c["cls"].endswith("0d") or c["cls"].startswith("py-")
            env = Env({"x": vals[0] if scalar else vals})
            trees = [(t, Oracle(t, env)) for t in c["trees"]]
            _python_point_once(ctx, real, c["backend"], c["cls"], vals, env, trees, [tuple(p_) for p_ in c["plan"]],
                               {k_: v_ for k_, v_ in c.items() if k_ not in ("step", "program")})
        else:
            run_bookkeeping(ctx, drv, 200)
            run_python_points(ctx, real, 100, False)
    finally:
        if drv:
            drv.close()
    print("replay:", "oracle failures:", ctx.oracle_failures, "mismatches:", ctx.mismatches)
