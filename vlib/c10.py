"""C10 — a dictionary behaves as a finite map under any sequence of operations.

Correspondence: seeded operation histories (literal, function holding a literal, call, join
from either side, remove, find, index, size, each, alias; keys of every hashable kind, values
of every kind including dictionaries) are run as Klong source text, step by step, on the
REAL KlongInterpreter and on the Lean machine `Klong.C10` (driver kd_c10).  After every step
the result, the variable bindings and the contents of EVERY dictionary created so far are
compared, and so are Klong-level probes (`#d`, `{x}'d`, and `d?k`, `d@k`, `d@[k]` for every key
of the pool through every variable).

Oracle (needs no Lean model): a heap of plain Python dicts keyed by key identity, driven by
the same history; it decides what the property demands for every step and every probe.
"""
import json

import numpy as np

from . import common
from .common import Driver

CLAIM = dict(
    text="Lean 4 theorems over the dictionary-heap machine (heap of CPython-style association lists with Python key "
         "equality, variables and dictionary values holding references): for EVERY operation sequence the machine "
         "refines a heap of finite maps (lookup after add/overwrite/remove, other keys and other dictionaries "
         "unaffected, missing key -> :undefined, #d = number of distinct keys, each = every binding exactly once), "
         "updates through any alias are seen through all aliases, every evaluation of a literal allocates a reference "
         "nothing earlier holds and later histories are independent; model tied to klongpy by per-step correspondence "
         "of results + bindings + contents of all dictionaries + Klong-level probes on seeded histories run as Klong text.",
    note="trusted: Lean kernel (axioms propext/Classical.choice/Quot.sound), the correspondence harness and its "
         "canonicaliser, CPython's dict/hash/==, copy.deepcopy, numpy array construction of tuples. Key identity is "
         "the interpreter's own equality (1 = 1.0, 0ca = \"a\"); numeric kind of stored values is compared modulo "
         "int/integral-real (tuples pass through kg_asarray, C01's mixed-numeric class); `d@k` on a dictionary is "
         "outside the reference and only modelled as-is",
    technique="Lean 4 refinement proof (association-list heap -> heap of finite maps) + invariant, hand-written model, "
              "differential correspondence against the real interpreter and a Python-dict oracle",
    design="7/C10")

MODULES = ["Klong.Props.C10"]
THEOREMS = [
    "Klong.C10.dict_refines_map",
    "Klong.C10.reachable_inv",
    "Klong.C10.abs_step",
    "Klong.C10.out_ok",
    "Klong.C10.alias_sees_updates",
    "Klong.C10.alias_sees_removal",
    "Klong.C10.other_keys_unaffected",
    "Klong.C10.other_dicts_unaffected",
    "Klong.C10.missing_key_undefined",
    "Klong.C10.enum_length_unique",
    "Klong.C10.size_counts_distinct_keys",
    "Klong.C10.each_visits_every_pair_once",
    "Klong.C10.protos_stable",
    "Klong.C10.literal_is_fresh",
    "Klong.C10.toplevel_literal_is_fresh",
    "Klong.C10.fresh_literals_independent",
    "Klong.C10.failed_join_changes_nothing",
    "Klong.C10.set_self",
    "Klong.C10.each_selfupdate_is_identity",
    "Klong.C10.keyEq_is_key_identity",
    "Klong.C10.pinned_char_symbol_order_dependent",
    "Klong.C10.pinned_keyeq_is_no_key_identity",
]

KNOWN_CHAR_SYM = "key:stored-char-equals-symbol"
KNOWN_STRCHAR_SYM = "key:stored-string-member-char-equals-symbol"

VARS = ["da", "db", "dc", "dd"]
FNS = ["f1", "f2"]

# ----------------------------------------------------------------------------- universe
# a key / value spec is a JSON-able pair [kind, payload]; kinds i r c s y L var, and C = a CHARACTER
# PRODUCED BY INDEXING A STRING ("az"@0: klongpy.backends.numpy_backend.KGChar, the class of the members of
# a string, as opposed to the parser's klongpy.types.KGChar for 0ca) - the same key as 0ca

KEY_GROUPS = [     # keys that Python compares equal sit in one group together with near misses
    [["i", 1], ["r", 1.0], ["i", -1], ["r", 1.5]],
    [["c", "a"], ["s", "a"], ["y", "a"], ["c", "A"], ["s", "A"]],
    [["i", 0], ["r", 0.0], ["c", "0"], ["s", "0"]],
    [["s", "abc"], ["y", "abc"], ["s", ""], ["s", "hello foo"]],
    [["c", " "], ["s", " "], ["c", '"'], ["s", '"'], ["s", 'say "hi"']],
    [["i", 2], ["r", 2.0], ["r", -2.5], ["r", 0.5], ["i", -3]],
    [["y", "foo"], ["s", "foo"], ["y", "a"], ["c", "a"]],
    [["r", 1e100], ["r", 1e-07], ["i", 100], ["i", 17]],
    [["i", 3], ["i", 5], ["i", 7], ["r", 3.0]],
    # near twins: reals that are different keys bit for bit but "equal" under Klong's tolerant
    # real comparison (Match / numpy.isclose, rtol 1e-5, atol 1e-8) - a finite map keeps them apart
    [["r", 1.5], ["r", 1.500001], ["r", 1.4999999], ["i", 1]],
    [["i", 2], ["r", 2.00001], ["r", 2.0], ["r", 1.99999]],
    [["r", 0.3], ["r", 0.1 + 0.2], ["r", 0.1], ["r", 0.2]],
    [["i", 0], ["r", 1e-09], ["r", 0.0], ["r", -1e-09]],
    [["i", 100000], ["r", 100000.5], ["r", 99999.5], ["r", 100000.0]],
]
NEAR_TWIN_GROUPS = KEY_GROUPS[-5:]
# negative integer keys next to the non-negative ones a position-style reading would confuse them with
KEY_GROUPS += [
    [["i", -1], ["i", 0], ["i", 1], ["i", -2], ["i", -5]],
    [["i", -1], ["i", -2], ["i", 2], ["i", 3], ["r", -1.0]],
]
NEGATIVE_GROUPS = KEY_GROUPS[-2:]
# integer keys that a float64 cannot hold, next to real keys (a dictionary keeps them exact; anything
# that pushes a whole tuple / a whole dictionary through ONE numeric array rounds them)
B53 = 2 ** 53
KEY_GROUPS += [
    [["i", B53 + 1], ["i", B53 + 2], ["i", B53], ["r", float(B53)], ["r", 2.5]],
    [["i", 2 ** 62], ["i", 2 ** 63 - 1], ["i", -(B53 + 1)], ["r", 0.5], ["i", 2 ** 62 + 1]],
    [["i", B53 + 1], ["i", B53 + 3], ["r", -2.5], ["i", 1], ["r", 1.5]],
]
BIGINT_GROUPS = KEY_GROUPS[-3:]
# one character from its different producers (parser literal, member of a string, one-character string)
# next to the symbol spelled alike
KEY_GROUPS += [
    [["C", "a"], ["c", "a"], ["y", "a"], ["s", "a"], ["C", "A"]],
    [["C", "q"], ["y", "q"], ["s", "q"], ["c", "q"], ["C", "r"]],
    [["C", " "], ["c", " "], ["s", " "], ["C", '"'], ["c", '"']],
]
STRCHAR_GROUPS = KEY_GROUPS[-3:]


def is_big(k):
    return k[0] == "i" and abs(int(k[1])) > B53


def fit(k, v):
    """a [k v] tuple is ONE array: next to a real payload the key itself becomes a real (C01's
    mixed-numeric class, not a dictionary matter), so an integer key beyond float53 only gets
    payloads that are not real atoms; real keys / payloads sit in OTHER entries"""
    if is_big(k) and v[0] == "r":
        return ["i", 3]
    return v

VALUES = [
    ["i", 0], ["i", -3], ["i", 17], ["i", 1], ["r", 2.5], ["r", -0.5], ["r", 1e-07], ["r", 1e100],
    ["c", "x"], ["c", " "], ["c", "a"], ["s", ""], ["s", "abc"], ["s", 'say "hi"'], ["s", "a"],
    ["y", "foo"], ["y", "a"],
    ["L", []], ["L", [["i", 1], ["i", 2], ["i", 3]]], ["L", [["r", 1.5], ["r", 2.5]]],
    ["L", [["i", 1], ["r", 2.5]]], ["L", [["s", "a"], ["s", "bc"]]], ["L", [["c", "a"], ["c", "b"]]],
    ["L", [["L", [["i", 1], ["i", 2]]], ["L", [["i", 3], ["i", 4]]]]],
    ["L", [["i", 1], ["L", [["i", 2], ["s", "x"]]]]],
    ["L", [["i", 1], ["s", "a"], ["y", "b"], ["c", "x"]]],
    ["L", [["L", []], ["s", ""]]], ["L", [["L", []], ["L", [["i", 1]]]]], ["L", [["i", 7]]],
]


def _hex(s):
    return s.encode("utf-8").hex()


def _num_tok(x):
    """canonical token of a number, modulo int / integral real"""
    if isinstance(x, float):
        if x != x or x in (float("inf"), float("-inf")):
            return f"r{x}"
        if x == int(x):
            return f"i{int(x)}"
        p, q = x.as_integer_ratio()
        return f"r{p}/{q.bit_length() - 1}"
    return f"i{int(x)}"


def raw_key_tok(k):
    """the key as written (what the Lean machine receives)"""
    kind, p = k
    if kind == "i":
        return f"i{int(p)}"
    if kind == "r":
        num, den = float(p).as_integer_ratio()
        return f"r{num}/{den.bit_length() - 1}"
    return {"c": "c", "C": "c", "s": "s", "y": "y"}[kind] + _hex(p)


def nkey_tok(k):
    """key identity (what a plain Python dict would hash/compare)"""
    kind, p = k
    if kind in ("i", "r"):
        return _num_tok(float(p) if kind == "r" else int(p))
    if kind in ("c", "s", "C"):
        return "t" + _hex(p)
    return "y" + _hex(p)


def val_tok(v):
    kind, p = v
    if kind == "i":
        return _num_tok(int(p))
    if kind == "r":
        return _num_tok(float(p))
    if kind in ("c", "s", "y"):
        return kind + _hex(p)
    if kind == "L":
        return "L(" + ";".join(val_tok(x) for x in p) + ")"
    raise ValueError(kind)


def src(v, in_list):
    """Klong source text of a key / literal value"""
    kind, p = v
    if kind == "i":
        s = str(int(p))
    elif kind == "r":
        if float(p) == 0.1 + 0.2 and not in_list:
            return "(0.1+0.2)"          # a COMPUTED real key: 0.30000000000000004, not the key 0.3
        s = repr(float(p))
    elif kind == "c":
        return "0c" + p
    elif kind == "C":
        if in_list:
            return "0c" + p          # (a list literal cannot hold an expression)
        return '("' + (p + "z").replace('"', '""') + '"@0)'
    elif kind == "s":
        return '"' + p.replace('"', '""') + '"'
    elif kind == "y":
        return ":" + p
    elif kind == "L":
        return "[" + " ".join(src(x, True) for x in p) + "]"
    else:
        raise ValueError(kind)
    if s.startswith("-") and not in_list:
        return "(" + s + ")"
    return s


def lit_src(pairs):
    return ":{" + " ".join("[" + src(k, True) + " " + src(v, True) + "]" for k, v in pairs) + "}"


def klong_text(op):
    o = op["op"]
    pre = (op["into"] + "::") if op.get("into") else ""
    if o == "lit":
        return f"{op['x']}::{lit_src(op['ps'])}"
    if o == "deffn":
        if op.get("form") == "local":
            return f"{op['f']}::{{[t];t::{lit_src(op['ps'])};t}}"
        return f"{op['f']}::{{{lit_src(op['ps'])}}}"
    if o == "call":
        return f"{op['x']}::{op['f']}()"
    if o == "join":
        k, v = op["k"], op["v"]
        if op["form"] == "lit":
            tup = "[" + src(k, True) + " " + src(v, True) + "]"
        elif op["form"] == "flat":
            # the flat three-part spelling d,k,v (= d,(k,v)): Join of two ATOMS makes the tuple - only for
            # payloads that Join does not append to a string / character key (numbers and symbols)
            tup = src(k, False) + "," + src(v, False)
            return pre + (f"{op['d']},{tup}" if op["side"] == "L" else f"({tup}),{op['d']}")
        else:
            vs = v[1] if v[0] == "var" else src(v, False)
            tup = "(" + src(k, False) + ",," + vs + ")"
        return pre + (f"{op['d']},{tup}" if op["side"] == "L" else f"{tup},{op['d']}")
    if o == "remove":
        return pre + f"({src(op['k'], False)})_{op['d']}"
    if o == "find":
        return pre + f"{op['d']}?{src(op['k'], False)}"
    if o == "index":
        return pre + f"{op['d']}@{src(op['k'], False)}"
    if o == "indexmany":
        return f"{op['d']}@[" + " ".join(src(k, True) for k in op["ks"]) + "]"
    if o == "size":
        return f"#{op['d']}"
    if o == "each":
        # `rec` is a Python function the harness registers: it records the very object Each hands to f
        return ("{rec(x)}'" if op.get("form") == "lambda" else "rec'") + op["d"]
    if o == "eachupd":
        # Each with a function that overwrites the visited entry in place (same key, same value)
        return "{" + op["d"] + ",x;rec(x)}'" + op["d"]
    if o == "joinbad":
        # a malformed add: a one-element tuple (raises; must leave the dictionary as it was)
        if op.get("form") == "cat":
            return f"{op['d']},{src(op['k'], False)},[]"
        return f"{op['d']},[{src(op['k'], True)}]"
    if o == "alias":
        return f"{op['x']}::{op['d']}"
    raise ValueError(o)


def wire_line(op):
    o = op["op"]
    into = op.get("into") or ""
    if o in ("lit", "deffn"):
        ps = ",".join(raw_key_tok(k) + "~" + val_tok(v) for k, v in op["ps"])
        return (f"lit x={op['x']} ps={ps}" if o == "lit" else f"deffn f={op['f']} ps={ps}")
    if o == "call":
        return f"call x={op['x']} f={op['f']}"
    if o == "join":
        v = op["v"]
        vt = "@" + v[1] if v[0] == "var" else val_tok(v)
        return f"join side={op['side']} d={op['d']} k={raw_key_tok(op['k'])} v={vt} into={into}"
    if o in ("remove", "find", "index"):
        return f"{o} d={op['d']} k={raw_key_tok(op['k'])} into={into}"
    if o == "indexmany":
        return f"indexmany d={op['d']} ks={','.join(raw_key_tok(k) for k in op['ks'])}"
    if o in ("size", "each"):
        return f"{o} d={op['d']}"
    if o == "eachupd":
        return f"each d={op['d']}"      # the self-overwrites are the identity (each_selfupdate_is_identity)
    if o == "joinbad":
        return f"joinbad d={op['d']} k={raw_key_tok(op['k'])}"
    if o == "alias":
        return f"alias x={op['x']} d={op['d']}"
    raise ValueError(o)


# ----------------------------------------------------------------------------- reference machines

class DictStore:
    """the oracle's dictionary: a plain Python dict keyed by key identity"""

    def __init__(self):
        self.d = {}

    def get(self, k):
        return self.d.get(nkey_tok(k))

    def set(self, k, v):
        self.d[nkey_tok(k)] = v

    def delete(self, k):
        self.d.pop(nkey_tok(k), None)

    def items(self):
        return list(self.d.items())

    def copy(self):
        c = DictStore()
        c.d = dict(self.d)
        return c


UNSPEC = object()      # the property does not say what this step returns
ABSENT = "<absent: KeyError or :undefined>"   # a lookup of a key the map does not hold: any way of
#                                               saying so is fine, a VALUE is not


def agrees(want, got):
    if want is UNSPEC:
        return True
    if want is ABSENT:
        return got in ("KeyError", "U")
    return want == got


class Machine:
    """heap of dictionaries + variables + functions; `mk` makes an empty dictionary"""

    def __init__(self, mk=DictStore):
        self.mk = mk
        self.heap = []
        self.vars = {}
        self.protos = {}

    # -- helpers
    def ref_of(self, name):
        v = self.vars.get(name)
        if isinstance(v, str) and v.startswith("D") and v[1:].isdigit():
            return int(v[1:])
        return None

    def ref_vars(self):
        return [n for n in sorted(self.vars) if self.ref_of(n) is not None]

    def _lit(self, ps):
        d = self.mk()
        for k, v in ps:
            d.set(k, val_tok(v))
        return d

    def _bind(self, op, tok):
        if op.get("into"):
            self.vars[op["into"]] = tok

    def apply(self, op):
        """expected result token, UNSPEC, or None when the step is not a dictionary program"""
        o = op["op"]
        if o == "lit":
            self.heap.append(self._lit(op["ps"]))
            self.vars[op["x"]] = f"D{len(self.heap) - 1}"
            return self.vars[op["x"]]
        if o == "deffn":
            self.protos[op["f"]] = self._lit(op["ps"])
            return "fn"
        if o == "call":
            self.heap.append(self.protos[op["f"]].copy())
            self.vars[op["x"]] = f"D{len(self.heap) - 1}"
            return self.vars[op["x"]]
        if o == "alias":
            self.vars[op["x"]] = self.vars[op["d"]]
            return self.vars[op["x"]]
        r = self.ref_of(op["d"])
        d = self.heap[r]
        if o == "join":
            v = op["v"]
            d.set(op["k"], self.vars[v[1]] if v[0] == "var" else val_tok(v))
            self._bind(op, f"D{r}")
            return f"D{r}"
        if o == "remove":
            d.delete(op["k"])
            self._bind(op, f"D{r}")
            return f"D{r}"
        if o == "find":
            v = d.get(op["k"])
            if v is not None:
                self._bind(op, v)
            return "U" if v is None else v
        if o == "index":
            # `d@k` on a dictionary is not defined by the reference: only "an integer key that is
            # present yields its value" is taken from the map reading; the rest is adopted
            # (an integer key that is absent must not yield a value)
            if op["k"][0] == "i":
                if d.get(op["k"]) is not None:
                    self._bind(op, d.get(op["k"]))
                    return d.get(op["k"])
                return ABSENT
            return UNSPEC
        if o == "indexmany":
            vs = [d.get(k) for k in op["ks"]]
            if all(v is not None for v in vs):
                return "L(" + ";".join(vs) + ")"
            return ABSENT
        if o == "joinbad":
            return UNSPEC          # whatever it raises / returns, no dictionary may change
        if o == "size":
            return f"n{len(d.items())}"
        if o in ("each", "eachupd"):
            it = d.items()
            return f"P{len(it)}:" + ";".join(sorted(f"{k}~{v}" for k, v in it))
        raise ValueError(o)

    def adopt(self, op, obs):
        """an unspecified step bound a variable: take over what the implementation bound"""
        if op.get("into") and obs is not None and not obs.startswith("raises") and obs not in ("KeyError", "IndexError"):
            self.vars[op["into"]] = obs

    def digest(self):
        vs = ";".join(f"{n}>{self.vars[n]}" for n in sorted(self.vars))
        hs = "".join("{" + ";".join(sorted(f"{k}~{v}" for k, v in d.items())) + "}" for d in self.heap)
        return f"vars:{vs}|heap:{hs}"

    def probe(self, name, what, key=None):
        d = self.heap[self.ref_of(name)]
        if what == "size":
            return f"n{len(d.items())}"
        if what == "each":
            it = d.items()
            return f"P{len(it)}:" + ";".join(sorted(f"{k}~{v}" for k, v in it))
        if what == "eachfind":
            vs = [v for _, v in d.items()]
            return f"V{len(vs)}:" + ";".join(sorted(vs))
        v = d.get(key)
        if what == "index":       # d@k
            if key[0] != "i":
                return UNSPEC
            return ABSENT if v is None else v
        if what == "index1":      # d@[k]
            return ABSENT if v is None else f"L({v})"
        return "U" if v is None else v


# ----------------------------------------------------------------------------- the real interpreter

class Real:
    def __init__(self, module=False):
        from klongpy import KlongInterpreter
        import klongpy.core as core
        self.core = core
        self.klong = KlongInterpreter()
        self.ids = {}
        self.objs = []          # keeps every dictionary alive, so ids are never reused
        self.log = []           # what Each handed to f, call by call

        def rec(x):
            self.log.append(x)
            return 0

        self.klong["rec"] = rec
        # module variant: the same program between .module(:m) and the end; every symbol written in the
        # module (keys, payloads, probes) is read as `name`m - one uniform renaming, stripped again here
        self.sfx = "`m" if module else ""
        if module:
            self.klong(".module(:m)")

    def sym(self, v):
        t = str(v)
        if self.sfx and t.endswith(self.sfx):
            # (a symbol read WITHOUT the qualifier prints the same here; it is the Klong-level probes
            #  d?:name, #d, Each that tell it from the module's symbol)
            t = t[:-len(self.sfx)]
        return "y" + _hex(t)

    def each(self, text):
        """run an Each whose function records its argument; the observation is the tuples f RECEIVED
        (the result list is assembled by kg_asarray afterwards, which is not the dictionary's business)"""
        self.log = []
        res = self.ev(text)
        try:
            n = len(res)
        except TypeError:
            n = -1
        if n != len(self.log):
            return f"calls{len(self.log)}/results{n}"
        return self.canon_pairs(self.log)

    def eachfind(self, name):
        """{d?x@0}'d: every visited key, looked up inside f, must find its own payload"""
        res = self.ev("{" + name + "?x@0}'" + name)
        try:
            items = [self.canon(x) for x in res]
        except TypeError:
            return self.canon(res)
        return f"V{len(items)}:" + ";".join(sorted(items))

    def register(self, obj):
        if isinstance(obj, dict) and id(obj) not in self.ids:
            self.ids[id(obj)] = len(self.objs)
            self.objs.append(obj)

    def ev(self, text):
        return self.klong(text)

    def canon(self, v):
        core = self.core
        if isinstance(v, dict):
            r = self.ids.get(id(v))
            return f"D{r}" if r is not None else "D?"
        if v is core.KLONG_UNDEFINED or type(v).__name__ == "KGUndefined":
            return "U"
        if isinstance(v, core.KGSym):
            return self.sym(v)
        if isinstance(v, core.KGChar):
            return "c" + _hex(str(v))
        if isinstance(v, str):
            return "s" + _hex(str(v))
        if isinstance(v, (bool, np.bool_, int, np.integer)):
            return _num_tok(int(v))
        if isinstance(v, (float, np.floating)):
            return _num_tok(float(v))
        if isinstance(v, np.ndarray):
            if v.ndim == 0:
                return self.canon(v.item())
            return "L(" + ";".join(self.canon(x) for x in v) + ")"
        if isinstance(v, (list, tuple)):
            return "L(" + ";".join(self.canon(x) for x in v) + ")"
        if isinstance(v, (core.KGFn, core.KGLambda)) or callable(v):
            return "fn"
        if type(v).__module__.startswith("torch"):
            return self.canon(v.detach().cpu().numpy())
        return "?" + type(v).__name__

    def nkey(self, k):
        core = self.core
        if isinstance(k, core.KGSym):
            return self.sym(k)
        if isinstance(k, str):
            return "t" + _hex(str(k))
        if isinstance(k, (bool, np.bool_, int, np.integer)):
            return _num_tok(int(k))
        if isinstance(k, (float, np.floating)):
            return _num_tok(float(k))
        return "?" + type(k).__name__

    def canon_pairs(self, res):
        """result of {x}'d: one [key value] per application"""
        try:
            rows = list(res)
            items = []
            for row in rows:
                if len(row) != 2:
                    return self.canon(res)
                items.append(f"{self.nkey(row[0])}~{self.canon(row[1])}")
            return f"P{len(rows)}:" + ";".join(sorted(items))
        except Exception:  # noqa
            return self.canon(res)

    def digest(self, names):
        vs = []
        for n in sorted(names):
            try:
                vs.append(f"{n}>{self.canon(self.klong[n])}")
            except KeyError:
                vs.append(f"{n}>?")
        hs = "".join("{" + ";".join(sorted(f"{self.nkey(k)}~{self.canon(v)}" for k, v in d.items())) + "}"
                     for d in self.objs)
        return "vars:" + ";".join(vs) + "|heap:" + hs

    def run_op(self, op):
        text = klong_text(op)
        try:
            if op["op"] in ("each", "eachupd"):
                return self.each(text)
            res = self.ev(text)
        except KeyError:
            return "KeyError"
        except IndexError:
            return "IndexError"
        except Exception as e:  # noqa
            return f"raises:{type(e).__name__}"
        if op["op"] in ("lit", "call"):
            self.register(res)
        if op["op"] == "size":
            return self._size(res)
        return self.canon(res)

    def _size(self, res):
        c = self.canon(res)
        return "n" + c[1:] if c.startswith("i") else c

    def probe(self, name, what, key=None):
        try:
            if what == "size":
                return self._size(self.ev(f"#{name}"))
            if what == "each":
                return self.each("rec'" + name)
            if what == "eachfind":
                return self.eachfind(name)
            if what == "index":
                return self.canon(self.ev(f"{name}@{src(key, False)}"))
            if what == "index1":
                return self.canon(self.ev(f"{name}@[{src(key, True)}]"))
            return self.canon(self.ev(f"{name}?{src(key, False)}"))
        except KeyError:
            return "KeyError"
        except Exception as e:  # noqa
            return f"raises:{type(e).__name__}"


# ----------------------------------------------------------------------------- generation

def make_pool(rng):
    groups = rng.sample(KEY_GROUPS, 2)
    u = rng.random()
    if u < 0.25:
        groups[0] = rng.choice(NEAR_TWIN_GROUPS)
    elif u < 0.45:
        groups[0] = rng.choice(NEGATIVE_GROUPS)
    elif u < 0.65:
        groups[0] = rng.choice(BIGINT_GROUPS)
    elif u < 0.85:
        groups[0] = rng.choice(STRCHAR_GROUPS)
    pool = []
    for g in groups:
        pool += rng.sample(g, min(len(g), 3))
    extra = rng.choice(KEY_GROUPS)
    pool.append(rng.choice(extra))
    out = []
    for k in pool:
        if k not in out:
            out.append(k)
    return out


def gen_pairs(rng, pool, n):
    out = []
    for _ in range(n):
        k = rng.choice(pool)
        out.append([k, fit(k, rng.choice(VALUES))])
    return out


def gen_op(rng, st, pool, done=()):
    """next operation, given the oracle's view of which variables hold dictionaries"""
    refs = st.ref_vars()
    if not refs:
        return dict(op="lit", x=rng.choice(VARS), ps=gen_pairs(rng, pool, rng.randrange(0, 4)))
    d = rng.choice(refs)
    k = rng.choice(pool)
    r = rng.random()
    if r < 0.08:
        earlier = [o for o in done if o["op"] == "lit"]
        if earlier and rng.random() < 0.6:
            # the BYTE-IDENTICAL top-level statement again (parse-cache hit in the interpreter):
            # it must still yield a fresh dictionary, whatever happened to the one it produced before
            return json.loads(json.dumps(rng.choice(earlier)))
        return dict(op="lit", x=rng.choice(VARS), ps=gen_pairs(rng, pool, rng.randrange(0, 5)))
    if r < 0.11 or (r < 0.24 and not st.protos):
        return dict(op="deffn", f=rng.choice(FNS), form=rng.choice(["plain", "local"]),
                    ps=gen_pairs(rng, pool, rng.randrange(0, 4)))
    if r < 0.24:
        return dict(op="call", x=rng.choice(VARS), f=rng.choice(sorted(st.protos)))
    if r < 0.50:
        into = rng.choice(VARS) if rng.random() < 0.15 else None
        side = rng.choice(["L", "R"])
        if rng.random() < 0.15:
            return dict(op="join", side=side, form="cat", d=d, k=k, v=["var", rng.choice(refs)], into=into)
        v = fit(k, rng.choice(VALUES))
        # `,0cx` is the string "x", so the computed tuple k,,v is only used for non-character values
        form = "lit" if v[0] == "c" else rng.choice(["lit", "cat"])
        if v[0] in ("i", "r", "y") and rng.random() < 0.35:
            form = "flat"
        return dict(op="join", side=side, form=form, d=d, k=k, v=v, into=into)
    if r < 0.60:
        return dict(op="remove", d=d, k=k, into=rng.choice(VARS) if rng.random() < 0.1 else None)
    if r < 0.77:
        v = st.heap[st.ref_of(d)].get(k)
        into = None
        if v is not None and v.startswith("D") and rng.random() < 0.5:
            into = rng.choice(VARS)
        return dict(op="find", d=d, k=k, into=into)
    if r < 0.82:
        v = st.heap[st.ref_of(d)].get(k)
        into = None
        aliasing = k[0] != "i" or (v is not None and v.startswith("D"))
        if aliasing and rng.random() < 0.3:
            into = rng.choice(VARS)
        return dict(op="index", d=d, k=k, into=into)
    if r < 0.85:
        ks = [rng.choice(pool) for _ in range(rng.randrange(0, 4))]
        if any(is_big(x) for x in ks):      # the list literal [k1 k2] is one array: keep it all-integer
            ks = [x for x in ks if x[0] == "i"]
        return dict(op="indexmany", d=d, ks=ks)
    if r < 0.89:
        return dict(op="size", d=d)
    if r < 0.92:
        return dict(op="each", d=d, form=rng.choice(["verb", "lambda"]))
    if r < 0.94:
        return dict(op="eachupd", d=d)
    if r < 0.97:
        return dict(op="joinbad", d=d, k=k, form=rng.choice(["lit", "lit", "cat"]))
    return dict(op="alias", x=rng.choice(VARS), d=d)


def keys_of(op):
    ks = []
    if "k" in op:
        ks.append(op["k"])
    ks += op.get("ks", [])
    ks += [p[0] for p in op.get("ps", [])]
    return ks


# ----------------------------------------------------------------------------- one history

def _fail_key(op, what):
    return f"{op['op']}:{what}"


class _Quiet:
    """context stub for the re-run that classifies a failure (records, reports nothing)"""

    def __init__(self, rng=None):
        self.failed = []
        self.rng = rng

    def oracle_fail(self, key, *a, **k):
        self.failed.append(key)

    def mismatch(self, *a, **k):
        pass

    def bump(self, *a, **k):
        pass

    def count(self, *a, **k):
        pass

    def sample(self, *a, **k):
        pass


def colliding_texts(ops, pool):
    ks = [k for op in ops for k in keys_of(op)] + list(pool)
    return {k[1] for k in ks if k[0] in ("c", "C")} & {k[1] for k in ks if k[0] == "y"}


def strchar_texts(ops, pool):
    ks = [k for op in ops for k in keys_of(op)] + list(pool)
    return {k[1] for k in ks if k[0] == "C"} & {k[1] for k in ks if k[0] == "y"}


def rename_apart(ops, pool, texts):
    """the same history with every symbol KEY whose text is also a character key renamed"""
    def rk(k):
        return ["y", k[1] + "zq"] if k[0] == "y" and k[1] in texts else k

    out = []
    for op in ops:
        o = dict(op)
        if "k" in o:
            o["k"] = rk(o["k"])
        if "ks" in o:
            o["ks"] = [rk(k) for k in o["ks"]]
        if "ps" in o:
            o["ps"] = [[rk(p[0]), p[1]] for p in o["ps"]]
        out.append(o)
    return out, [rk(k) for k in pool]


def vanishes_when_renamed(ops, pool, module=False):
    """is the failure due to a character key meeting the symbol with the same text?  It is iff the
    same history, with those symbols renamed apart, satisfies the oracle on the real code.  (The
    pinned comparison is asymmetric, so which of two matching entries CPython meets first depends
    on the hash table layout; an exact simulation is not possible, this re-run is.)"""
    texts = colliding_texts(ops, pool)
    if not texts:
        return False
    ops2, pool2 = rename_apart(ops, pool, texts)
    q = _Quiet()
    run_history(q, None, "renamed", ops=ops2, pool=pool2, classify=False, module=module)
    return not q.failed


def run_history(ctx, drv, label, ops=None, pool=None, length=0, classify=True, record=None, module=False):
    """one history on the real interpreter, the Lean machine and the dict oracle.
    `ops` given: replay that list; otherwise generate `length` steps from ctx.rng."""
    try:
        real = Real(module=module)
    except Exception as e:  # noqa
        ctx.oracle_fail("module:raises-" + type(e).__name__, dict(kind="history", program=[".module(:m)"]),
                        "a module can be opened", repr(e), "")
        return
    oracle = Machine()
    fixed = ops is not None
    done = []
    outs = []
    if pool is None:
        pool = []
        for op in ops or []:
            for k in keys_of(op):
                if k not in pool:
                    pool.append(k)
    if drv:
        drv.ask("reset")
    n = len(ops) if fixed else length

    def case():
        return dict(kind="history", label=label, pool=pool, ops=list(done), module=module,
                    program=([".module(:m)"] if module else []) + [klong_text(o) for o in done])

    def fail(key, expected, observed, what):
        """property failure on the real code; classified as the recorded finding when it vanishes
        once the symbols that share their text with a character key are renamed apart"""
        if classify and vanishes_when_renamed(done, pool, module):
            key = KNOWN_STRCHAR_SYM if strchar_texts(done, pool) else KNOWN_CHAR_SYM
            what = "a stored character key compares equal to a probing symbol with the same text (not vice versa)"
        ctx.oracle_fail(key, case(), expected, observed, what)
        ctx.bump("oracle-failure:" + key)

    for i in range(n):
        op = ops[i] if fixed else gen_op(ctx.rng, oracle, pool, done)
        done.append(op)
        try:
            exp = oracle.apply(op)
        except (KeyError, TypeError, IndexError):
            ctx.bump("replay:not-a-dictionary-program")
            return
        obs = real.run_op(op)
        if exp is UNSPEC:
            oracle.adopt(op, obs)
        outs.append(obs)
        dig = real.digest(oracle.vars)
        probes = []
        for name in oracle.ref_vars():
            probes.append(((name, "size", None), real.probe(name, "size")))
            probes.append(((name, "each", None), real.probe(name, "each")))
            probes.append(((name, "eachfind", None), real.probe(name, "eachfind")))
            for k in pool:
                # every key through every lookup entry point: d?k, d@k, d@[k]
                for what in ("find", "index", "index1"):
                    probes.append(((name, what, k), real.probe(name, what, k)))
        ctx.bump("op:" + op["op"])
        for k in keys_of(op):
            ctx.bump("keykind:" + k[0])

        # ---- the property's oracle (no Lean model involved)
        bad = False
        if not agrees(exp, obs):
            if exp is ABSENT:
                what = "missing-key-yields-a-value"
            elif obs.startswith("raises"):
                what = obs.replace("raises:", "raises-")
            elif op["op"] in ("lit", "call"):
                what = "literal-not-fresh"
            elif op["op"] in ("join", "remove", "alias"):
                what = "result-not-the-same-dictionary"
            elif op["op"] == "find":
                what = "missing-key-not-undefined" if exp == "U" else "wrong-value"
            elif op["op"] == "size":
                what = "not-number-of-distinct-keys"
            elif op["op"] in ("each", "eachupd"):
                what = "not-every-pair-once"
            else:
                what = "wrong-value"
            fail(_fail_key(op, what), exp, obs, f"step {i}: {klong_text(op)}")
            bad = True
        elif oracle.digest() != dig:
            fail(_fail_key(op, "state-differs"), oracle.digest(), dig,
                 f"after step {i}: {klong_text(op)} — bindings / contents of all dictionaries")
            bad = True
        else:
            for (name, what, key), got in probes:
                want = oracle.probe(name, what, key)
                if not agrees(want, got):
                    cls = {"size": "size-not-number-of-distinct-keys", "each": "each-not-every-pair-once",
                           "eachfind": "each-visited-key-not-found-in-f",
                           "find": "lookup-after-history", "index": "index-after-history",
                           "index1": "index-list-after-history"}[what]
                    text = {"size": f"#{name}", "each": "rec'" + name,
                            "eachfind": "{" + name + "?x@0}'" + name}.get(what) or {
                        "find": f"{name}?{src(key, False)}", "index": f"{name}@{src(key, False)}",
                        "index1": f"{name}@[{src(key, True)}]"}[what]
                    fail(_fail_key(op, "probe:" + cls), want, got, f"after step {i}: {klong_text(op)}; probe {text}")
                    bad = True
                    break
        if bad:
            return

        # ---- correspondence with the Lean machine
        if drv:
            m = drv.ask(wire_line(op))
            impl = f"out={obs} state={dig}"
            if m != impl:
                ctx.mismatch(f"Klong.C10.step vs klongpy ({op['op']})", case(), m, impl)
                ctx.bump("mismatch:" + op["op"])
                return
            lines = []
            mprobes = [pr for pr in probes if pr[0][1] != "eachfind"]     # (oracle-only probe)
            for (name, what, key), got in mprobes:
                if what in ("find", "index"):
                    lines.append(f"{what} d={name} k={raw_key_tok(key)} into=")
                elif what == "index1":
                    lines.append(f"indexmany d={name} ks={raw_key_tok(key)}")
                else:
                    lines.append(f"{what} d={name}")
            if lines:
                replies = drv.ask_many(lines)
                for ((name, what, key), got), rep in zip(mprobes, replies):
                    if rep != f"out={got} state={dig}":
                        ctx.mismatch(f"Klong.C10.step vs klongpy (probe {what})", case(), rep,
                                     f"out={got} state={dig}")
                        return
        b = {"U": "out:undefined", "KeyError": "out:keyerror"}.get(obs)
        if b:
            ctx.bump(b)
    ctx.bump("dictionaries-created", len(real.objs))
    if record is not None and len(record) < 4 and len(done) >= 4:
        record.append((list(done), list(outs)))
    ctx.count((label, json.dumps(done, sort_keys=True)), nontrivial=len(done) >= 2)
    ctx.sample(dict(kind=label, program=[klong_text(o) for o in done][:10]))


# ----------------------------------------------------------------------------- kernel replay

def _lq(s):
    assert '"' not in s and "\\" not in s
    return '"' + s + '"'


def lean_key(k):
    kind, p = k
    if kind == "i":
        return f"(.int ({int(p)}))"
    if kind == "r":
        num, den = float(p).as_integer_ratio()
        return f"(.real ({num}) {den.bit_length() - 1})"
    return f"(.{ {'c': 'chr', 'C': 'chr', 's': 'str', 'y': 'sym'}[kind] } {_lq(_hex(p))})"


def _lean_into(op):
    return f"(some {_lq(op['into'])})" if op.get("into") else "none"


def lean_op(op):
    o = op["op"]
    if o in ("lit", "deffn"):
        ps = ", ".join(f"({lean_key(k)}, {_lq(val_tok(v))})" for k, v in op["ps"])
        return f".{o} {_lq(op['x'] if o == 'lit' else op['f'])} [{ps}]"
    if o == "call":
        return f".call {_lq(op['x'])} {_lq(op['f'])}"
    if o == "join":
        v = op["v"]
        a = f"(.var {_lq(v[1])})" if v[0] == "var" else f"(.data {_lq(val_tok(v))})"
        return f".join {'true' if op['side'] == 'L' else 'false'} {_lq(op['d'])} {lean_key(op['k'])} {a} {_lean_into(op)}"
    if o in ("remove", "find", "index"):
        return f".{o} {_lq(op['d'])} {lean_key(op['k'])} {_lean_into(op)}"
    if o == "indexmany":
        return f".indexMany {_lq(op['d'])} [{', '.join(lean_key(k) for k in op['ks'])}]"
    if o in ("size", "each"):
        return f".{o} {_lq(op['d'])}"
    if o == "eachupd":
        return f".each {_lq(op['d'])}"
    if o == "joinbad":
        return f".joinBad {_lq(op['d'])} {lean_key(op['k'])}"
    if o == "alias":
        return f".alias {_lq(op['x'])} {_lq(op['d'])}"
    raise ValueError(o)


def _split_top(s):
    out, depth, cur = [], 0, ""
    for ch in s:
        if ch == "(":
            depth += 1
        elif ch == ")":
            depth -= 1
        if ch == ";" and depth == 0:
            out.append(cur)
            cur = ""
        else:
            cur += ch
    if cur or out:
        out.append(cur)
    return out


def _lean_val(tok):
    if tok.startswith("D") and tok[1:].isdigit():
        return f"(.ref {tok[1:]})"
    return f"(.data {_lq(tok)})"


def lean_out(op, tok):
    """the real interpreter's result as a `Klong.C10.Out` term (Each: number of applications)"""
    o = op["op"]
    if tok == "KeyError":
        return ".keyError"
    if tok == "IndexError":
        return ".indexError"
    if o == "deffn":
        return ".fn" if tok == "fn" else None
    if o == "size":
        return f".num {tok[1:]}" if tok.startswith("n") else None
    if o in ("each", "eachupd"):
        return f".num {tok[1:].split(':')[0]}" if tok.startswith("P") else None
    if o == "indexmany":
        if not (tok.startswith("L(") and tok.endswith(")")):
            return None
        return ".vals [" + ", ".join(_lean_val(t) for t in _split_top(tok[2:-1])) + "]"
    if tok == "U":
        return ".undef"
    if tok.startswith("raises") or tok.startswith("?"):
        return None
    return f".val {_lean_val(tok)}"


def kernel_replay(ctx, recorded):
    """per-run obligation: Lean's KERNEL (not the compiled driver) evaluates `Klong.C10.run` on
    histories recorded from the real interpreter and must get the interpreter's results"""
    if not recorded:
        return
    src_lines = ["import Klong.Model.C10", "open Klong.C10",
                 "def projOut : Out → Out | .pairs ps => .num ps.length | o => o"]
    n = 0
    for ops, outs in recorded:
        terms = [lean_out(o, t) for o, t in zip(ops, outs)]
        if any(t is None for t in terms):
            continue
        n += 1
        src_lines.append("example : (run init [" + ", ".join(lean_op(o) for o in ops) + "]).2.map projOut = ["
                         + ", ".join(terms) + "] := by decide +kernel")
    if n == 0:
        return
    ok, out = common.lean_run("\n".join(src_lines) + "\n", timeout=600)
    ctx.obligation(f"kernel evaluation of Klong.C10.run on {n} histories recorded from the real interpreter", ok,
                   out[-800:])
    ctx.extra["kernel_replayed_histories"] = n


# ----------------------------------------------------------------------------- payload independence

PAYLOAD_LITERALS = [      # (literal text, key text) - list payloads klongpy keeps as Python objects in the parse
    (':{[:log [1 2 3]] [:n 0]}', ':log'),
    (':{[1 [[1 2] [3 4]]] [2 "s"]}', '1'),
    (':{["k" [1 [2 "x"]]] [0ca ["a" "bc"]]}', '"k"'),
    (':{[2.5 [[] [1]]] [:e []]}', '2.5'),
]


def _push(x, y):
    """what a Python host function does: update the payload it is handed IN PLACE"""
    if isinstance(x, list):
        x.append(int(y))
    elif isinstance(x, np.ndarray) and x.size:
        x.flat[0] = y
    return 0


def _dict_tok(real, d):
    if not isinstance(d, dict):
        return real.canon(d)
    return "{" + ";".join(sorted(f"{real.nkey(k)}~{real.canon(v)}" for k, v in d.items())) + "}"


def _shares(a, b, depth=0):
    """do two payloads share a mutable object (list / array / dict) at any depth?"""
    mut = (list, np.ndarray, dict)
    if isinstance(a, mut) and a is b:
        return True
    if depth > 6:
        return False
    if isinstance(a, dict) and isinstance(b, dict):
        return any(_shares(a[k], b[k], depth + 1) for k in a if k in b)
    if isinstance(a, (list, np.ndarray)) and isinstance(b, (list, np.ndarray)) and len(a) == len(b):
        if isinstance(a, np.ndarray) and a.dtype != object:
            return False
        return any(_shares(x, y, depth + 1) for x, y in zip(a, b))
    return False


def run_payload_family(ctx):
    """every evaluation of a literal is independent of all earlier ones INCLUDING its list payloads:
    literal x {top-level text twice, function body, local-variable function body}; the first instance's
    payload is updated in place from Python (through an interop function called from Klong, and through
    the object the host got back), then the literal is evaluated again."""
    for lit, key in PAYLOAD_LITERALS:
        for ctxname, define, make in (
                ("top-level", None, lambda v: f"{v}::{lit}"),
                ("function", f"mk::{{{lit}}}", lambda v: f"{v}::mk()"),
                ("local", f"mk::{{[t];t::{lit};t}}", lambda v: f"{v}::mk()")):
            program = []
            case = dict(kind="payload-family", literal=lit, context=ctxname, program=program)
            try:
                fresh = Real()
                want = _dict_tok(fresh, fresh.ev(lit))          # the literal's value in a fresh interpreter
                real = Real()
                real.klong["push"] = _push

                def ev(t):
                    program.append(t)
                    return real.ev(t)

                if define:
                    ev(define)
                # the same source text for the top-level context (parse-cache hit), same function otherwise
                a = ev(make("da"))
                ev(f"push(da?{key};99)")                         # in place, through an interop function
                b = ev(make("db") if define else make("da"))
                got_b = _dict_tok(real, b)
                shared = isinstance(a, dict) and isinstance(b, dict) and _shares(a, b)
                hb = real.klong["db" if define else "da"]       # the host's handle on the second instance
                if isinstance(hb, dict):
                    for v in hb.values():
                        _push(v, 7)                              # in place, by the host itself
                    program.append("<host: in-place update of every list payload of the second instance>")
                c = ev(make("dc") if define else make("da"))
                got_c = _dict_tok(real, c)
                got_text = _dict_tok(real, ev(lit))
                ctx.bump("payload-family:" + ctxname)
                ctx.count(("payload-family", lit, ctxname))
                if got_b != want:
                    ctx.oracle_fail("literal:payload-shared-between-evaluations", case, want, got_b,
                                    "second evaluation after an in-place update (interop function) of the first "
                                    "instance's payload")
                elif got_c != want or got_text != want:
                    ctx.oracle_fail("literal:payload-shared-between-evaluations", case, want,
                                    got_c if got_c != want else got_text,
                                    "evaluation after the host updated the second instance's payloads in place")
                elif shared:
                    ctx.oracle_fail("literal:payload-object-shared", case, "distinct payload objects",
                                    "two instances hold the same list object", "")
            except Exception as e:  # noqa
                ctx.oracle_fail("literal:payload-family-raises-" + type(e).__name__, case, "evaluates", repr(e), "")


# ----------------------------------------------------------------------------- entry

WITNESS_CHAR_SYM = [
    dict(op="lit", x="da", ps=[]),
    dict(op="join", side="L", form="lit", d="da", k=["c", "a"], v=["i", 1], into=None),
    dict(op="join", side="L", form="cat", d="da", k=["y", "a"], v=["i", 2], into=None),
    dict(op="size", d="da"),
]

WITNESS_STRCHAR_SYM = [
    dict(op="lit", x="da", ps=[]),
    dict(op="join", side="L", form="cat", d="da", k=["C", "a"], v=["i", 1], into=None),
    dict(op="find", d="da", k=["y", "a"], into=None),
    dict(op="join", side="L", form="cat", d="da", k=["y", "a"], v=["i", 2], into=None),
    dict(op="size", d="da"),
]

# run inside .module(:m): dictionary literals with SYMBOL keys / payloads, at top level and in functions
MODULE_HISTORIES = [
    [dict(op="lit", x="da", ps=[[["y", "tri"], ["i", 3]], [["y", "quad"], ["y", "four"]], [["s", "a"], ["i", 1]]]),
     dict(op="find", d="da", k=["y", "tri"], into=None),
     dict(op="join", side="L", form="flat", d="da", k=["y", "tri"], v=["i", 30], into=None),
     dict(op="size", d="da"),
     dict(op="remove", d="da", k=["y", "tri"], into=None),
     dict(op="find", d="da", k=["y", "quad"], into=None),
     dict(op="deffn", f="f1", form="local", ps=[[["y", "a"], ["i", 1]]]),
     dict(op="call", x="db", f="f1"),
     dict(op="join", side="L", form="cat", d="db", k=["y", "a"], v=["i", 5], into=None),
     dict(op="size", d="db"),
     dict(op="call", x="dc", f="f1"),
     dict(op="find", d="dc", k=["y", "a"], into=None),
     dict(op="deffn", f="f2", form="plain", ps=[[["c", "k"], ["y", "v"]], [["y", "k"], ["y", "k"]]]),
     dict(op="call", x="dd", f="f2"),
     dict(op="join", side="R", form="flat", d="dd", k=["s", "status"], v=["y", "ok"], into=None),
     dict(op="each", d="dd", form="verb")],
]

BUILTIN_HISTORIES = [
    # round 7: the flat spelling d,k,v / (k,v),d with a STRING or CHARACTER key and a SYMBOL (or numeric) payload
    [dict(op="lit", x="da", ps=[]),
     dict(op="join", side="L", form="flat", d="da", k=["s", "status"], v=["y", "ok"], into=None),
     dict(op="find", d="da", k=["s", "status"], into=None),
     dict(op="join", side="L", form="flat", d="da", k=["c", "x"], v=["y", "unknown"], into=None),
     dict(op="find", d="da", k=["c", "x"], into=None),
     dict(op="join", side="R", form="flat", d="da", k=["s", "mode"], v=["y", "fast"], into=None),
     dict(op="find", d="da", k=["s", "mode"], into=None),
     dict(op="join", side="L", form="flat", d="da", k=["s", "status"], v=["y", "done"], into="db"),
     dict(op="size", d="db"),
     dict(op="join", side="R", form="flat", d="db", k=["C", "a"], v=["y", "a"], into=None),
     dict(op="join", side="L", form="flat", d="da", k=["s", ""], v=["y", "e"], into=None),
     dict(op="join", side="L", form="flat", d="da", k=["s", "n"], v=["i", -3], into=None),
     dict(op="join", side="R", form="flat", d="da", k=["c", " "], v=["r", 2.5], into=None),
     dict(op="each", d="da", form="lambda")],
    # round 5: an add FROM THE LEFT of a key spelled like an existing key of ANOTHER textual kind (and of
    # the same kind) must leave the other key alone and must update the dictionary itself
    [dict(op="lit", x="da", ps=[]),
     dict(op="alias", x="db", d="da"),
     dict(op="join", side="L", form="lit", d="da", k=["s", "a"], v=["i", 1], into=None),
     dict(op="join", side="R", form="lit", d="da", k=["y", "a"], v=["i", 100], into=None),
     dict(op="find", d="db", k=["s", "a"], into=None),
     dict(op="size", d="db"),
     dict(op="join", side="L", form="lit", d="da", k=["y", "q"], v=["i", 2], into=None),
     dict(op="join", side="R", form="lit", d="db", k=["s", "q"], v=["i", 3], into=None),
     dict(op="join", side="R", form="lit", d="db", k=["c", "q"], v=["i", 4], into=None),
     dict(op="join", side="R", form="cat", d="da", k=["s", "abc"], v=["s", "x"], into=None),
     dict(op="join", side="R", form="lit", d="da", k=["y", "abc"], v=["i", 5], into="dc"),
     dict(op="join", side="R", form="lit", d="dc", k=["i", 2], v=["i", 20], into=None),
     dict(op="join", side="R", form="lit", d="dc", k=["r", 2.0], v=["i", 21], into=None),
     dict(op="each", d="da", form="verb")],
    # round 5: ONE character from its different producers is ONE key: parser literal 0ca, member of a
    # string ("az"@0), one-character string "a"
    [dict(op="lit", x="da", ps=[[["c", "a"], ["i", 1]], [["c", "b"], ["i", 2]]]),
     dict(op="find", d="da", k=["C", "a"], into=None),
     dict(op="join", side="L", form="cat", d="da", k=["C", "b"], v=["i", 20], into=None),
     dict(op="size", d="da"),
     dict(op="find", d="da", k=["c", "b"], into=None),
     dict(op="remove", d="da", k=["C", "a"], into=None),
     dict(op="find", d="da", k=["c", "a"], into=None),
     dict(op="join", side="R", form="cat", d="da", k=["C", "k"], v=["i", 7], into=None),
     dict(op="find", d="da", k=["c", "k"], into=None),
     dict(op="find", d="da", k=["s", "k"], into=None),
     dict(op="join", side="L", form="lit", d="da", k=["c", "k"], v=["i", 8], into=None),
     dict(op="join", side="L", form="lit", d="da", k=["s", "k"], v=["i", 9], into=None),
     dict(op="size", d="da"),
     dict(op="each", d="da", form="lambda")],
    # alias, update through the alias, overwrite after remove
    [dict(op="lit", x="da", ps=[[["i", 1], ["i", 2]], [["s", "a"], ["s", "abc"]]]),
     dict(op="alias", x="db", d="da"),
     dict(op="join", side="R", form="lit", d="db", k=["r", 1.0], v=["L", [["i", 1], ["i", 2]]], into=None),
     dict(op="find", d="da", k=["i", 1], into=None),
     dict(op="remove", d="da", k=["c", "a"], into="dc"),
     dict(op="find", d="db", k=["s", "a"], into=None),
     dict(op="join", side="L", form="cat", d="dc", k=["s", "a"], v=["y", "foo"], into=None),
     dict(op="each", d="db")],
    # the literal inside a function called twice; same top-level text evaluated twice
    [dict(op="deffn", f="f1", form="plain", ps=[[["i", 1], ["i", 2]]]),
     dict(op="call", x="da", f="f1"),
     dict(op="call", x="db", f="f1"),
     dict(op="join", side="L", form="lit", d="da", k=["i", 3], v=["i", 4], into=None),
     dict(op="size", d="db"),
     dict(op="call", x="dc", f="f1"),
     dict(op="each", d="dc"),
     dict(op="lit", x="dd", ps=[[["y", "a"], ["i", 1]]]),
     dict(op="join", side="L", form="lit", d="dd", k=["y", "b"], v=["i", 1], into=None),
     dict(op="lit", x="da", ps=[[["y", "a"], ["i", 1]]]),
     dict(op="size", d="da")],
    # the byte-identical top-level literal statement evaluated again after its first result was
    # aliased and updated (the interpreter caches the parse of a source string)
    [dict(op="lit", x="da", ps=[[["i", 1], ["i", 10]]]),
     dict(op="alias", x="db", d="da"),
     dict(op="join", side="L", form="lit", d="da", k=["i", 2], v=["i", 20], into=None),
     dict(op="lit", x="da", ps=[[["i", 1], ["i", 10]]]),
     dict(op="size", d="da"),
     dict(op="join", side="L", form="lit", d="da", k=["i", 3], v=["i", 30], into=None),
     dict(op="find", d="db", k=["i", 3], into=None),
     dict(op="remove", d="db", k=["i", 1], into=None),
     dict(op="find", d="da", k=["i", 1], into=None),
     dict(op="lit", x="dc", ps=[]),
     dict(op="join", side="R", form="lit", d="dc", k=["s", "k"], v=["i", 1], into=None),
     dict(op="lit", x="dc", ps=[]),
     dict(op="size", d="dc")],
    # near-twin real keys: different keys for join / remove / size / each, so also for find
    [dict(op="lit", x="da", ps=[[["r", 1.5], ["i", 10]], [["r", 1.500001], ["i", 20]], [["i", 2], ["i", 30]],
                                [["r", 0.3], ["i", 40]]]),
     dict(op="size", d="da"),
     dict(op="find", d="da", k=["r", 1.500001], into=None),
     dict(op="remove", d="da", k=["r", 1.500001], into=None),
     dict(op="find", d="da", k=["r", 1.500001], into=None),
     dict(op="find", d="da", k=["r", 1.5], into=None),
     dict(op="find", d="da", k=["r", 2.00001], into=None),
     dict(op="find", d="da", k=["r", 2.0], into=None),
     dict(op="find", d="da", k=["r", 0.1 + 0.2], into=None),
     dict(op="join", side="L", form="cat", d="da", k=["r", 0.1 + 0.2], v=["i", 50], into=None),
     dict(op="find", d="da", k=["r", 0.3], into=None),
     dict(op="size", d="da"),
     dict(op="remove", d="da", k=["r", 0.3], into=None),
     dict(op="find", d="da", k=["r", 0.3], into=None),
     dict(op="each", d="da")],
    # round-4: integer keys beyond float53 next to real keys / payloads; Each must hand f the exact tuples
    [dict(op="lit", x="da", ps=[[["i", B53 + 1], ["i", 1]], [["i", B53 + 2], ["i", 2]]]),
     dict(op="each", d="da", form="verb"),
     dict(op="join", side="L", form="lit", d="da", k=["r", 2.5], v=["i", 3], into=None),
     dict(op="each", d="da", form="lambda"),
     dict(op="join", side="R", form="lit", d="da", k=["i", 7], v=["r", 0.5], into=None),
     dict(op="eachupd", d="da"),
     dict(op="find", d="da", k=["r", float(B53)], into=None),
     dict(op="lit", x="db", ps=[[["i", 2 ** 63 - 1], ["i", 1]], [["i", 2 ** 62 + 1], ["i", -4]], [["r", -2.5], ["r", 1.5]]]),
     dict(op="each", d="db", form="verb"),
     dict(op="index", d="db", k=["i", 2 ** 62 + 1], into=None),
     dict(op="remove", d="db", k=["i", 2 ** 63 - 1], into=None),
     dict(op="each", d="db", form="lambda")],
    # round-3 additions (negative integer keys / failed adds / Each over a dictionary its function updates)
    [{'op': 'lit', 'x': 'da', 'ps': []}, {'op': 'join', 'side': 'L', 'form': 'lit', 'd': 'da', 'k': ['i', -1], 'v': ['i', 10], 'into': None}, {'op': 'join', 'side': 'L', 'form': 'lit', 'd': 'da', 'k': ['i', 1], 'v': ['i', 20], 'into': None}, {'op': 'index', 'd': 'da', 'k': ['i', -1], 'into': None}, {'op': 'find', 'd': 'da', 'k': ['i', -1], 'into': None}, {'op': 'lit', 'x': 'db', 'ps': [[['i', 0], ['i', 5]], [['i', -1], ['i', 10]]]}, {'op': 'index', 'd': 'db', 'k': ['i', -1], 'into': None}, {'op': 'alias', 'x': 'dc', 'd': 'db'}, {'op': 'remove', 'd': 'dc', 'k': ['i', -1], 'into': None}, {'op': 'index', 'd': 'db', 'k': ['i', -1], 'into': None}, {'op': 'deffn', 'f': 'f1', 'form': 'plain', 'ps': [[['i', -2], ['s', 'm2']], [['i', -5], ['s', 'm5']], [['i', 0], ['s', 'z']]]}, {'op': 'call', 'x': 'dd', 'f': 'f1'}, {'op': 'index', 'd': 'dd', 'k': ['i', -2], 'into': None}, {'op': 'indexmany', 'd': 'dd', 'ks': [['i', -5], ['i', -2]]}],
    [{'op': 'lit', 'x': 'da', 'ps': [[['i', 1], ['i', 10]], [['s', 'a'], ['i', 20]], [['r', 2.5], ['i', 30]]]}, {'op': 'alias', 'x': 'db', 'd': 'da'}, {'op': 'joinbad', 'd': 'da', 'k': ['i', 1], 'form': 'lit'}, {'op': 'size', 'd': 'da'}, {'op': 'joinbad', 'd': 'db', 'k': ['c', 'a'], 'form': 'lit'}, {'op': 'joinbad', 'd': 'da', 'k': ['r', 2.5], 'form': 'cat'}, {'op': 'joinbad', 'd': 'da', 'k': ['i', 7], 'form': 'cat'}, {'op': 'find', 'd': 'db', 'k': ['i', 1], 'into': None}, {'op': 'each', 'd': 'db'}],
    [{'op': 'lit', 'x': 'da', 'ps': [[['i', 0], ['i', 0]]]}, {'op': 'eachupd', 'd': 'da'}, {'op': 'size', 'd': 'da'}, {'op': 'lit', 'x': 'da', 'ps': [[['i', 0], ['i', 0]], [['i', 1], ['i', 10]]]}, {'op': 'eachupd', 'd': 'da'}, {'op': 'size', 'd': 'da'}, {'op': 'lit', 'x': 'da', 'ps': [[['i', 0], ['i', 0]], [['i', 1], ['i', 10]], [['i', 2], ['i', 20]]]}, {'op': 'eachupd', 'd': 'da'}, {'op': 'size', 'd': 'da'}, {'op': 'lit', 'x': 'da', 'ps': [[['i', 0], ['i', 0]], [['i', 1], ['i', 10]], [['i', 2], ['i', 20]], [['i', 3], ['i', 30]]]}, {'op': 'eachupd', 'd': 'da'}, {'op': 'size', 'd': 'da'}, {'op': 'lit', 'x': 'da', 'ps': [[['i', 0], ['i', 0]], [['i', 1], ['i', 10]], [['i', 2], ['i', 20]], [['i', 3], ['i', 30]], [['i', 4], ['i', 40]]]}, {'op': 'eachupd', 'd': 'da'}, {'op': 'size', 'd': 'da'}, {'op': 'lit', 'x': 'da', 'ps': [[['i', 0], ['i', 0]], [['i', 1], ['i', 10]], [['i', 2], ['i', 20]], [['i', 3], ['i', 30]], [['i', 4], ['i', 40]], [['i', 5], ['i', 50]]]}, {'op': 'eachupd', 'd': 'da'}, {'op': 'size', 'd': 'da'}, {'op': 'lit', 'x': 'da', 'ps': [[['i', 0], ['i', 0]], [['i', 1], ['i', 10]], [['i', 2], ['i', 20]], [['i', 3], ['i', 30]], [['i', 4], ['i', 40]], [['i', 5], ['i', 50]], [['i', 6], ['i', 60]]]}, {'op': 'eachupd', 'd': 'da'}, {'op': 'size', 'd': 'da'}, {'op': 'lit', 'x': 'da', 'ps': [[['i', 0], ['i', 0]], [['i', 1], ['i', 10]], [['i', 2], ['i', 20]], [['i', 3], ['i', 30]], [['i', 4], ['i', 40]], [['i', 5], ['i', 50]], [['i', 6], ['i', 60]], [['i', 7], ['i', 70]]]}, {'op': 'eachupd', 'd': 'da'}, {'op': 'size', 'd': 'da'}, {'op': 'lit', 'x': 'da', 'ps': [[['i', 0], ['i', 0]], [['i', 1], ['i', 10]], [['i', 2], ['i', 20]], [['i', 3], ['i', 30]], [['i', 4], ['i', 40]], [['i', 5], ['i', 50]], [['i', 6], ['i', 60]], [['i', 7], ['i', 70]], [['i', 8], ['i', 80]], [['i', 9], ['i', 90]], [['i', 10], ['i', 100]], [['i', 11], ['i', 110]], [['i', 12], ['i', 120]]]}, {'op': 'eachupd', 'd': 'da'}, {'op': 'size', 'd': 'da'}, {'op': 'lit', 'x': 'da', 'ps': [[['i', 0], ['i', 0]], [['i', 1], ['i', 10]], [['i', 2], ['i', 20]], [['i', 3], ['i', 30]], [['i', 4], ['i', 40]], [['i', 5], ['i', 50]], [['i', 6], ['i', 60]], [['i', 7], ['i', 70]], [['i', 8], ['i', 80]], [['i', 9], ['i', 90]], [['i', 10], ['i', 100]], [['i', 11], ['i', 110]], [['i', 12], ['i', 120]], [['i', 13], ['i', 130]], [['i', 14], ['i', 140]], [['i', 15], ['i', 150]], [['i', 16], ['i', 160]], [['i', 17], ['i', 170]], [['i', 18], ['i', 180]], [['i', 19], ['i', 190]], [['i', 20], ['i', 200]]]}, {'op': 'eachupd', 'd': 'da'}, {'op': 'size', 'd': 'da'}],
    # a dictionary stored as a value, found again and updated through that path
    [dict(op="lit", x="da", ps=[]),
     dict(op="lit", x="db", ps=[[["i", 0], ["c", "x"]]]),
     dict(op="join", side="L", form="cat", d="da", k=["s", "k"], v=["var", "db"], into=None),
     dict(op="find", d="da", k=["s", "k"], into="dc"),
     dict(op="join", side="R", form="cat", d="dc", k=["r", 2.5], v=["s", ""], into=None),
     dict(op="find", d="db", k=["r", 2.5], into=None),
     dict(op="index", d="db", k=["i", 0], into=None),
     dict(op="index", d="db", k=["i", 9], into=None),
     dict(op="index", d="db", k=["s", "zz"], into="dd"),
     dict(op="indexmany", d="dd", ks=[["i", 0], ["r", 2.5]])],
]


def run(ctx):
    quick = ctx.tier == "quick"
    drv = Driver("c10") if getattr(ctx, "driver_ok", True) else None
    ctx.rule = ("seeded operation histories (literal / function holding a literal / call / join L,R in literal and "
                "computed tuple form / remove / find / index / size / each / alias, results optionally bound to a "
                "variable) over pools of keys chosen so that keys Python compares equal (1, 1.0; 0ca, \"a\"; :a) meet, "
                "values of every kind incl. dictionaries; run as Klong text on the real interpreter. distinct = "
                "distinct histories; non-trivial = at least two operations")
    ctx.assumptions += [
        "key identity is the interpreter's own equality: 1 and 1.0 are one key, 0ca and \"a\" are one key (klongpy's "
        "Match says 0ca~\"a\"), a symbol equals only a symbol",
        "numeric kind of stored values is compared modulo int / integral real (a [k v] tuple is built by kg_asarray; "
        "C01's mixed-numeric class)",
        "`d@k` on a dictionary is outside the reference; modelled as the code does it (integer key -> value or "
        "KeyError, list -> values, any other atom -> the dictionary itself), the oracle only demands that it changes "
        "no dictionary and returns the bound value for a present integer key",
        "iteration order of Each is not constrained (results compared as sorted multisets, with the call count)",
    ]
    recorded = []
    try:
        # 1. the recorded finding's witness, replayed on the real code on every run
        run_history(ctx, drv, "witness", ops=WITNESS_CHAR_SYM)
        run_history(ctx, drv, "witness", ops=WITNESS_STRCHAR_SYM)
        run_payload_family(ctx)
        for h in MODULE_HISTORIES:
            run_history(ctx, drv, "builtin-module", ops=h, module=True)
        run_history(ctx, drv, "builtin-module", ops=BUILTIN_HISTORIES[0], module=True)
        ctx.extra["char_symbol_finding_reproduces"] = bool(ctx.known_hits) or any(
            f["key"] == KNOWN_CHAR_SYM for f in ctx.oracle_failures)
        # 2. corpus + built-in histories
        for h in BUILTIN_HISTORIES[3:6]:
            run_history(ctx, drv, "builtin", ops=h, record=recorded)
        for h in BUILTIN_HISTORIES[:3] + BUILTIN_HISTORIES[6:]:
            run_history(ctx, drv, "builtin", ops=h)
        cdir = common.CORPUS / "C10"
        if cdir.exists():
            for p in sorted(cdir.glob("*.json")):
                c = json.loads(p.read_text())
                run_history(ctx, drv, "corpus", ops=c["ops"], pool=c.get("pool"))
        # 3. seeded histories
        nseq = 160 if quick else 1600
        maxlen = 12 if quick else 40
        for _ in range(nseq):
            pool = make_pool(ctx.rng)
            run_history(ctx, drv, "seeded", pool=pool, length=ctx.rng.randrange(3, maxlen + 1), record=recorded,
                        module=ctx.rng.random() < 0.15)
        kernel_replay(ctx, recorded)
    finally:
        if drv:
            drv.close()


def replay(ctx, case):
    drv = Driver("c10") if getattr(ctx, "driver_ok", True) else None
    c = case.get("case", case)
    try:
        if isinstance(c, dict) and c.get("kind") == "payload-family":
            run_payload_family(ctx)
        elif isinstance(c, dict) and "ops" in c:
            run_history(ctx, drv, "replay", ops=c["ops"], pool=c.get("pool"), module=bool(c.get("module")))
        else:
            run(ctx)
    finally:
        if drv:
            drv.close()
    print("replay:", "oracle failures:", json.dumps(ctx.oracle_failures, default=str)[:2000],
          "mismatches:", json.dumps(ctx.mismatches, default=str)[:2000])
