"""C04 — evaluation depends only on program text and variable state; values are immutable.

The property's own experiment is the tie.  A seeded history of statements over a closed
statement grammar is run in a real interpreter A.  For every statement

  * oracle 1 (statement level, needs no model): the same text is run in a *fresh*
    interpreter B loaded with a deep copy of A's pre-state (all user frames incl. functions
    with their memoised compiled code stripped, the dictionary sharing structure, the
    parse-time module); outcome, variable snapshot and module must agree with A;
  * oracle 2 (history level): interpreter C runs the same history with every cache emptied
    before each statement (`_parse_cache`, `_compiled_cache`, `_compiled` on every node
    reachable from a variable) — the cache-free machine on the real code;
  * oracle 3: every array reachable from a variable or from a cached tree is made read-only
    before the statement, so a verb that writes in place raises;
  * correspondence: the Lean machines (`Interp` with the repaired configuration, and `Ref`
    in lockstep) are driven with the same statement through `kd_c04`; outcome, snapshot,
    module and the fresh/view classification (`np.shares_memory`) must agree.
"""
import json

import numpy as np

from . import common
from .common import Driver
from .universe import canon as _ucanon, veq


def canon(x):
    """universe.canon, except that the numpy backend has its own KGChar class
    (klongpy.backends.numpy_backend.KGChar, not a subclass of klongpy.core.KGChar)"""
    if type(x).__name__ == "KGChar":
        return ("c", str(x))
    if isinstance(x, np.ndarray) and x.dtype == object and x.ndim >= 1:
        return ("L", [canon(e) for e in x])
    if isinstance(x, (list, tuple)):
        return ("L", [canon(e) for e in x])
    if isinstance(x, dict):
        return ("D", [(canon(k), canon(v)) for k, v in x.items()])
    return _ucanon(x)

CLAIM = dict(
    text="Lean 4 theorems over the interpreter as a state machine (frames, array heap with views, dictionary heap, "
         "parse cache under (text, module), compiled cache, per-node compiled memo): for every history the cached heap "
         "machine, the cache-free heap machine and the by-value reference machine produce the same outcomes and variable "
         "states, for ANY parse function of (text, module); no transition overwrites a heap cell; a statement re-run in a "
         "fresh interpreter loaded with the pre-state agrees. Negations witnessed by `decide` for the pinned tree (cached "
         "parse skips the module switch; stale compiled code) and three mutants. Tied to klongpy by running each statement "
         "of seeded histories in the real interpreter, in a fresh interpreter loaded with a copy of the pre-state, in a "
         "cache-cleared interpreter, and in the Lean machines, with arrays frozen read-only and np.shares_memory checks.",
    note="trusted: Lean kernel (propext/Classical.choice/Quot.sound), harness (state copier, canonicaliser), numpy; the "
         "verb meanings inside the model cover ints, strings, integer vectors and matrices, integer dictionaries — other "
         "operands are explored by the oracles only; compiled==interpreted on admissible operands is C05's theorem",
    technique="Lean 4 refinement/simulation proof + decide witnesses, differential correspondence, fresh-interpreter re-run oracle",
    design="7/C04")

MODULES = ["Klong.Props.C04"]
THEOREMS = [
    "Klong.C04.caches_unobservable",
    "Klong.C04.no_verb_writes_its_argument",
    "Klong.C04.value_semantics",
    "Klong.C04.rerun_in_fresh_interpreter",
    "Klong.C04.compiled_agrees_on_admissible",
    "Klong.C04.pinned_parse_cache_skips_module",
    "Klong.C04.pinned_stale_compiled_code",
    "Klong.C04.mutant_amend_in_place_observable",
    "Klong.C04.mutant_cache_keyed_by_text_observable",
]

# --------------------------------------------------------------------------- names

NAMES = ["a", "b", "c", "d", "f", "g", "t", "x", "m1", "m2"]
NID = {n: i for i, n in enumerate(NAMES)}
DATA = ["a", "b", "c", "d"]
FUNS = ["f", "g"]
MODS = ["m1", "m2"]


def qenc(name):
    s = str(name)
    if "`" in s:
        b, m = s.split("`", 1)
        if b in NID and m in NID:
            return f"{NID[b]}~{NID[m]}"
        return "?" + s
    return str(NID[s]) if s in NID else "?" + s


def qkey(name):
    s = str(name)
    b, _, m = s.partition("`")
    return (NID.get(b, 99), -1 if not m else NID.get(m, 99), s)


# --------------------------------------------------------------------------- grammar
# Expr: ('lit', kind, payload) | ('dlit', [(k, v)…]) | ('var', n) | ('fn', body) | ('assign', n, e)
#       | ('seq', a, b) | ('op1', op, e) | ('op2', op, a, b) | ('call', f, arg) | ('raw', text)   (oracle-only)
# Stmt: ('expr', e) | ('module', name | None)

OP1_TEXT = {"rev": "|", "size": "#", "over:plus": "+/", "over:times": "*/", "over:max": "|/", "over:min": "&/",
            "scan:plus": "+\\", "scan:times": "*\\"}
OP2_TEXT = {"take": "#", "drop": "_", "index": "@", "amend": ":=", "amendD": ":-", "arith:plus": "+",
            "arith:times": "*", "arith:minus": "-", "join": ",", "find": "?"}


def lit_int(n): return ("lit", "I", int(n))
def lit_str(s): return ("lit", "S", s)
def lit_ints(xs): return ("lit", "L", [int(x) for x in xs])
def lit_mat(rows): return ("lit", "M", [[int(x) for x in r] for r in rows])
def var(n): return ("var", n)
def op1(o, e): return ("op1", o, e)
def op2(o, a, b): return ("op2", o, a, b)
def assign(n, e): return ("assign", n, e)
def call(f, a): return ("call", f, a)


def text_of(e, factor=False):
    """Klong source of an expression; `factor`: must be usable as a left operand"""
    k = e[0]
    if k == "lit":
        _, kind, p = e
        if kind == "I":
            return f"({p})" if p < 0 else str(p)
        if kind == "S":
            return '"' + p.replace('"', '""') + '"'
        if kind == "L":
            return "[" + " ".join(str(x) for x in p) + "]"
        if kind == "M":
            return "[" + " ".join("[" + " ".join(str(x) for x in r) + "]" for r in p) + "]"
    if k == "dlit":
        return ":{" + " ".join(f"[{a} {b}]" for a, b in e[1]) + "}"
    if k == "var":
        return e[1]
    if k == "raw":
        return f"({e[1]})" if factor else e[1]
    if k == "call":
        return f"{e[1]}({text_of(e[2])})"
    if k == "fn":
        s = "{" + text_of(e[1]) + "}"
    elif k == "assign":
        s = f"{e[1]}::{text_of(e[2])}"
    elif k == "seq":
        s = f"{text_of(e[1])};{text_of(e[2])}"
    elif k == "op1":
        s = OP1_TEXT[e[1]] + text_of(e[2])
    elif k == "op2":
        s = text_of(e[2], True) + OP2_TEXT[e[1]] + text_of(e[3])
    else:
        raise ValueError(e)
    if factor and k != "fn":
        return "(" + s + ")"
    return s


def stmt_text(st):
    if st[0] == "module":
        return ".module(0)" if st[1] is None else f".module(:{st[1]})"
    return text_of(st[1])


def tokens_of(e):
    k = e[0]
    if k == "lit":
        _, kind, p = e
        if kind == "I":
            return ["I", str(p)]
        if kind == "S":
            return ["S", ".".join(str(ord(c)) for c in p)] if p else ["E"]
        if kind == "L":
            return ["L", ",".join(str(x) for x in p)] if p else ["L0"]
        if kind == "M":
            return ["M", ";".join(",".join(str(x) for x in r) for r in p)]
    if k == "dlit":
        return ["D", ",".join(f"{a}:{b}" for a, b in e[1])] if e[1] else ["D0"]
    if k == "var":
        return ["V", str(NID[e[1]])]
    if k == "fn":
        return ["F"] + tokens_of(e[1])
    if k == "assign":
        return ["A", str(NID[e[1]])] + tokens_of(e[2])
    if k == "seq":
        return ["Q"] + tokens_of(e[1]) + tokens_of(e[2])
    if k == "op1":
        return ["1", e[1]] + tokens_of(e[2])
    if k == "op2":
        return ["2", e[1]] + tokens_of(e[2]) + tokens_of(e[3])
    if k == "call":
        return ["C", str(NID[e[1]])] + tokens_of(e[2])
    raise KeyError(k)      # 'raw': not expressible in the model


def stmt_tokens(st):
    if st[0] == "module":
        return ["MOD0"] if st[1] is None else ["MOD", str(NID[st[1]])]
    return tokens_of(st[1])


def in_model_grammar(st):
    try:
        stmt_tokens(st)
        return True
    except KeyError:
        return False


# --------------------------------------------------------------------------- canonical text

def fmt(v):
    t = v[0]
    if t == "i":
        return f"i:{v[1]}"
    if t == "r":
        return f"r:{v[1]!r}"
    if t == "c":
        return f"c:{ord(v[1])}"
    if t == "s":
        return "s:" + ".".join(str(ord(c)) for c in v[1])
    if t == "y":
        return "y:" + qenc(v[1])
    if t == "L":
        return "L[" + ",".join(fmt(x) for x in v[1]) + "]"
    if t == "D":
        return "D[" + ";".join(fmt(k) + "=" + fmt(x) for k, x in v[1]) + "]"
    if t == "U":
        return "U"
    return "X"


def user_frames(k):
    return list(k._context._context)[:-2]


def snapshot(k):
    """name -> canonical value, as KlongContext.__iter__ flattens the frames (dot names dropped)"""
    out = {}
    for name, v in k._context:
        s = str(name)
        if s.startswith("."):
            continue
        out[s] = canon(v)
    return out


def snap_text(snap):
    return "|".join(f"{qenc(n)}={fmt(snap[n])}" for n in sorted(snap, key=qkey))


def mod_text(k):
    m = k._module
    return "-" if m is None else str(NID.get(str(m), "?" + str(m)))


def snap_eq(s1, s2):
    return s1.keys() == s2.keys() and all(veq(s1[n], s2[n]) for n in s1)


# --------------------------------------------------------------------------- state handling

def _ast_children(node):
    from klongpy.types import KGFn, KGAdverb
    if isinstance(node, KGFn):
        return [node.a, node.args]
    if isinstance(node, KGAdverb):
        return [node.a]
    if isinstance(node, (list, tuple)):
        return list(node)
    if isinstance(node, dict):
        return list(node.keys()) + list(node.values())
    return []


def walk(v, fn, seen):
    """visit every object reachable from a value (arrays, dictionary payloads, syntax trees)"""
    if isinstance(v, (int, float, str, type(None))) or id(v) in seen:
        return
    seen.add(id(v))
    fn(v)
    if isinstance(v, np.ndarray):
        if v.dtype == object:
            for e in v.flat:
                walk(e, fn, seen)
        return
    for c in _ast_children(v):
        walk(c, fn, seen)


def reachable_arrays(k):
    arrs = []
    seen = set()

    def visit(o):
        if isinstance(o, np.ndarray):
            arrs.append(o)
    for d in user_frames(k):
        for v in list(d.values()):
            walk(v, visit, seen)
    for entry in list(k._parse_cache.values()):
        walk(entry, visit, seen)
    return arrs


def freeze(k):
    arrs = reachable_arrays(k)
    for a in arrs:
        try:
            a.flags.writeable = False
        except ValueError:
            pass
    return arrs


def strip_memos(k):
    seen = set()

    def visit(o):
        if hasattr(o, "_compiled"):
            try:
                del o._compiled
            except AttributeError:
                pass
    for d in user_frames(k):
        for v in list(d.values()):
            walk(v, visit, seen)


def copy_value(v, memo):
    """deep copy of a variable's value: arrays and dictionaries copied (sharing preserved),
    syntax trees rebuilt node by node without their memoised compiled code"""
    from klongpy.types import KGFn, KGCall, KGAdverb, KGOp, KGCond, KGLambda, KGSym, KGChar
    if v is None or isinstance(v, (KGSym, KGChar, str, int, float, np.generic, KGLambda)):
        return v
    if id(v) in memo:
        return memo[id(v)]
    if isinstance(v, np.ndarray):
        if v.dtype == object:
            r = np.empty(v.shape, dtype=object)
            memo[id(v)] = r
            for idx in np.ndindex(v.shape):
                r[idx] = copy_value(v[idx], memo)
        else:
            r = np.array(v)
            memo[id(v)] = r
        return r
    if isinstance(v, dict):
        r = type(v)(v.name) if type(v).__name__ == "KGModule" else {}
        memo[id(v)] = r
        for kk, x in v.items():
            r[copy_value(kk, memo)] = copy_value(x, memo)
        return r
    if isinstance(v, KGFn):
        r = type(v)(None, None, v.arity)
        memo[id(v)] = r
        r.a = copy_value(v.a, memo)
        r.args = copy_value(v.args, memo)
        gp = getattr(v, "global_params", None)
        if gp is not None:
            r.global_params = set(gp)
        return r
    if isinstance(v, KGOp):
        return KGOp(v.a, v.arity)
    if isinstance(v, KGAdverb):
        return KGAdverb(copy_value(v.a, memo), v.arity)
    if isinstance(v, list):
        r = type(v)(copy_value(x, memo) for x in v)
        memo[id(v)] = r
        return r
    if isinstance(v, tuple):
        return tuple(copy_value(x, memo) for x in v)
    if type(v).__name__ == "Tensor":          # torch backend: a value copy (no autograd history, no .grad)
        r = v.detach().clone()
        if v.requires_grad:
            r.requires_grad_(True)
        memo[id(v)] = r
        return r
    return v            # channels, Python objects: shared (outside the grammar)


def fresh_with_state_of(A):
    """a new interpreter holding a copy of A's variable state and parse-time module, no caches"""
    from collections import deque
    from klongpy import KlongInterpreter
    B = KlongInterpreter(backend=getattr(A._backend, "name", None))
    sys_frames = list(B._context._context)[-2:]
    memo = {}
    frames = [copy_value(d, memo) for d in user_frames(A)]
    B._context._context = deque(frames + sys_frames)
    B._context._min_ctx_count = A._context._min_ctx_count
    B._module = A._module
    return B


def execute(k, text):
    try:
        r = k(text)
    except Exception as e:           # every error is one outcome class
        return ("err", None, e)
    return ("ok", canon(r), r)


def out_text(o):
    return "err" if o[0] == "err" else "ok:" + fmt(o[1])


def out_eq(o1, o2):
    if o1[0] != o2[0]:
        return False
    return o1[0] == "err" or veq(o1[1], o2[1])


# --------------------------------------------------------------------------- generators

def value_kind(v):
    from klongpy.types import KGFn, KGSym
    if isinstance(v, (bool, np.bool_)):
        return "O", 0, 0
    if isinstance(v, (int, np.integer)):
        return "I", 0, 0
    if isinstance(v, KGSym):
        return "Y", 0, 0
    if isinstance(v, str):
        return ("S", len(v), 0) if v else ("O", 0, 0)
    if isinstance(v, np.ndarray):
        if v.dtype.kind == "i" and v.ndim == 1 and len(v) > 0:
            return "L", len(v), 0
        if v.dtype.kind == "i" and v.ndim == 2 and v.shape[0] > 0 and v.shape[1] > 0:
            return "M", v.shape[0], v.shape[1]
        return "O", 0, 0
    if isinstance(v, dict):
        return "D", len(v), 0
    if isinstance(v, KGFn):
        return "F", 0, 0
    return "O", 0, 0


def current_kind(A, name):
    from klongpy.types import KGSym
    q = name if A._module is None else f"{name}`{A._module}"
    try:
        return value_kind(A._context[KGSym(q)])
    except KeyError:
        return "N", 0, 0


LITS_L = [[1, 2, 3], [5], [4, 3, 2, 1], [7, 8], [1, 2, 3, 4, 5], [-2, 6, 0]]
LITS_M = [[[1, 2], [3, 4]], [[1, 2, 3], [4, 5, 6]], [[5, 6]], [[1], [2], [3]]]
LITS_S = ["abc", "ab", "hello", "x"]
LITS_I = [0, 1, 2, 3, 7, 10]

BODIES = [
    op2("arith:plus", var("x"), lit_int(1)),
    op2("arith:times", var("x"), lit_int(2)),
    op1("rev", var("x")),
    op2("drop", lit_int(1), var("x")),
    op2("amend", var("x"), op2("join", lit_int(7), lit_int(0))),
    op1("size", op2("arith:times", var("x"), lit_int(2))),
    op2("join", var("x"), var("x")),
    op1("over:plus", var("x")),
    assign("a", var("x")),
    assign("b", op2("amend", var("x"), op2("join", lit_int(5), lit_int(0)))),
    ("seq", assign("a", var("x")), op2("arith:plus", var("x"), lit_int(1))),
    op2("arith:plus", var("x"), var("a")),
    op2("amend", op2("take", lit_int(2), var("x")), op2("join", lit_int(8), lit_int(0))),
    op2("index", var("x"), lit_int(0)),
    op2("amendD", var("x"), op2("join", lit_int(6), lit_int(0))),
    op2("join", var("x"), lit_ints([9, 9])),
    op2("arith:plus", call("f", var("x")), lit_int(1)),
]


def gen_literal(rng, kind=None):
    kind = kind or rng.choice("IISLLLMM")
    if kind == "I":
        return lit_int(rng.choice(LITS_I))
    if kind == "S":
        return lit_str(rng.choice(LITS_S))
    if kind == "L":
        return lit_ints(rng.choice(LITS_L))
    return lit_mat(rng.choice(LITS_M))


def gen_index(rng, n, wild):
    if wild < 0.08:
        return n + rng.randrange(0, 3)
    return rng.randrange(0, max(1, n))


def gen_verb(rng, operand, kind, n, m, wname=None):
    """an expression applying one verb to `operand` (of the given kind, size n, m columns)"""
    wild = rng.random()
    if kind not in "ISLMDF" or wild < 0.04:
        kind = rng.choice("ISLM")           # deliberately ill-typed now and then
        n, m = 3, 2
    if kind == "F":
        return call(wname, gen_literal(rng)) if wname else operand
    if kind == "D":
        c = rng.randrange(3)
        if c == 0:
            return op2("join", operand, op2("join", lit_int(rng.randrange(1, 6)), lit_int(rng.randrange(10, 20))))
        if c == 1:
            return op2("find", operand, lit_int(rng.randrange(1, 6)))
        return op1("size", operand)
    r = rng.randrange(19)
    if r == 0:
        return op1("rev", operand)
    if r == 1:
        return op1("size", operand)
    if r == 2:
        k = rng.choice([1, 2, n, -1, -2, n + 2, -(n + 1), 0]) if kind != "M" else rng.choice([1, n, -1, 0])
        return op2("take", lit_int(k), operand)
    if r == 3:
        return op2("drop", lit_int(rng.choice([1, 2, -1, n, n + 3, 0])), operand)
    if r == 4:
        return op2("index", operand, lit_int(gen_index(rng, n, wild)))
    if r == 5:
        return op2("index", operand, lit_ints([gen_index(rng, n, wild), gen_index(rng, n, 1.0)]))
    if r in (6, 7):
        size = n * m if kind == "M" else n
        return op2("amend", operand, op2("join", lit_int(rng.choice([9, 0, 42])), lit_int(gen_index(rng, size, wild))))
    if r == 8:
        size = n * m if kind == "M" else n
        return op2("amend", operand, op2("join", lit_int(9), lit_ints([gen_index(rng, size, wild), gen_index(rng, size, 1.0)])))
    if r in (9, 10):
        idx = [gen_index(rng, n, wild)]
        if kind == "M" and rng.random() < 0.7:
            idx.append(gen_index(rng, m, 1.0))
        e = lit_int(idx[-1])
        for i in reversed(idx[:-1]):
            e = op2("join", lit_int(i), e)
        return op2("amendD", operand, op2("join", lit_int(rng.choice([9, 0])), e))
    if r in (11, 12):
        o = rng.choice(["arith:plus", "arith:times", "arith:minus"])
        other = rng.choice([lit_int(rng.choice([1, 2, 10])), operand,
                            lit_ints(list(range(1, n + 1))) if kind == "L" else lit_int(3)])
        return op2(o, operand, other) if rng.random() < 0.7 else op2(o, other, operand)
    if r == 13:
        other = rng.choice([lit_int(4), operand, lit_ints([8, 9])])
        return op2("join", operand, other) if rng.random() < 0.6 else op2("join", other, operand)
    if r in (14, 15, 16):
        return op1(rng.choice(["over:plus", "over:times", "over:max", "over:min"]), operand)
    if r == 17:
        return op1(rng.choice(["scan:plus", "scan:times"]), operand)
    return operand


def pick_defined(rng, A, names, kinds):
    """mostly a variable that currently holds a value of one of the kinds"""
    good = [w for w in names if current_kind(A, w)[0] in kinds]
    if good and rng.random() < 0.92:
        return rng.choice(good)
    return rng.choice(names)


def gen_expr(rng, A):
    w = pick_defined(rng, A, DATA, "ISLM")
    kind, n, m = current_kind(A, w)
    operand = var(w)
    if kind in "LM" and rng.random() < 0.3:
        inner = gen_verb(rng, operand, kind, n, m)
        if inner[0] == "op2" and inner[1] in ("take", "drop") or inner[0] == "op1" and inner[1] == "rev":
            return gen_verb(rng, inner, kind, max(1, n - 1), m)   # a verb applied to a view
    return gen_verb(rng, operand, kind, n, m, w)


def gen_stmt(rng, A, history, ext):
    r = rng.random()
    if history and r < 0.22:
        return rng.choice(history)                       # repeated identical text
    if r < 0.34:
        return ("expr", assign(rng.choice(DATA), gen_literal(rng)))
    if r < 0.40:
        return ("expr", assign(rng.choice(DATA), var(pick_defined(rng, A, DATA, "ISLMD"))))
    if r < 0.58:
        return ("expr", assign(rng.choice(DATA), gen_expr(rng, A)))
    if r < 0.70:
        return ("expr", gen_expr(rng, A))
    if r < 0.77:
        return ("expr", assign(rng.choice(FUNS), ("fn", rng.choice(BODIES))))
    if r < 0.86:
        f = pick_defined(rng, A, FUNS, "F")
        w = pick_defined(rng, A, DATA, "LLMS")
        arg = rng.choice([var(w), var(w), gen_literal(rng), op2("drop", lit_int(1), var(w))])
        e = call(f, arg)
        return ("expr", assign(rng.choice(DATA), e) if rng.random() < 0.5 else e)
    if r < 0.92:
        c = rng.randrange(4)
        if c == 0:
            return ("expr", assign("t", ("dlit", [(1, 2), (3, 4)][:rng.randrange(0, 3)])))
        if c == 1:
            return ("expr", assign(rng.choice(DATA), var("t")))
        return ("expr", gen_verb(rng, var(pick_defined(rng, A, ["t"] + DATA, "D")), "D", 0, 0))
    if ext and r < 0.95:
        return ("expr", ("raw", rng.choice(EXT_TEXTS)))
    return ("module", rng.choice(MODS + [None, None]))


# texts outside the modelled grammar: explored by the oracles only
EXT_TEXTS = [
    "{x+1}'a", "f'a", "a::[[1] [2 3]]", "b::a@0", "c::b:=9,0", "a::[1.5 2.5]", "a%2", "a=b", "<a", "?a", "&a",
    "a:=0cx,1", "a::\"hello\"", "b::a:=0cx,0", ":[a;1;2]", "g::{[t];t::x;t:=7,0}", "g(a)", "h::f(;)", "a::[1 2 3]:=0,1",
    "b::+a", "c::a,,b", "d::a:_b", "a::!5", "b::a@<a", "+/'a", "a::[[1 2] [3 4]]", "b::a:-0,0,0", "c::*a", "d::^a",
    "a::,a", "b::|a", "c::=a", "t:::{[1 [1 2 3]]}", "b::t?1", "c::b:=0,0", "t?1", "{x:=0,0}'a", ",/a", "a::[\"ab\" \"cd\"]",
    "b::a@0", "c::1.0*a", "d::a^2", "e::a>1", "-a", "a::-a",
]


# nested lists that numpy stores as OBJECT arrays: the rows are separate ndarray objects, so a copy of the
# outer array is shallow and a write into a row reaches every holder of that row (oracles only)
OBJ_LITS = ['[[1 2] [:a 4 5]]', '[[1 2] ["x" 4 5]]', '[[1] [2 3]]', '["ab" "cde"]', '[[1 [2 3]] [4 [5 6 7]]]',
            '[[0ca 1] [2 3 4]]', '[:p :q :r]', '[[:a :b] [:c :d :e] [1 2]]', '[["ab" 1] ["c" 2 3]]',
            '[[[1 2] [:a 4 5]] [[6] [7 8]]]', '[1 "a" :b 0cx]', '[[1 2] [3 4]]']
OBJ_VALS = ['9', ':z', '"s"', '0cq', '0']


def gen_obj_stmt(rng, history):
    V = lambda: rng.choice(DATA)
    i = lambda: str(rng.choice([0, 0, 1, 1, 2]))
    path = lambda n: ",".join(i() for _ in range(n))
    val = lambda: rng.choice(OBJ_VALS)
    sub = lambda w: rng.choice([f"({i()}_{w})", f"({rng.choice([1, 2, -1])}#{w})", f"(|{w})", f"({w}@{i()})",
                                f"({w}@[{i()} {i()}])", w, w])
    r = rng.random()
    if history and r < 0.22:
        return rng.choice(history)
    if r < 0.36:
        return f"{V()}::{rng.choice(OBJ_LITS)}"
    if r < 0.42:
        return f"{V()}::{V()}"
    if r < 0.47:
        return f"{V()}::[;{V()};[1 2]]"
    if r < 0.52:
        return f"{V()}::{sub(V())}"
    if r < 0.60:
        return V()
    w = V()
    depth = rng.choice([1, 2, 2, 2, 3])
    op = rng.choice([":-", ":-", ":-", ":="])
    target = sub(w)
    rhs = f"{val()},{path(depth if op == ':-' else 1)}"
    e = f"{target}{op}{rhs}"
    return f"{V()}::{e}" if rng.random() < 0.6 else e


def gen_obj_history(rng, length):
    from klongpy import KlongInterpreter
    hist = [f"{w}::{rng.choice(OBJ_LITS)}" for w in rng.sample(DATA, rng.randrange(2, 4))]
    for _ in range(length):
        hist.append(gen_obj_stmt(rng, hist))
    return [("expr", ("raw", t)) for t in hist]


# int/real "twin" texts: compilable expressions identical except that a numeric literal is an integer in one
# and the numerically equal real in the other (a*2 / a*2.0). Anything that identifies the two (a memo keyed by
# a structure in which 2 == 2.0) makes the second one evaluated run the first one's code (oracles only)
TWIN_VALUES = ['3', '7', '0', '2.5', '4.0', '[1 2 3]', '[4 5]', '[1.5 2.5 3.5]', '[[1 2] [3 4]]', '[2.0 4.0]']
TWIN_OPS = ['+', '-', '*', '%', '^', '>', '<', '=']
TWIN_ADVERBS = ['+/', '*/', '|/', '&/', '+\\', '*\\']


def gen_twin_pair(rng, names):
    """two texts that differ only in the kind of one numeric literal"""
    n_terms = rng.randrange(2, 4)
    terms, lit_pos = [], []
    for k in range(n_terms):
        if rng.random() < 0.5:
            terms.append(rng.choice(names))
        else:
            terms.append(None)
            lit_pos.append(k)
    if not lit_pos:
        terms[-1] = None
        lit_pos.append(n_terms - 1)
    if len(lit_pos) == n_terms:
        terms[0] = rng.choice(names)
        lit_pos.remove(0)
    lits = {k: rng.choice([0, 1, 2, 2, 3]) for k in lit_pos}
    flip = rng.choice(lit_pos)
    ops = [rng.choice(TWIN_OPS) for _ in range(n_terms - 1)]
    neg = rng.random() < 0.15
    adv = rng.choice(TWIN_ADVERBS) if rng.random() < 0.3 else ""

    def render(real_at):
        parts = []
        for k, t in enumerate(terms):
            parts.append(t if t is not None else (f"{lits[k]}.0" if k in real_at else str(lits[k])))
        body = parts[0]
        for o, q in zip(ops, parts[1:]):
            body += o + q
        return adv + ("-" if neg and terms[0] is not None else "") + body
    base_real = {k for k in lit_pos if k != flip and rng.random() < 0.3}
    return render(base_real), render(base_real | {flip})


def gen_twin_history(rng, n_pairs):
    hist = [f"{w}::{rng.choice(TWIN_VALUES)}" for w in DATA]
    for _ in range(n_pairs):
        form = rng.randrange(4)
        t1, t2 = gen_twin_pair(rng, ["x"] if form == 3 else DATA[:3])
        if rng.random() < 0.5:
            t1, t2 = t2, t1
        if form == 0:
            pair = [t1, t2]
        elif form == 1:
            pair = [f"d::{t1}", f"d::{t2}"]
        elif form == 2:
            pair = [t1, f"{rng.choice(DATA[:3])}::{rng.choice(TWIN_VALUES)}", t2, t1]
        else:
            arg = rng.choice(DATA[:3])
            pair = ["f::{" + t1 + "}", f"f({arg})", "g::{" + t2 + "}", f"g({arg})", f"f({arg})"]
        hist += pair
        if rng.random() < 0.3:
            hist.append(rng.choice(hist))
    return [("expr", ("raw", t)) for t in hist]


# Reshape with the -1 wildcard ("half the size of the source") in a shape that outlives the call: held in a
# variable, aliased, a literal in a function body, a repeated text (oracles only)
SHAPES = ['[-1 2]', '[2 -1]', '[-1 3]', '[-1]', '[2 2]', '[3 -1]', '[-1 -1]', '[2 3]']
SOURCES = ['!10', '!6', '!8', '!12', '[1 2 3 4]', '!4', '"abcdef"', '"abcdefgh"']


def gen_reshape_history(rng, length):
    hist = [f"a::{rng.choice(SHAPES)}", f"b::{rng.choice(SOURCES)}"]
    for _ in range(length):
        r = rng.random()
        sv = rng.choice(["a", "c"])
        if r < 0.2 and hist:
            hist.append(rng.choice(hist))
        elif r < 0.3:
            hist.append(f"{sv}::{rng.choice(SHAPES)}")
        elif r < 0.38:
            hist.append(rng.choice(["c::a", "a::c"]))
        elif r < 0.48:
            hist.append(f"b::{rng.choice(SOURCES)}")
        elif r < 0.62:
            hist.append(f"{sv}:^{rng.choice(SOURCES + ['b', 'b'])}")
        elif r < 0.70:
            hist.append(f"d::{sv}:^b")
        elif r < 0.78:
            hist.append(rng.choice(["a", "c", "b"]))
        elif r < 0.86:
            hist.append(f"{rng.choice(SHAPES)}:^b")
        elif r < 0.93:
            hist.append(rng.choice(["f", "g"]) + "::{" + rng.choice(SHAPES) + ":^x}")
        else:
            hist.append(f"{rng.choice(['f', 'g'])}({rng.choice(SOURCES + ['b'])})")
    return [("expr", ("raw", t)) for t in hist]


# exact (Python int) versus wrapping (numpy int64) arithmetic: an arithmetic node under a verb the compiler
# does not handle, evaluated with operand classes that change between evaluations (oracles only)
BIGS = ['10000000000', '4611686018427387904', '3037000500', '99999999999', '7', '2', '0']
SCALAR_SRC = ['a@0', '*a', '+/a', 'a@1', '|/a']
WRAP_VERBS = ['$', ',', '#$', '!0*', '$1+']
ARITH = ['*', '+', '-']


def gen_bigint_history(rng, length):
    body = lambda l, r: f"{rng.choice(WRAP_VERBS)}{l}{rng.choice(ARITH)}{r}"
    hist = ["a::[3 5 7]", f"b::{rng.choice(BIGS)}", f"c::{rng.choice(BIGS)}",
            "f::{" + body("x", "y") + "}", "g::{" + body("x", "x") + "}"]
    tops = [body("b", "c"), body("b", "b"), body("c", "d")]
    for _ in range(length):
        r = rng.random()
        v = rng.choice(["b", "c", "d"])
        if rng.random() < 0.25:
            # the same node first with a numpy scalar / string operand, then with big Python ints
            odd = rng.choice(SCALAR_SRC + ['"ab"'])
            big = rng.choice(BIGS[:4])
            if rng.random() < 0.5:
                hist += [f"f({odd};{rng.choice(BIGS)})", f"f({big};{big})"]
            else:
                t = rng.choice(tops[:2])
                hist += [f"b::{odd}", f"c::{odd}", t, f"b::{big}", f"c::{big}", t]
            continue
        if r < 0.15:
            hist.append(rng.choice(hist))
        elif r < 0.30:
            hist.append(f"{v}::{rng.choice(BIGS)}")
        elif r < 0.42:
            hist.append(f"{v}::{rng.choice(SCALAR_SRC)}")
        elif r < 0.48:
            hist.append(f'{v}::{rng.choice(["""\"ab\"""", "[1 2]", "2.5"])}')
        elif r < 0.68:
            hist.append(rng.choice(tops))
        elif r < 0.74:
            # never keep a `$` result: `$` of a list is a list of strings, and big-int * string repeats the string
            t = rng.choice(tops)
            hist.append(f"d::{t}" if t.startswith(",") else t)
        else:
            arg = lambda: rng.choice(BIGS + SCALAR_SRC + ["b", "c", "d", '"ab"'])
            hist.append(f"f({arg()};{arg()})" if rng.random() < 0.6 else f"g({arg()})")
    return [("expr", ("raw", t)) for t in hist]


# ---------------------------------------------------------------- process-global state a text may depend on

def process_state():
    """numeric state shared by every interpreter of the process"""
    import decimal
    import sys
    st = {"np.geterr": dict(np.geterr()), "np.geterrcall": repr(np.geterrcall()),
          "np.printoptions": repr(sorted((k, repr(v)) for k, v in np.get_printoptions().items())),
          "recursionlimit": sys.getrecursionlimit()}
    dc = decimal.getcontext()
    st["decimal"] = repr((dc.prec, dc.rounding, dc.Emin, dc.Emax, sorted(str(t) for t, on in dc.traps.items() if on)))
    torch = sys.modules.get("torch")
    if torch is not None:
        try:
            st["torch"] = repr((torch.get_default_dtype(), torch.is_grad_enabled()))
        except Exception as e:      # never let instrumentation decide the verdict
            st["torch"] = "unreadable:" + type(e).__name__
    return st


def restore_process_state(st):
    np.seterr(**st["np.geterr"])


def state_diff(g0, g1):
    return {k: (g0.get(k), g1.get(k)) for k in g0 if g0.get(k) != g1.get(k)}


# probes: texts whose value depends on how numpy treats overflow / underflow / division by zero / invalid;
# each is evaluated in a brand-new interpreter given the same values, before the history and after every statement
PROBE_PRELUDE = ['a::[1e308 1.0]', 'b::1e308', 'c::[1e-308 1.0]', 'd::0', 'e::[1 2 3]']
PROBES = ['a*10', 'a+a', 'b*10', 'b*b', 'c%1e10', '1%d', 'e%d', 'd%d', 'a^2', '10^400', '+/a', '*/a*10', '{x*10}(a)']


def run_probes():
    from klongpy import KlongInterpreter
    k = KlongInterpreter()
    for t in PROBE_PRELUDE:
        k(t)
    return [execute(k, t) for t in PROBES]


NUM_VALUES = ['[1e308 1.0]', '1e308', '[1e-308 1.0]', '0', '[1 2 3]', '2.5', '[0 1]', '7', '"a"', '[1 2]', '[2.0 3.0]']
# statements that fail inside an arithmetic verb (type error, length error, undefined name) and assign nothing
FAILING = ['"a"^2', 'qq^2', '[1 2 3]^[1 2]', 'b::qq^2', '"a"+1', '[1 2 3]*[1 2]', 'qq%2', 'a^"x"', '"ab"%0',
           '-"a"', '[1 2 3]+[1 2]', 'c::"a"*2', '2^"a"', 'zz-1', '[1 2 3]%[1 2]', '"a"^"b"', '+/"ab"^2', '{x^2}("a")',
           '{x^y}([1 2 3];[1 2])', '[1 2 3]^[1.5 2]', '(1%0)^"a"', '_"a"', '"a"<1', '[1 2]=[1 2 3]']
NUM_TEXTS = ['a*10', 'a+a', 'b*10', '1e308*10', 'b*b', 'c%1e10', '1%d', '[1 2]%0', '0%0', 'a^2', '10^400',
             '2^[10 2000]', 'a-(-a)', '+/a', '*/a*10', '{x*10}(a)', 'f::{x*x}', 'f(b)', 'f(a)', '(-1)^0.5', '_b', '#a*10']


def gen_numeric_history(rng, length):
    hist = [f"{w}::{rng.choice(NUM_VALUES)}" for w in ("a", "b", "c", "d")]
    for _ in range(length):
        r = rng.random()
        if r < 0.35:
            hist.append(rng.choice(FAILING))
        elif r < 0.75:
            hist.append(rng.choice(NUM_TEXTS))
        elif r < 0.85:
            hist.append(f"{rng.choice('abcd')}::{rng.choice(NUM_VALUES)}")
        else:
            hist.append(rng.choice(hist))
    return [("expr", ("raw", t)) for t in hist]


# ---------------------------------------------------------------- which names may a statement assign?

def base_of(name):
    return str(name).split("`")[0]


def expr_assigns(e, fdefs, depth=0):
    """bases a model-grammar expression may assign when evaluated (None: unknown)"""
    k = e[0]
    if k == "raw":
        return set(e[2]) if len(e) > 2 and e[2] is not None else None
    if k in ("lit", "dlit", "var", "fn"):
        return set()
    if k == "assign":
        r = expr_assigns(e[2], fdefs, depth)
        return None if r is None else r | {e[1]}
    if k == "call":
        r = expr_assigns(e[2], fdefs, depth)
        if r is None or depth > 6:
            return None
        for body in fdefs.get(e[1], []):
            rb = expr_assigns(body, fdefs, depth + 1)
            if rb is None:
                return None
            r |= rb
        return r
    out = set()
    for sub in e[2:] if k in ("op1", "op2") else e[1:]:
        if isinstance(sub, tuple):
            r = expr_assigns(sub, fdefs, depth)
            if r is None:
                return None
            out |= r
    return out


def stmt_assigns(st, fdefs):
    if st[0] == "module":
        return set() if st[1] is None else {st[1]}
    return expr_assigns(st[1], fdefs)


def note_definitions(st, fdefs):
    """remember function bodies bound by `f::{...}` (every definition of a base name is kept: conservative)"""
    if st[0] == "expr":
        e = st[1]
        while e[0] == "assign":
            if e[2][0] == "fn":
                fdefs.setdefault(e[1], []).append(e[2][1])
            e = e[2]


# local declarations in both spellings, colliding with globals (oracles only; the third member of a raw node
# lists the names the statement is allowed to assign)
LOCAL_DECLS = ['[{0}]', '[{0} {1}]', '[{0};{1}]', '[{0} {1} {2}]', '[{0};{1};{2}]', '[{0};{1} {2}]', '[{1};{0}]']


def gen_locals_history(rng, length):
    names = ["a", "b", "c", "d"]
    hist = [(f"{w}::{rng.choice(['100', '[7 8 9]', '5', '\"gl\"'])}", [w]) for w in names]
    fglob = {"f": set(), "g": set()}        # globals a call of f / g may assign
    for _ in range(length):
        r = rng.random()
        if r < 0.35:
            fn = rng.choice(["f", "g"])
            loc = rng.sample(names, 3)
            decl = rng.choice(LOCAL_DECLS).format(*loc)
            declared = [n for n in loc if n in decl.replace("[", " ").replace("]", " ").replace(";", " ").split()]
            steps, assigned = [], set()
            for n in rng.sample(declared, rng.randrange(1, len(declared) + 1)):
                steps.append(f"{n}::{rng.choice(['x*2', 'x+1', '[1 2]', 'x'])}")
                assigned.add(n)
            glob = set()
            if rng.random() < 0.3:
                gname = rng.choice([n for n in names if n not in declared] or names)
                if gname not in declared:
                    steps.append(f"{gname}::x")
                    glob.add(gname)
            if fn == "g" and rng.random() < 0.4:
                steps.append("f(x)")
                glob |= fglob["f"]
            ret = rng.choice(declared + ["x"])
            text = fn + "::{" + decl + ";" + ";".join(steps + [ret]) + "}"
            fglob[fn] = fglob[fn] | glob      # every definition so far (a stale parse must not matter)
            hist.append((text, [fn]))
        elif r < 0.75:
            fn = rng.choice(["f", "g"])
            arg = rng.choice(["5", "2", "a", "b", "[1 2 3]"])
            allowed = set(fglob[fn]) | (fglob["f"] if fn == "g" else set())
            if rng.random() < 0.4:
                tgt = rng.choice(names)
                hist.append((f"{tgt}::{fn}({arg})", sorted(allowed | {tgt}), (fn, tgt)))
            else:
                hist.append((f"{fn}({arg})", sorted(allowed), (fn, None)))
        elif r < 0.85:
            w = rng.choice(names)
            hist.append((f"{w}::{rng.choice(['100', '[7 8 9]', '1'])}", [w]))
        elif r < 0.93:
            hist.append((rng.choice(names), []))
        else:
            h = rng.choice(hist)
            if len(h) > 2:        # a repeated call: what it may assign is decided by the definitions of NOW
                fn, tgt = h[2]
                al = set(fglob[fn]) | (fglob["f"] if fn == "g" else set()) | ({tgt} if tgt else set())
                h = (h[0], sorted(al), h[2])
            hist.append(h)
    return [("expr", ("raw", h[0], h[1])) for h in hist]


# gradient operators take a variable NAME, rebind it to perturbed points while they work and must put the
# original value back: an expression without `::` leaves every variable as it was (oracles only)
GRAD_VALUES = ['[1 2 3]', '[1.0 2.0 3.0]', '3', '2.5', '[[1.0 2.0] [3.0 4.0]]', '[0.5 1.5]', '[2 4]', '1.5', '0']
GRAD_FNS = ['{+/x*x}', '{x*x}', '{+/x^2}', '{+/x*a}', '{(+/x)+b}', '{x+zz(1)}', '{+/x,"a"}', '{x*2}', '{+/,/x*x}',
            '{(a*a)+b*b}', '{+/(a*x)+b}', '{x@0}', '{#x}', '{+/x*x;zz(1)}']


def gen_grad_history(rng, length):
    names = ["a", "b", "c", "d"]
    hist = [(f"{w}::{rng.choice(GRAD_VALUES)}", [w]) for w in names]
    hist += [("f::" + rng.choice(GRAD_FNS[:5]), ["f"]), ("g::" + rng.choice(GRAD_FNS), ["g"])]
    for _ in range(length):
        r = rng.random()
        v, fn = rng.choice(names), rng.choice(["f", "g", rng.choice(GRAD_FNS)])
        pt = rng.choice(GRAD_VALUES)
        if r < 0.30:
            e = f"{v}∇{fn}"                                 # by name
        elif r < 0.38:
            e = f"{pt}∇{fn}"                                # literal point
        elif r < 0.52:
            e = f"{fn}:>{rng.choice([v, pt])}"
        elif r < 0.62:
            e = f"{fn}:>[{rng.choice(names)} {rng.choice(names)}]"       # several parameters by name
        elif r < 0.72:
            e = f"{rng.choice([v, pt, '[a b]'])}∂{fn}"
        elif r < 0.80:
            hist.append((f"{v}::{pt}", [v]))
            continue
        elif r < 0.86:
            hist.append((rng.choice(["f", "g"]) + "::" + rng.choice(GRAD_FNS), ["f", "g"]))
            continue
        elif r < 0.93:
            hist.append((rng.choice(names), []))
            continue
        else:
            hist.append(rng.choice(hist))
            continue
        if rng.random() < 0.25:
            tgt = rng.choice(names)
            hist.append((f"{tgt}::{e}", [tgt]))
        else:
            hist.append((e, []))
    return [("expr", ("raw", t, al)) for t, al in hist]


def torch_grad_histories():
    """the gradient family on the torch backend: a gradient repeated at the same tensor, stored results re-read"""
    L_ = lambda t, al: ("expr", ("raw", t, al))
    out = []
    out.append([L_('f::{+/x*x}', ['f']), L_('a::[1.0 2.0 3.0]', ['a']), L_('f:>a', []), L_('f:>a', []), L_('f:>a', []),
                L_('a', []), L_('a*2', []), L_('g::f:>a', ['g']), L_('h::f:>a', ['h']), L_('g', []), L_('h', []), L_('a', [])])
    out.append([L_('f::{+/x*x}', ['f']), L_('f:>[1.0 2.0 3.0]', []), L_('f:>[1.0 2.0 3.0]', []), L_('f:>[1.0 2.0 3.0]', []),
                L_('a::[0.5 1.5]', ['a']), L_('a∇f', []), L_('a∇f', []), L_('a', []), L_('b::a', ['b']), L_('f:>b', []),
                L_('f:>a', []), L_('b', []), L_('a∂f', []), L_('a', [])])
    out.append([L_('w::1.5', ['w']), L_('b::0.5', ['b']), L_('g::{(w*w)+b*b}', ['g']), L_('g:>[w b]', []), L_('g:>[w b]', []),
                L_('w', []), L_('b', []), L_('c::[1 2 3]', ['c']), L_('{+/x*x}:>c', []), L_('{+/x*x}:>c', []), L_('c', []),
                L_('d::[[1.0 2.0] [3.0 4.0]]', ['d']), L_('{+/,/x*x}:>d', []), L_('{+/,/x*x}:>d', []), L_('d', [])])
    return out


def torch_purity_histories():
    """aliasing / literal / view purity probes for Amend and the other verbs that could write in place, on the
    torch backend (torch's array() hands a tensor back as it is, slices are views)"""
    L_ = lambda t, al: ("expr", ("raw", t, al))
    out = []
    # Amend: variable, alias, function-body literal, repeated literal text, function returning a literal
    out.append([L_('a::[1 2 3 4]', ['a']), L_('b::a:=9,0', ['b']), L_('a', []), L_('b', []), L_('c::[1.5 2.5 3.5]', ['c']),
                L_('d::c', ['d']), L_('b::d:=0.0,1', ['b']), L_('c', []), L_('d', []), L_('a:=7,[1 2]', []), L_('a', []),
                L_('f::{[1 2 3]:=x,0}', ['f']), L_('f(5)', []), L_('f(6)', []), L_('[1 2 3]:=7,1', []), L_('[1 2 3]:=7,1', []),
                L_('g::{[10 20 30]+0*x}', ['g']), L_('(g(0)):=0,2', []), L_('g(0)', [])])
    # Amend / Amend-in-Depth of sub-lists obtained by take / drop / reverse / index
    out.append([L_('a::[10 20 30 40]', ['a']), L_('b::2#a', ['b']), L_('c::b:=0,0', ['c']), L_('a', []), L_('b', []),
                L_('b::1_a', ['b']), L_('c::b:=0,1', ['c']), L_('a', []), L_('b::|a', ['b']), L_('c::b:=5,0', ['c']), L_('a', []),
                L_('b::a@[0 1]', ['b']), L_('c::b:=5,0', ['c']), L_('a', []), L_('c::(2#a):-1,0', ['c']), L_('a', []),
                L_('d::[[1.0 2.0] [3.0 4.0]]', ['d']), L_('c::d:-9.0,0,1', ['c']), L_('d', []), L_('b::d@0', ['b']),
                L_('c::b:=7.0,0', ['c']), L_('d', []), L_('b', []), L_('c::d:=0.0,1', ['c']), L_('d', [])])
    # the other verbs: none of them may change its operand either
    out.append([L_('a::[3 1 2]', ['a']), L_('b::a', ['b'])] +
               [L_(t, []) if "::" not in t else L_(t, [t.split("::")[0]]) for t in
                ['a,4', 'a', '4,a', 'a,a', 'a', '|a', 'a', 'a+1', 'a*2', 'a-a', 'a', '+/a', '*/a', '|/a', '+\\a', 'a', '<a', '>a',
                 'a@<a', 'a', '1:+a', 'a', '[-1 3]:^a', 'a', '#a', '^a', '&a', 'a', '-a', 'a', '?a', 'a', '2#a', '5#a', 'a',
                 'c::a:-0,1', 'a', 'b', 'a::a:=0,0', 'b', 'a']])
    return out


def gen_module_history(rng, length):
    """open, define, close, define same-named globals, re-open the same module, close, read (model grammar)"""
    names = ["a", "b"]
    hist = []
    if rng.random() < 0.6:
        # module defines a private name; a global of that name after the module is closed; the module re-opened
        m, n = rng.choice(["m1", "m2"]), rng.choice(names)
        hist += [("module", m), ("expr", assign(n, lit_int(1)))]
        if rng.random() < 0.5:
            hist.append(("expr", assign("f", ("fn", op2("arith:plus", var("x"), var(n))))))
        hist += [("module", None), ("expr", assign(n, lit_int(50))), ("expr", var(n)), ("module", m)]
        if rng.random() < 0.6:
            hist.append(("module", None))
        hist.append(("expr", var(n)))
    for _ in range(length):
        r = rng.random()
        if r < 0.34:
            opened = [h for h in hist if h[0] == "module"]
            is_open = bool(opened) and opened[-1][1] is not None
            if is_open and rng.random() < 0.85:
                hist.append(("module", None))
            else:
                hist.append(("module", rng.choice(["m1", "m1", "m1", "m2"])))
        elif r < 0.62:
            hist.append(("expr", assign(rng.choice(names), lit_int(rng.choice([1, 7, 50, 3])))))
        elif r < 0.70:
            hist.append(("expr", assign("f", ("fn", rng.choice([op2("arith:plus", var("x"), var("a")), op2("arith:plus", var("x"), var("b"))])))))
        elif r < 0.78:
            hist.append(("expr", call("f", lit_int(1))))
        else:
            hist.append(("expr", var(rng.choice(names))))
    return hist


def scripted_histories():
    """hand-made histories the property description names"""
    A_ = lambda n, e: ("expr", assign(n, e))
    E_ = lambda e: ("expr", e)
    out = []
    # the histories of the Lean witnesses (Klong.C04.Witness.histModule / histStale / histAmend / histKey / histViews)
    out.append([("module", "m1"), ("module", None), ("module", "m1"), A_("b", lit_int(2))])
    out.append([A_("a", lit_int(3)), A_("b", op2("arith:times", var("a"), lit_int(2))), A_("a", lit_str("ab")),
                A_("b", op2("arith:times", var("a"), lit_int(2)))])
    out.append([A_("a", lit_ints([1, 2, 3])), A_("b", var("a")),
                A_("c", op2("amend", var("b"), op2("join", lit_int(9), lit_int(0)))), E_(var("a")),
                A_("a", lit_ints([1, 2, 3]))])
    out.append([A_("a", lit_int(5)), ("module", "m1"), A_("a", lit_int(5)), ("module", None)])
    out.append([A_("a", lit_ints([1, 2, 3, 4])), A_("b", op2("drop", lit_int(1), var("a"))),
                A_("c", op2("amend", var("b"), op2("join", lit_int(9), lit_int(0)))),
                A_("f", ("fn", op2("join", var("x"), lit_ints([7, 7])))), A_("c", call("f", var("a"))), E_(var("a")),
                A_("b", op2("arith:plus", var("a"), var("a"))), E_(op2("arith:plus", var("a"), var("a")))])
    # module switches re-using cached parses
    out.append([("module", "m1"), A_("a", lit_int(1)), ("module", None), ("module", "m1"), A_("b", lit_int(2)),
                E_(var("a")), ("module", None), E_(var("b")), E_(var("a"))])
    out.append([("module", "m1"), ("module", None), ("module", "m1"), A_("b", lit_ints([1, 2])), ("module", None),
                ("module", "m2"), A_("b", lit_int(3)), ("module", None), E_(var("b"))])
    out.append([("module", "m1"), A_("a", lit_int(10)), ("module", None), ("module", "m2"), A_("a", lit_int(20)),
                ("module", None), E_(var("a")), ("module", "m1"), E_(var("a")), ("module", None)])
    # the same text many times, the variable rebound to another kind in between (stale compiled code)
    for t in [A_("b", op2("arith:times", var("a"), lit_int(2))), E_(op2("arith:plus", var("a"), var("a"))),
              A_("b", op1("over:plus", var("a"))), A_("b", op1("size", op2("arith:times", var("a"), lit_int(2)))),
              E_(op2("arith:minus", var("a"), lit_int(1)))]:
        h = []
        for lit in [lit_int(3), lit_str("ab"), lit_ints([1, 2, 3]), lit_mat([[1, 2], [3, 4]]), lit_str("xyz"), lit_int(5)]:
            h += [A_("a", lit), t, t]
        out.append(h)
    # a node first evaluated with an inadmissible operand must not stay interpreted for ever
    for o in ("scan:plus", "scan:times", "over:plus"):
        t = A_("b", op1(o, var("a")))
        out.append([A_("a", lit_str("ab")), t, A_("a", lit_mat([[1, 2], [3, 4]])), t, t, A_("a", lit_ints([2, 3])), t])
    out.append([A_("f", ("fn", op1("size", op1("scan:plus", var("x"))))), E_(call("f", lit_str("ab"))),
                E_(call("f", lit_mat([[1, 2], [3, 4]]))), E_(call("f", lit_ints([1, 2, 3])))])
    out.append([A_("f", ("fn", op1("size", op2("arith:times", var("x"), lit_int(2))))), E_(call("f", lit_ints([1, 2]))),
                E_(call("f", lit_str("ab"))), E_(call("f", lit_int(4))), E_(call("f", lit_str("ab")))])
    # amend a slice obtained from a variable, then look at the variable
    out.append([A_("a", lit_ints([1, 2, 3, 4])), A_("b", op2("drop", lit_int(1), var("a"))),
                A_("c", op2("amend", var("b"), op2("join", lit_int(9), lit_int(0)))), E_(var("a")), E_(var("b")),
                A_("d", op1("rev", var("a"))), A_("c", op2("amendD", var("d"), op2("join", lit_int(7), lit_int(1)))),
                E_(var("a")), A_("a", lit_ints([1, 2, 3, 4])), E_(var("a"))])
    out.append([A_("a", lit_mat([[1, 2], [3, 4]])), A_("b", op2("index", var("a"), lit_int(0))),
                A_("c", op2("amend", var("b"), op2("join", lit_int(9), lit_int(1)))), E_(var("a")),
                A_("d", op2("amendD", var("a"), op2("join", lit_int(0), op2("join", lit_int(1), lit_int(1))))), E_(var("a")),
                A_("b", op2("take", lit_int(1), var("a"))), A_("c", op2("amend", var("b"), op2("join", lit_int(5), lit_int(0)))),
                E_(var("a")), E_(var("b"))])
    # literal evaluated again after values produced from it were amended
    out.append([A_("a", lit_ints([1, 2, 3])), A_("b", var("a")), A_("b", op2("amend", var("b"), op2("join", lit_int(9), lit_int(0)))),
                A_("a", lit_ints([1, 2, 3])), E_(var("a")), A_("f", ("fn", op2("join", var("x"), lit_ints([9, 9])))),
                A_("c", call("f", var("a"))), A_("d", op2("amend", var("c"), op2("join", lit_int(0), lit_int(3)))),
                E_(call("f", var("a")))])
    # object arrays: a shallow copy of the outer list is not enough (rows are shared ndarray objects)
    R_ = lambda t: ("expr", ("raw", t))
    out.append([R_('a::[[1 2] [:a 4 5]]'), R_('b::a:-9,1,1'), R_('a'), R_('b'), R_('a::[[1 2] [:a 4 5]]'), R_('a')])
    out.append([R_('a::[[1 2] ["x" 4 5]]'), R_('a:-0,1,2'), R_('a:-7,1,1'), R_('a::[[1 2] ["x" 4 5]]'), R_('a')])
    out.append([R_('c::[:p :q :r]'), R_('d::[;c;[1 2]]'), R_('b::d:-:z,0,0'), R_('c'), R_('d'), R_('b')])
    out.append([R_('a::[[1 [2 3]] [4 [5 6 7]]]'), R_('b::a:-9,1,1,0'), R_('a'), R_('c::(1_a):-8,0,1,1'), R_('a'),
                R_('d::(a@1):=0,0'), R_('a'), R_('d::(|a):-:z,0,0'), R_('a')])
    out.append([R_('a::["ab" "cde"]'), R_('b::a:-0cz,1,0'), R_('a'), R_('c::a:="q",0'), R_('a'), R_('a::["ab" "cde"]'), R_('a')])
    # int/real twin texts: the second one evaluated must not run the first one's code
    out.append([R_('a::[1 2 3]'), R_('a*2'), R_('a*2.0'), R_('a*2'), R_('b::7'), R_('b+1'), R_('b+1.0'),
                R_('+/a*2'), R_('+/a*2.0'), R_('c::5;c-0'), R_('b-0.0')])
    out.append([R_('a::[1 2 3]'), R_('a*2.0'), R_('a*2'), R_('f::{x+1}'), R_('f(1)'), R_('g::{x+1.0}'), R_('g(3)'),
                R_('f(3)'), R_('a=1'), R_('a=1.0'), R_('a^2'), R_('a^2.0'), R_('a%2.0'), R_('a%2')])
    # Reshape must not rewrite the -1 of a shape that outlives the call
    out.append([R_('a::[-1 2]'), R_('c::a'), R_('a:^!10'), R_('a'), R_('c'), R_('a:^!6'), R_('f::{[-1 2]:^x}'),
                R_('f(!10)'), R_('f(!6)'), R_('b::!8'), R_('[2 -1]:^b'), R_('b::!12'), R_('[2 -1]:^b')])
    # a node that once saw a numpy scalar or a string must not stay on the wrapping verb path
    out.append([R_('f::{$x*y}'), R_('a::[3 5 7]'), R_('f(a@0;a@1)'), R_('f(10000000000;10000000000)'),
                R_('g::{$x*y}'), R_('g("ab";2)'), R_('g(10000000000;10000000000)')])
    out.append([R_('a::[3 5]@0;b::2'), R_(',a*b'), R_('a::10000000000;b::a'), R_(',a*b'), R_('$a+b'),
                R_('b::"ab"'), R_('$a+b'), R_('b::4611686018427387904;a::b'), R_('$a+b'), R_(',a*b')])
    # a function that declares a name local (either spelling) must not assign the outer variable of that name
    L_ = lambda t, al: ("expr", ("raw", t, al))
    out.append([L_('a::100', ['a']), L_('b::[7 8 9]', ['b']), L_('f::{[a b];a::x*2;b::a+1;b}', ['f']),
                L_('g::{[a;b];a::x*2;b::a+1;b}', ['g']), L_('f(5)', []), L_('a', []), L_('b', []), L_('g(5)', []),
                L_('a', []), L_('b', []), L_('c::g(2)', ['c']), L_('a', [])])
    # the gradient operators put back what they rebind (by name, several names, on success and on failure)
    out.append([L_('a::[1 2 3]', ['a']), L_('b::a', ['b']), L_('f::{+/x*x}', ['f']), L_('a∇f', []), L_('a', []), L_('b', []),
                L_('c::3', ['c']), L_('c∇{x*x}', []), L_('c', []), L_('d::[1.0 2.0]', ['d']), L_('d∇{x+zz(1)@"a"}', []),
                L_('d', []), L_('f:>a', []), L_('a', []), L_('a∂f', []), L_('a', []), L_('[1.0 2.0]∇f', []),
                L_('d∇{x*2}', []), L_('d', [])])
    out.append([L_('a::1.5', ['a']), L_('b::0.5', ['b']), L_('g::{(a*a)+b*b}', ['g']), L_('g:>[a b]', []), L_('a', []),
                L_('b', []), L_('[a b]∂g', []), L_('a', []), L_('c::[[1.0 2.0] [3.0 4.0]]', ['c']), L_('c∇{+/,/x*x}', []),
                L_('c', []), L_('c∇{+/x*x}', []), L_('c', []), L_('d::g:>[a b]', ['d']), L_('a', [])])
    # module-private names that are string prefixes of each other / of globals, in both definition orders
    out.append([L_('n::3', ['n']), L_('v::[1 2 3 4]', ['v']), L_('n', []), L_('.module(:stat)', ['stat']),
                L_('nrm::{x%+/x}', ['nrm']), L_('vmax::{|/x}', ['vmax']), L_('.module(0)', []), L_('n', []), L_('n+1', []),
                L_('vmax([3 9 4])', []), L_('v', []), L_('+/v', [])])
    out.append([L_('.module(:geo)', ['geo']), L_('rad::10', ['rad']), L_('r::2', ['r']), L_('.module(0)', []), L_('r', []),
                L_('rad', []), L_('r+rad', [])])
    out.append([L_('.module(:geo)', ['geo']), L_('r::2', ['r']), L_('rad::10', ['rad']), L_('.module(0)', []), L_('r', []),
                L_('rad', []), L_('ab::7', ['ab']), L_('.module(:m1)', ['m1']), L_('abc::1', ['abc']), L_('a::5', ['a']),
                L_('.module(0)', []), L_('ab', []), L_('a', []), L_('abc', [])])
    # re-opening a module must not change what a name evaluates to
    out.append([("module", "m1"), A_("b", lit_int(1)), A_("f", ("fn", op2("arith:plus", var("x"), var("b")))), ("module", None), A_("b", lit_int(50)),
                E_(var("b")), ("module", "m1"), ("module", None), E_(var("b")), A_("b", lit_int(7)), E_(var("b")),
                ("module", "m1"), E_(var("b")), A_("g", ("fn", op2("arith:times", var("x"), lit_int(2)))), ("module", None),
                E_(var("b")), E_(call("f", lit_int(0)))])
    # a failing statement must not leave process-wide numeric state behind (overflow -> inf, not an error)
    out.append([R_('a::[1e308 1.0]'), R_('a*10'), R_('a+a'), R_('1e308*10'), R_('"a"^2'), R_('a*10'), R_('b::qq^2'),
                R_('a+a'), R_('[1 2 3]^[1 2]'), R_('1e308*10'), R_('a^2'), R_('1%0'), R_('10^400')])
    # dictionaries are shared and updated in place; dictionary literals are fresh each time
    out.append([A_("t", ("dlit", [(1, 2)])), A_("d", var("t")), E_(op2("join", var("t"), op2("join", lit_int(3), lit_int(4)))),
                E_(var("d")), A_("t", ("dlit", [(1, 2)])), E_(var("t")), E_(var("d")), E_(op2("find", var("d"), lit_int(3)))])
    return out


# --------------------------------------------------------------------------- one history

# verbs whose result must never share memory with an existing array (Over is not one of them: the
# interpreted Over of a one-element list returns that element, e.g. the row of a one-row matrix)
FRESH_ONLY = {"amend", "amendD", "arith:plus", "arith:times", "arith:minus", "size", "scan:plus", "scan:times"}


def top_verb(st):
    if st[0] != "expr":
        return None
    e = st[1]
    while e[0] == "assign":
        e = e[2]
    return e[1] if e[0] in ("op1", "op2") else e[0]


def run_history(ctx, stmts, drv, label, probes=False, backend=None):
    """returns True if nothing was reported; an exception out of the real code's data or out of the harness's
    own decoding of it is reported with the history as replay, never raised"""
    import traceback
    g0 = process_state()
    try:
        return _run_history(ctx, stmts, drv, label, probes, backend)
    except common.Infra:
        raise
    except Exception as e:
        ctx.mismatch("harness could not run / decode this history on the real code",
                     dict(kind=label, history=[json_stmt(s) for s in stmts], texts=[stmt_text(s) for s in stmts]),
                     "history runs and its results decode", f"{type(e).__name__}: {e}\n" + traceback.format_exc()[-1500:])
        return False
    finally:
        restore_process_state(g0)


def _run_history(ctx, stmts, drv, label, probes, backend=None):
    from klongpy import KlongInterpreter
    A = KlongInterpreter(backend=backend)
    C = KlongInterpreter(backend=backend)
    model = drv is not None
    if model:
        drv.ask("reset")
    clean = True
    pending = None
    probe_base = run_probes() if probes else None
    fdefs = {}
    seen_resolution = {}
    nested_open = False
    for i, st in enumerate(stmts):
        text = stmt_text(st)
        case = dict(kind=label, history=[json_stmt(s) for s in stmts[:i + 1]], texts=[stmt_text(s) for s in stmts[:i + 1]])
        pre_arrays = freeze(A)
        B = fresh_with_state_of(A)
        C._parse_cache.clear()
        C._compiled_cache.clear()
        strip_memos(C)
        allowed = stmt_assigns(st, fdefs)
        note_definitions(st, fdefs)
        if A._module is not None and ".module(:" in text:
            # a module opened inside another one is named "m`n" at run time and no longer matches its own
            # qualified names: what names resolve to then is a quirk of unsupported nesting, not judged here
            nested_open = True
        sA_pre = snapshot(A)
        g0 = process_state()
        oA = execute(A, text)
        g1 = process_state()
        restore_process_state(g0)
        oB = execute(B, text)
        restore_process_state(g0)
        oC = execute(C, text)
        restore_process_state(g0)
        sA, sB, sC = snapshot(A), snapshot(B), snapshot(C)
        verb = top_verb(st) or "module"
        # ---- oracle 4: process-global numeric state is state a later text depends on; no statement of the
        #      grammar may change it (a fresh interpreter of the same process would be affected as well)
        if g1 != g0:
            d = state_diff(g0, g1)
            ctx.oracle_fail("process-state:" + ",".join(sorted(d)), case, {k: v[0] for k, v in d.items()},
                            {k: v[1] for k, v in d.items()},
                            "the statement changed process-wide numeric state (numpy error handling, …): texts "
                            "evaluated later - in this and in any other interpreter of the process - behave differently")
            return False
        if probes:
            np.seterr(**g1["np.geterr"])          # what the process would look like without the harness's restore
            after = run_probes()
            restore_process_state(g0)
            for t, o0, o1 in zip(PROBES, probe_base, after):
                if not out_eq(o0, o1):
                    ctx.oracle_fail("process-history:probe", dict(case, probe=t), out_text(o0), out_text(o1),
                                    f"`{t}` in a brand-new interpreter with the same values gives a different outcome "
                                    "after this history than before it")
                    return False
        # ---- oracle 5: only the names the program assigns may change (dictionaries are shared objects; reading an
        #      undefined name binds it to itself; `x` lives in call frames)
        if allowed is not None:
            for name in sorted(set(sA_pre) | set(sA), key=qkey):
                b = base_of(name)
                if b in allowed or b == "x":
                    continue
                v0, v1 = sA_pre.get(name), sA.get(name)
                if v0 is not None and v0[0] == "D":
                    continue
                if v0 is None and v1 == ("y", name):
                    continue
                if v0 is None or v1 is None or not veq(v0, v1):
                    ctx.oracle_fail(f"assigns-other-variable:{verb}", dict(case, variable=name, may_assign=sorted(allowed)),
                                    "unchanged: " + (fmt(v0) if v0 else "undefined"), fmt(v1) if v1 else "undefined",
                                    f"the statement changed `{name}`, which it does not assign (a name declared local "
                                    "in a function, or untouched by the text)")
                    return False
        # ---- oracle 6: what a name evaluates to (under the same parse-time module) changes only if a variable of
        #      that name was assigned in between
        M = None if A._module is None else str(A._module)
        res = {}
        from klongpy.core import KGSym
        frame_values = {}
        for d in user_frames(A):
            for kk, vv in d.items():
                if not str(kk).startswith("."):
                    frame_values.setdefault(base_of(kk), []).append(vv)
        for n in sorted(set(NAMES) | set(frame_values)):
            if n == "x" or n in MODS:       # call-frame argument; module-name symbols bind to themselves per module
                continue
            try:
                rv = A._context[KGSym(n if M is None else f"{n}`{M}")]
                res[n] = canon(rv)
            except KeyError:
                res[n] = ("U",)
                continue
            # ---- oracle 7: a name evaluates to the value of a variable OF THAT NAME (global or module-private),
            #      never to the value of a differently named one
            if not nested_open and not any(rv is vv or veq(res[n], canon(vv)) for vv in frame_values.get(n, [])):
                ctx.oracle_fail(f"resolution-foreign:{verb}", dict(case, name=n, module=M or "-"),
                                "the value of a variable named " + n + ": " +
                                ", ".join(fmt(canon(vv)) for vv in frame_values.get(n, [])) or "none",
                                fmt(res[n]), f"`{n}` evaluates to the value of a variable with another name")
                return False
        if M in seen_resolution and not nested_open:
            old_res, old_snap = seen_resolution[M]
            for n in res:
                if n not in old_res or veq(res[n], old_res[n]) or res[n][0] == "D":
                    continue
                touched = any(base_of(k) == n and (k not in old_snap or k not in sA or not veq(old_snap[k], sA[k]))
                              for k in set(old_snap) | set(sA))
                if not touched:
                    ctx.oracle_fail(f"resolution-changed:{verb}", dict(case, name=n, module=M or "-"),
                                    fmt(old_res[n]), fmt(res[n]),
                                    f"`{n}` evaluates to a different value than the last time the interpreter was in "
                                    "this module, although no variable of that name was assigned in between")
                    return False
        seen_resolution[M] = (res, sA)
        # ---- oracle 3: a verb wrote into an array that a variable or a cached tree holds
        if oA[0] == "err" and "read-only" in str(oA[2]):
            ctx.oracle_fail(f"writes-argument:{verb}", case, "no write to an existing array",
                            f"{type(oA[2]).__name__}: {oA[2]}", "a verb wrote in place into an array bound to a variable "
                            "or stored in a cached parse tree (arrays were frozen read-only by the harness)")
            return False
        # ---- oracle 1: fresh interpreter loaded with a copy of the pre-state
        if not (out_eq(oA, oB) and snap_eq(sA, sB) and mod_text(A) == mod_text(B)):
            what = ("outcome" if not out_eq(oA, oB) else "variables" if not snap_eq(sA, sB) else "module")
            report = dict(key=f"rerun-fresh:{what}:{verb}", case=case,
                          expected=dict(fresh=out_text(oB), vars=snap_text(sB), module=mod_text(B)),
                          observed=dict(history=out_text(oA), vars=snap_text(sA), module=mod_text(A)),
                          what="the statement behaves differently after this history than in a fresh interpreter "
                               "loaded with a copy of the same variable state")
            if what == "module" and i + 1 < len(stmts):
                # only the parse-time module differs so far: go on, so that the replay shows where a later
                # definition lands (oracle 2 compares the variables with the cache-free run)
                pending = pending or report
                model = False
            else:
                ctx.oracle_fail(**report)
                return False
        # ---- oracle 2: the same history with every cache emptied before each statement
        if not (out_eq(oA, oC) and snap_eq(sA, sC)):
            what = "outcome" if not out_eq(oA, oC) else "variables"
            ctx.oracle_fail(f"cache-observable:{what}:{verb}", case,
                            dict(cache_free=out_text(oC), vars=snap_text(sC), module=mod_text(C)),
                            dict(cached=out_text(oA), vars=snap_text(sA), module=mod_text(A)),
                            "the history gives different results with the parse/compiled caches emptied before every "
                            "statement" + (" (after the parse-time module diverged from a fresh interpreter's at "
                                           f"statement {len(pending['case']['texts'])})" if pending else ""))
            return False
        # ---- sharing: result vs arrays that existed before
        shares = False
        if oA[0] == "ok" and isinstance(oA[2], np.ndarray):
            shares = any(np.shares_memory(oA[2], p) for p in pre_arrays if p.size)
        # ---- correspondence with the Lean machines
        if model and not in_model_grammar(st):
            model = False
        if model:
            rep = drv.ask("stmt " + " ".join(stmt_tokens(st)))
            f = dict(w.split("=", 1) for w in rep.split(" ") if "=" in w)
            if f.get("out") == "unm":
                ctx.bump("unmodelled")
                ctx.bump("unmodelled:" + verb)
                if len(ctx.extra.setdefault("unmodelled_samples", [])) < 40:
                    ctx.extra["unmodelled_samples"].append([stmt_text(s) for s in stmts[:i + 1]][-4:])
                model = False
            else:
                impl = f"out={out_text(oA)} vars={snap_text(sA)} mod={mod_text(A)}"
                mdl = f"out={f.get('out')} vars={f.get('vars')} mod={f.get('mod')}"
                if rep == "bad-op" or impl != mdl:
                    ctx.mismatch("Klong.C04.Interp.step vs KlongInterpreter.__call__", case, mdl if rep != "bad-op" else rep, impl)
                    return False
                if f.get("agree") != "1":
                    ctx.mismatch("Klong.C04.Interp.step vs Klong.C04.Ref.step (driver lockstep)", case, rep, "agree=1")
                    return False
                cls = f.get("cls")
                if shares and cls != "alias" or cls in ("fresh", "alias") and not isinstance(oA[2], np.ndarray):
                    ctx.mismatch("fresh/view classification vs np.shares_memory", case, f"cls={cls}",
                                 f"shares_memory={shares} type={type(oA[2]).__name__}")
                    return False
                ctx.bump("modelled")
                ctx.bump("cls:" + str(cls))
        elif shares and verb in FRESH_ONLY:
            ctx.mismatch("fresh/view classification vs np.shares_memory (oracle-only statement)", case,
                         f"{verb}: fresh", "result shares memory with an existing array")
            return False
        ctx.bump("stmt:" + verb)
        ctx.bump("out:" + oA[0])
        if shares:
            ctx.bump("result-shares-memory")
    if pending:
        ctx.oracle_fail(**pending)
        return False
    ctx.count((label, tuple(stmt_text(s) for s in stmts)), nontrivial=len(stmts) >= 2)
    return clean


def json_stmt(st):
    return json.loads(json.dumps(st))


def unjson(x):
    if isinstance(x, list):
        if x and isinstance(x[0], str) and x[0] in ("lit", "dlit", "var", "fn", "assign", "seq", "op1", "op2", "call",
                                                     "raw", "expr", "module"):
            if x[0] == "lit":
                return ("lit", x[1], x[2])
            if x[0] == "dlit":
                return ("dlit", [tuple(p) for p in x[1]])
            return tuple(unjson(y) for y in x)
        return [unjson(y) for y in x]
    return x


def gen_history(rng, length, ext):
    """statements are generated against a scout interpreter so that operands mostly fit"""
    from klongpy import KlongInterpreter
    scout = KlongInterpreter()
    hist = []
    prelude = [("expr", assign(w, gen_literal(rng))) for w in rng.sample(DATA, rng.randrange(2, 5))]
    if rng.random() < 0.7:
        prelude.append(("expr", assign("f", ("fn", rng.choice(BODIES[:16])))))
    for k in range(length + len(prelude)):
        st = prelude[k] if k < len(prelude) else gen_stmt(rng, scout, hist, ext)
        hist.append(st)
        try:
            scout(stmt_text(st))
        except Exception:
            pass
    return hist


# --------------------------------------------------------------------------- entry

def run(ctx):
    """a runaway allocation in the real code (a patched tree may do anything) must end as an `err` outcome of that
    statement, not as an OOM kill of the check: the address space is capped while histories run"""
    import resource
    soft, hard = resource.getrlimit(resource.RLIMIT_AS)
    cap = 16 * 2 ** 30
    try:
        resource.setrlimit(resource.RLIMIT_AS, (cap if hard == resource.RLIM_INFINITY else min(cap, hard), hard))
    except (ValueError, OSError):
        pass
    try:
        _run(ctx)
    finally:
        try:
            resource.setrlimit(resource.RLIMIT_AS, (soft, hard))
        except (ValueError, OSError):
            pass


def _run(ctx):
    quick = ctx.tier == "quick"
    drv = Driver("c04") if getattr(ctx, "driver_ok", True) else None
    ctx.rule = ("seeded statement histories over the closed grammar (literal/copy/verb assignments, amend and "
                "amend-in-depth, take/drop/index/reverse views then amended, function definitions and calls, over/scan "
                "on variables, repeated identical texts, variables rebound to another kind, dictionary updates, module "
                "switches; oracle-only histories over object arrays: ragged rows, rows with symbols/strings/characters, "
                "lists of strings, depth-3 lists, amended directly and through take/drop/index/reverse; oracle-only histories of "
                "int/real twin texts — compilable expressions differing only in 2 vs 2.0 — compared with kinds exact; Reshape with -1 wildcard shapes held in variables / aliases / function-body "
                "literals / repeated texts; exact-vs-wrapping integer arithmetic under uncompiled verbs with big, "
                "numpy-scalar and string operands; statements failing inside arithmetic verbs followed by overflow / underflow / "
                "divide-by-zero / invalid probes, with process-global numeric state (np.geterr, print options, decimal "
                "context, torch defaults) snapshotted around every statement and probe texts compared before/after in "
                "brand-new interpreters; functions with local declarations in both spellings whose names collide with globals; "
                "module open / define / close / same-named global / re-open / read histories; gradient operators ∇ :> ∂ by "
                "variable name, by several names and by literal point, with losses that raise; on the torch backend the gradient family and a "
                "deterministic purity family for Amend / Amend-in-Depth / the other verbs over variables, aliases, "
                "function-body literals, repeated literal texts and take/drop/reverse/index sub-lists); each statement re-run in a fresh interpreter loaded with a copy of the pre-state and in a "
                "cache-cleared interpreter; distinct = distinct histories; non-trivial = at least two statements")
    ctx.assumptions += [
        "Python-side mutation of arrays obtained through klong[name] is outside the property",
        "the model's verb meanings cover ints, strings, integer vectors/matrices and integer dictionaries; other operands "
        "(reported by the model as unmodelled) are checked by the oracles only",
        "compiled code equals the interpreter on admissible operands (plain numbers and arrays): property C05",
        "a Python int and a numpy integer are one kind (the model admits both to compiled code)",
    ]
    try:
        cdir = common.CORPUS / "C04"
        if cdir.exists():
            for p in sorted(cdir.glob("*.json")):
                c = json.loads(p.read_text())
                run_history(ctx, [unjson(s) for s in c["history"]], drv, "corpus")
        for h in scripted_histories():
            run_history(ctx, h, drv, "scripted", probes=any("1e308" in stmt_text(x) for x in h))
            ctx.sample(dict(kind="scripted", texts=[stmt_text(s) for s in h][:12]), limit=3)
        n_model = 400 if quick else 6000
        n_ext = 120 if quick else 2500
        for s in range(n_model):
            h = gen_history(ctx.rng, ctx.rng.randrange(3, 9 if quick else 14), ext=False)
            run_history(ctx, h, drv, "history")
            if s < 3:
                ctx.sample(dict(kind="history", texts=[stmt_text(x) for x in h]))
        for s in range(n_ext):
            h = gen_history(ctx.rng, ctx.rng.randrange(4, 10 if quick else 16), ext=True)
            run_history(ctx, h, drv, "history-ext")
        for s in range(150 if quick else 2500):
            h = gen_twin_history(ctx.rng, ctx.rng.randrange(2, 5 if quick else 8))
            run_history(ctx, h, None, "history-twin")
            if s < 2:
                ctx.sample(dict(kind="history-twin", texts=[stmt_text(x) for x in h]))
        for s in range(120 if quick else 2000):
            h = gen_locals_history(ctx.rng, ctx.rng.randrange(4, 10 if quick else 14))
            run_history(ctx, h, None, "history-locals")
            h = gen_module_history(ctx.rng, ctx.rng.randrange(6, 12 if quick else 18))
            run_history(ctx, h, drv, "history-module")
            if s < 1:
                ctx.sample(dict(kind="history-locals", texts=[stmt_text(x) for x in h]))
        try:
            import torch  # noqa: F401
            have_torch = True
        except Exception:
            have_torch = False
            ctx.bump("torch-unavailable")
        if have_torch:
            for h in torch_grad_histories() + torch_purity_histories():
                run_history(ctx, h, None, "scripted-torch", backend="torch")
            for s in range(10 if quick else 150):
                h = gen_grad_history(ctx.rng, ctx.rng.randrange(4, 10))
                run_history(ctx, h, None, "history-grad-torch", backend="torch")
        for s in range(80 if quick else 1200):
            h = gen_grad_history(ctx.rng, ctx.rng.randrange(4, 10 if quick else 14))
            run_history(ctx, h, None, "history-grad")
            if s < 1:
                ctx.sample(dict(kind="history-grad", texts=[stmt_text(x) for x in h]))
        for s in range(100 if quick else 1500):
            h = gen_numeric_history(ctx.rng, ctx.rng.randrange(4, 10 if quick else 14))
            run_history(ctx, h, None, "history-numeric", probes=True)
            if s < 1:
                ctx.sample(dict(kind="history-numeric", texts=[stmt_text(x) for x in h]))
        for s in range(100 if quick else 1500):
            h = gen_reshape_history(ctx.rng, ctx.rng.randrange(4, 10 if quick else 14))
            run_history(ctx, h, None, "history-reshape")
            h = gen_bigint_history(ctx.rng, ctx.rng.randrange(4, 10 if quick else 14))
            run_history(ctx, h, None, "history-bigint")
            if s < 1:
                ctx.sample(dict(kind="history-bigint", texts=[stmt_text(x) for x in h]))
        for s in range(150 if quick else 2500):
            h = gen_obj_history(ctx.rng, ctx.rng.randrange(4, 10 if quick else 14))
            run_history(ctx, h, None, "history-obj")
            if s < 2:
                ctx.sample(dict(kind="history-obj", texts=[stmt_text(x) for x in h]))
        tot = ctx.hist.get("modelled", 0) + ctx.hist.get("unmodelled", 0)
        ctx.extra["fraction_of_model_grammar_statements_inside_model_domain"] = (
            round(ctx.hist.get("modelled", 0) / tot, 4) if tot else None)
    finally:
        if drv:
            drv.close()


def replay(ctx, case):
    drv = Driver("c04") if getattr(ctx, "driver_ok", True) else None
    c = case.get("case", case)
    try:
        run_history(ctx, [unjson(s) for s in c["history"]], drv, c.get("kind", "replay"),
                    probes=c.get("kind") in ("history-numeric", "scripted"),
                    backend="torch" if "torch" in str(c.get("kind")) else None)
    finally:
        if drv:
            drv.close()
    print("replay: texts:", c.get("texts"))
    print("replay: oracle failures:", json.dumps(ctx.oracle_failures, default=str)[:3000])
    print("replay: mismatches:", json.dumps(ctx.mismatches, default=str)[:3000])
