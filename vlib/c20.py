"""C20 — web routes and websocket messages reach their Klong handler exactly once, intact.

Tie: a REAL server started by `.web` on a loopback port (from bind(0)) is driven by an in-process
aiohttp client with seeded operation sequences (requests to registered / unknown / wrong-method /
skipped routes x parameter dictionaries, handler redefinition between requests, `.webc`), and a
REAL `.ws` client is fed by an in-process `websockets` server.  After every operation the
response and the Klong-side call log are compared with the Lean machine `Klong.C20` (driver
kd_c20) and with the property's own oracle (a plain Python reading of the property, no model).
"""
import asyncio
import json
import socket
import threading
import time

from . import common
from .common import Driver, fields, Infra

CLAIM = dict(
    text="Lean 4 theorems over the route-registration loop with explicit closure capture (early = the code, "
         "late = the broken variant), request dispatch, handler re-resolution by name, .webc, the websocket listen "
         "loop as a fold over arriving frames, and the JSON encoder/codec: refinement of every operation sequence "
         "to direct dictionary lookup, exactly-once/with-exactly-the-parameters per request, failure containment, "
         "no handler for unknown paths, no answer after .webc, exactly-once-in-order delivery of websocket frames, "
         "JSON round trip on the sendable universe; tied to klongpy.web / klongpy.ws by per-operation correspondence "
         "on a real aiohttp server and a real websockets connection.",
    note="trusted: Lean kernel (axioms propext/Classical.choice/Quot.sound), correspondence harness, CPython json, "
         "aiohttp routing and form/query decoding, websockets framing, asyncio; handlers are functions of their "
         "parameter dictionary; overlapping requests are served one handler at a time (any serial order); a bare `null` "
         "websocket frame is a known finding",
    technique="Lean 4 refinement + invariant proofs over a hand-written model, differential correspondence against "
              "the real server/client over loopback TCP, property oracle on the real code",
    design="7/C20")

MODULES = ["Klong.Props.C20"]
THEOREMS = [
    "Klong.C20.run_refines_spec",
    "Klong.C20.route_exactly_once",
    "Klong.C20.params_exactly_by_method",
    "Klong.C20.projection_handler_served",
    "Klong.C20.failure_contained",
    "Klong.C20.unknown_path_no_handler",
    "Klong.C20.unknown_key_no_handler",
    "Klong.C20.after_shutdown_no_answer",
    "Klong.C20.burst_independent",
    "Klong.C20.late_capture_breaks",
    "Klong.C20.Ws.ws_exactly_once_in_order_partial",
    "Klong.C20.Ws.ws_at_most_once_in_order",
    "Klong.C20.Ws.ws_null_not_delivered",
    "Klong.C20.encode_sendable",
    "Klong.C20.encode_pinned_fails",
    "Klong.C20.send_history_at_call",
    "Klong.C20.deferred_encoding_breaks",
    "Klong.C20.parse_render",
    "Klong.C20.json_roundtrip",
    "Klong.C20.ws_delivers_rendered",
]
SLOW = 0.2          # seconds a handler takes while a burst of overlapping requests is in flight
WAIT = 20.0         # seconds a single network step may take before it counts as "no answer / lost"
#                     (only ever waited out when something IS lost; never an oracle by itself)


def hx(s):
    return s.encode("utf-8").hex()


def jhx(obj):
    return hx(json.dumps(obj))


def unhx(h):
    return bytes.fromhex(h).decode("utf-8")


# --------------------------------------------------------------------------- harness loop

class Loop:
    """a private asyncio loop in a thread: hosts the aiohttp client and the websockets server"""

    def __init__(self):
        self.loop = asyncio.new_event_loop()
        self.thread = threading.Thread(target=self._main, daemon=True)
        self.thread.start()

    def _main(self):
        asyncio.set_event_loop(self.loop)
        self.loop.run_forever()

    def call(self, coro, timeout=WAIT + 5):
        return asyncio.run_coroutine_threadsafe(coro, self.loop).result(timeout)

    def close(self):
        async def _cancel():
            for t in asyncio.all_tasks():
                if t is not asyncio.current_task():
                    t.cancel()
        try:
            self.call(_cancel(), 5)
        except Exception:
            pass
        self.loop.call_soon_threadsafe(self.loop.stop)
        self.thread.join(5)
        if not self.loop.is_running():
            self.loop.close()


def we_listen_on(port):
    """does THIS process hold a listening TCP socket on the port? (after .webc a foreign process may
    have been handed the same ephemeral port; its answers say nothing about klongpy)"""
    import os
    try:
        mine = set()
        for fd in os.listdir("/proc/self/fd"):
            try:
                t = os.readlink(f"/proc/self/fd/{fd}")
            except OSError:
                continue
            if t.startswith("socket:["):
                mine.add(t[8:-1])
        for tab in ("/proc/net/tcp", "/proc/net/tcp6"):
            try:
                lines = open(tab).read().split("\n")[1:]
            except OSError:
                continue
            for ln in lines:
                f = ln.split()
                if len(f) > 9 and f[3] == "0A" and int(f[1].rsplit(":", 1)[1], 16) == port and f[9] in mine:
                    return True
        return False
    except Exception:
        return True


def free_port():
    s = socket.socket(socket.AF_INET, socket.SOCK_STREAM)
    try:
        s.bind(("127.0.0.1", 0))
        return s.getsockname()[1]
    finally:
        s.close()


class Real:
    """one interpreter with its io/klong loops, shared by the scenarios of a run"""

    def __init__(self):
        from klongpy.repl import create_repl
        self.klong, self.loops = create_repl()
        self.ioloop = self.loops[0]
        self.weblog = []
        self.wslog = []
        self.ws_containers = {}     # id(mutable object handed to .ws.m) -> message it was handed for
        self.slow_on = False
        self.next_id = 1          # corpus cases use ids >= 900000
        k = self.klong

        def rec(x, y):
            self.weblog.append((int(x), dict(y) if isinstance(y, dict) else repr(y)))
            return 0

        def boom(x):
            raise ValueError("handler failure requested by the scenario")

        def slow(x):
            # during a burst of overlapping requests every handler takes a little while, so that the
            # requests really are in flight together; otherwise a no-op
            if self.slow_on:
                time.sleep(SLOW)
            return 0

        def wsrec(x, y, z):
            # (handler id, connection argument, the very object handed over, deep snapshot taken at hand-over)
            self.wslog.append((int(x), y, z, cj(z)))
            return 0

        k["rec"] = rec
        k["boom"] = boom
        k["slow"] = slow
        k["wsrec"] = wsrec
        k["isdict"] = lambda x: 1 if isinstance(x, dict) else 0
        k["pyh"] = lambda x: "python handler"
        k('.py("klongpy.web")')
        k('.py("klongpy.ws")')

    def fresh(self):
        i = self.next_id
        self.next_id += 1
        return i

    def close(self):
        from klongpy.repl import cleanup_repl
        done = threading.Event()

        def _c():
            try:
                cleanup_repl(self.loops)
            finally:
                done.set()
        t = threading.Thread(target=_c, daemon=True)
        t.start()
        done.wait(10)


# --------------------------------------------------------------------------- handler definitions

CONST_TEXTS = ["one", "two", "", "é ü ñ", 'say "hi"', "a&b=c d", "0", "<b>x</b>", "日本語"]
ECHO_KEYS = ["k", "k", "name", "ключ", "missing"]


def klong_str(s):
    return '"' + s.replace('"', '""') + '"'


def gen_body(rng):
    r = rng.random()
    if r < 0.35:
        return ["const", rng.choice(CONST_TEXTS)]
    if r < 0.60:
        return ["echo", rng.choice(ECHO_KEYS)]
    if r < 0.75:
        return ["count"]
    return ["raise"]


FIXED = ["<p>", "hello ", "a", "é ", "[", "x=1&"]


def gen_proj(rng, real, opens=1):
    """a projection: an underlying dyad/triad `p<id>` with some arguments fixed (strings) and `opens`
    open slots, e.g. p17("<p>";"hello ";) — one open slot of a triad, fixed and open counts differ"""
    arity = 3 if opens == 2 else rng.choice([2, 3, 3])
    pos = sorted(rng.sample(range(arity), opens))
    fixed = [None if j in pos else rng.choice(FIXED) for j in range(arity)]
    return dict(id=real.fresh(), arity=arity, open=opens, fixed=fixed, body=gen_body(rng))


def call_arity(d):
    """what KGFnWrapper demands: the number of open slots of a projection, else the arity"""
    return d.get("open") or d["arity"]


def effective_body(d):
    """the body as a function of the parameter dictionary (a projection's const text starts with its
    fixed arguments)"""
    if d.get("open") and d["body"][0] == "const":
        return ["const", "".join(f for f in d["fixed"] if f is not None) + d["body"][1]]
    return d["body"]


def define_stmts(name, d):
    """Klong statements binding `name` to the definition d"""
    if d == "other":
        return [f"{name}::5"]
    if not d.get("open"):
        return [f"{name}::{fn_source(d)}"]
    i, body, fixed = d["id"], d["body"], d["fixed"]
    vs = ["x", "y", "z"][:d["arity"]]
    v = vs[fixed.index(None)]                       # the (first) open slot receives the parameters
    if body[0] == "const":
        res = ",".join([w for w, f in zip(vs, fixed) if f is not None] + [klong_str(body[1])])
    elif body[0] == "echo":
        res = f"{v}?" + klong_str(body[1])
    elif body[0] == "count":
        res = f"#{v}"
    else:
        res = "boom(0)"
    under = "{%s;rec(%d;%s);slow(0);%s}" % (";".join(vs), i, v, res)
    args = ";".join("" if f is None else klong_str(f) for f in fixed)
    return [f"p{i}::{under}", f"{name}::p{i}({args})"]


def fn_source(d):
    """Klong source of a plain function definition d = {id, arity, body}"""
    i, body = d["id"], d["body"]
    if body[0] == "const":
        res = klong_str(body[1])
    elif body[0] == "echo":
        res = "x?" + klong_str(body[1])
    elif body[0] == "count":
        res = "#x"
    else:
        res = "boom(0)"
    if d["arity"] == 2:
        return "{rec(%d;x);y;%s}" % (i, res)
    if i % 2:
        return "{slow(0);rec(%d;x);%s}" % (i, res)      # parameters logged and used after the pause
    return "{rec(%d;x);slow(0);%s}" % (i, res)          # logged before, used after


def body_text(body, params):
    """what str(result) must be (the oracle's reading of the handler body)"""
    if body[0] == "const":
        return body[1]
    if body[0] == "echo":
        return params.get(body[1], ":undefined")
    if body[0] == "count":
        return str(len(params))
    return None     # raises


# --------------------------------------------------------------------------- web scenarios

PATHS = ["/", "/a", "/b", "/a/b", "/x-y_z", "/p.txt", "/api/v1/items"]
UNKNOWN = ["/nope", "/a/", "/A", "/b/c/d", "/index.html", "/a%20b"]
SYMS = ["h1", "h2", "h3", "h4", "h5"]
KEYS = ["k", "name", "a", "ключ", "a=b", "x y", "é", "q&r", "k2", "p%"]
VALS = ["v", "1", "", "x y", "é ü ñ", "значение", "😀", "a&b=c", "x+y %20?/#", "100%", "a;b,c", "'\"<>", "v&x=1 +%20",
        "日本語", "~!*()"]


def gen_params(rng):
    r = rng.random()
    if r < 0.2:
        return {}
    n = rng.choice([1, 1, 2, 3, 4])
    ks = rng.sample(KEYS, n)
    if rng.random() < 0.6 and "k" not in ks:
        ks[0] = "k"
    return {k: rng.choice(VALS) for k in ks}


def gen_other(rng):
    """the part of a request that travels where the handler must not look: a body on a GET, a query
    string on a POST (keys from the same pool: overlapping and disjoint with the real parameters)"""
    if rng.random() < 0.5:
        return []
    o = gen_params(rng)
    while not o:
        o = gen_params(rng)
    return [o]


def gen_web_scenario(rng, real, length, burst_p=0.12):
    """a route table of <=3 GET and <=3 POST routes over five global handler symbols, inline lambdas,
    a Python callable and a number, and an operation sequence"""
    env = []
    for s in SYMS:
        r = rng.random()
        if r < 0.76:
            env.append([s, dict(id=real.fresh(), arity=1, body=gen_body(rng))])
        elif r < 0.88:
            env.append([s, dict(id=real.fresh(), arity=2, body=gen_body(rng))])
        elif r < 0.93:
            env.append([s, gen_proj(rng, real)])        # arity 2/3 at registration: the route is skipped
        else:
            env.append([s, "other"])

    def table():
        n = rng.choice([0, 1, 2, 2, 3, 3])
        out = []
        for p in rng.sample(PATHS, n):
            r = rng.random()
            if r < 0.62:
                out.append([p, ["sym", rng.choice(SYMS)]])
            elif r < 0.86:
                out.append([p, ["lam", dict(id=real.fresh(), arity=rng.choice([1, 1, 1, 1, 2]), body=gen_body(rng))]])
            elif r < 0.93:
                out.append([p, ["call"]])
            else:
                out.append([p, ["other"]])
        return out

    gets, posts = table(), table()
    if not gets and not posts:
        gets = [["/a", ["sym", "h1"]]]
    ops = []
    allp = {("get", p) for p, _ in gets} | {("post", p) for p, _ in posts}
    closed = False
    bursts = 0
    close_at = rng.randrange(2, length) if rng.random() < 0.35 else None
    for i in range(length):
        if close_at == i:
            ops.append(["webc"])
            closed = True
            continue
        r = rng.random()
        if not closed and allp and rng.random() < burst_p and bursts < 2:
            bursts += 1
            reqs = []
            for j in range(rng.choice([2, 2, 3])):
                q = rng.random()
                if q < 0.85:
                    m, p = rng.choice(sorted(allp))
                    if reqs and rng.random() < 0.4:
                        m, p = reqs[0][0], reqs[0][1]          # the same route twice
                else:
                    m, p = rng.choice(["get", "post"]), rng.choice(UNKNOWN)
                ps = gen_params(rng)
                ps["rid"] = f"r{i}-{j}"
                ps["k"] = f"{rng.choice(VALS)}#{i}-{j}"
                reqs.append([m, p, ps] + gen_other(rng))
            ops.append(["par", reqs])
            continue
        if r < 0.72 or closed and r < 0.9:
            q = rng.random()
            if q < 0.68 and allp:
                m, p = rng.choice(sorted(allp))
            elif q < 0.82:
                m, p = rng.choice(["get", "post"]), rng.choice(UNKNOWN + PATHS)
            elif q < 0.92 and allp:
                m, p = rng.choice(sorted(allp))
                m = "post" if m == "get" else "get"
            else:
                m, p = rng.choice(["get", "post"]), rng.choice(UNKNOWN)
            ops.append(["req", m, p, gen_params(rng)] + gen_other(rng))
        elif r < 0.97:
            s = rng.choice(SYMS)
            q = rng.random()
            if q < 0.5:
                v = dict(id=real.fresh(), arity=1, body=gen_body(rng))
            elif q < 0.76:
                v = gen_proj(rng, real)                 # still a monad: one open slot of a dyad / triad
            elif q < 0.83:
                v = gen_proj(rng, real, opens=2)        # a dyad by projection: 400, body not run
            elif q < 0.93:
                v = dict(id=real.fresh(), arity=2, body=gen_body(rng))
            else:
                v = "other"
            ops.append(["def", s, v])
            if v != "other" and v.get("open") == 1 and allp and not closed:
                # ask the routes right after a projection came in by redefinition
                for m, p in rng.sample(sorted(allp), min(2, len(allp))):
                    ops.append(["req", m, p, gen_params(rng)] + gen_other(rng))
        else:
            ops.append(["webc"])
            closed = True
    # every scenario ends by stopping the server, asking once more, and stopping again
    m, p = rng.choice(sorted(allp)) if allp else ("get", "/a")
    ops += [["webc"], ["req", m, p, gen_params(rng)] + gen_other(rng), ["webc"]]
    return dict(kind="web", env=env, get=gets, post=posts, ops=ops)


class WebOracle:
    """the property read directly: which handler a request must reach, with what, answering what"""

    def __init__(self, sc):
        self.defs = {s: v for s, v in sc["env"]}
        self.routes = {}
        for m in ("get", "post"):
            for p, ref in sc[m]:
                if ref[0] == "sym":
                    d = self.defs[ref[1]]
                    if d != "other" and d["arity"] == 1:
                        self.routes[(m, p)] = ("sym", ref[1], d)
                elif ref[0] == "lam":
                    if ref[1]["arity"] == 1:
                        self.routes[(m, p)] = ("lam", None, ref[1])
        self.paths = {m: {p for (mm, p) in self.routes if mm == m} for m in ("get", "post")}
        self.up = True

    def define(self, s, v):
        self.defs[s] = v

    def webc(self):
        r = 1 if self.up else 0
        self.up = False
        return r

    def request(self, m, p, params):
        """-> (status, body, log entries)"""
        if not self.up:
            return ("none", "", [])
        r = self.routes.get((m, p))
        if r is None:
            other = "post" if m == "get" else "get"
            return ("405" if p in self.paths[other] else "404", None, [])
        kind, sym, orig = r
        cur = orig
        if kind == "sym":
            d = self.defs[sym]
            cur = d if d != "other" else orig       # re-resolved by name; a non-function leaves the original
        if call_arity(cur) != 1:
            return ("400", "Invalid request", [])
        t = body_text(effective_body(cur), params)
        if t is None:
            return ("400", "Invalid request", [[cur["id"], params]])
        return ("200", t, [[cur["id"], params]])


def eval_json(v):
    """EVal on the wire"""
    return v if isinstance(v, str) else dict(id=v["id"], arity=v["arity"], open=v.get("open", 0),
                                             body=effective_body(v))


def route_json(ref, defs):
    if ref[0] == "sym":
        return eval_json(defs[ref[1]])
    if ref[0] == "lam":
        return eval_json(ref[1])
    return ref[0]


def req_parts(r):
    """a request is [method, path, params] or [method, path, params, other]: `params` is the part the
    handler must see (query of a GET, form of a POST); `other` travels in the other place (a body on a
    GET, a query string on the URL of a POST) and must NOT reach the handler"""
    m, p, params = r[0], r[1], r[2]
    return m, p, params, (r[3] if len(r) > 3 else {})


def wire_parts(m, params, other):
    """(query, form) as they travel"""
    return (params, other) if m == "get" else (other, params)


async def _http(session, method, url, params, other=None):
    import aiohttp
    try:
        query, form = wire_parts(method, params, other or {})
        kw = {}
        if query:
            kw["params"] = query
        if form or method == "post":
            kw["data"] = form
        async with session.request(method.upper(), url, **kw) as r:
            return str(r.status), await r.text()
    except (aiohttp.ClientConnectionError, asyncio.TimeoutError):
        return "none", ""


async def _http_many(session, port, reqs):
    return await asyncio.gather(*[_http(session, m, f"http://127.0.0.1:{port}{p}", params, other)
                                  for m, p, params, other in map(req_parts, reqs)])


def run_web_scenario(ctx, real, hl, drv, sc):
    import aiohttp
    k = real.klong
    defs0 = {s: v for s, v in sc["env"]}
    # ---- define the handlers and the route dictionaries in Klong
    for s, v in sc["env"]:
        for st in define_stmts(s, v):
            k(st)
    for m in ("get", "post"):
        k(f"{m}t:::{{}}")
        for p, ref in sc[m]:
            if ref[0] == "sym":
                val = ref[1]
            elif ref[0] == "lam":
                val = fn_source(ref[1])
            elif ref[0] == "call":
                val = "pyh"
            else:
                val = "5"
            k(f"{m}t,{klong_str(p)},{val}")
    wh = None
    for attempt in range(5):
        port = free_port()
        wh = k(f'wh::.web("127.0.0.1:{port}";gett;postt)')
        t0 = time.time()
        while not wh.task.done() and time.time() - t0 < WAIT:
            time.sleep(0.001)
        if wh.task.done() and not wh.task.cancelled() and wh.task.exception() is None:
            break
        try:
            asyncio.run_coroutine_threadsafe(wh.shutdown(), real.ioloop).result(WAIT)
        except Exception:
            pass
        wh = None
    if wh is None:
        raise Unreachable("could not start a web server on a loopback port")
    oracle = WebOracle(sc)
    case = dict(kind="web", env=sc["env"], get=sc["get"], post=sc["post"], ops=[])
    try:
        # ---- registration: which (method, path) pairs exist
        reg = {"get": set(), "post": set()}
        for r in wh.runner.app.router.routes():
            if r.method in ("GET", "POST"):
                reg[r.method.lower()].add(r.resource.canonical)
        for m in ("get", "post"):
            if reg[m] != oracle.paths[m]:
                ctx.oracle_fail("web:registration", case, sorted(oracle.paths[m]), sorted(reg[m]),
                                f"{m.upper()} routes registered by .web differ from the monadic functions of the dictionary")
        if drv:
            line = "web cap=early env=%s get=%s post=%s" % (
                jhx([[s, eval_json(v)] for s, v in sc["env"]]),
                jhx([[p, route_json(ref, defs0)] for p, ref in sc["get"]]),
                jhx([[p, route_json(ref, defs0)] for p, ref in sc["post"]]))
            f = fields(drv.ask(line))
            got = {m: {unhx(h) for h in f.get(m, "").split(",") if h} for m in ("get", "post")}
            if f["_"] != "ok" or got != reg:
                ctx.mismatch("Klong.C20.build vs eval_sys_fn_create_web_server (registered routes)", case,
                             {m: sorted(v) for m, v in got.items()}, {m: sorted(v) for m, v in reg.items()})
                return
        session = hl.call(_mk_session())
        try:
            after_failure = False
            for op in sc["ops"]:
                case["ops"].append(op)
                if op[0] == "req":
                    m, p, params, other = req_parts(op[1:])
                    n0 = len(real.weblog)
                    status, body = hl.call(_http(session, m, f"http://127.0.0.1:{port}{p}", params, other))
                    log = [[i, d] for i, d in real.weblog[n0:]]
                    exp = oracle.request(m, p, params)
                    # ---- property oracle
                    if exp[2] != log:
                        if not exp[2]:
                            key = "web:unknown:handler-ran" if exp[0] in ("404", "405") else \
                                  "web:after-webc:handler-ran" if exp[0] == "none" else "web:route:log"
                        else:
                            key = "web:route:not-exactly-once" if len(log) != 1 else \
                                  "web:route:wrong-handler" if log[0][0] != exp[2][0][0] else \
                                  "web:route:params-from-the-other-part" if other and isinstance(log[0][1], dict) and \
                                  all(log[0][1].get(a) == b for a, b in params.items()) else "web:route:params"
                        ctx.oracle_fail(key, case, exp[2], log,
                                        "Klong-side call log of this request: one entry per request to a registered "
                                        "route, by that route's handler, with exactly the parameters")
                    if status != exp[0] and exp[0] == "none" and not log and not we_listen_on(port):
                        ctx.bump("web:after-webc:foreign-listener-on-port")
                        status, body = "none", ""
                    if status != exp[0]:
                        key = ("web:after-webc:still-answers" if exp[0] == "none" else
                               "web:failure:not-400" if exp[0] == "400" else
                               "web:failure:spills-over" if after_failure and status == "400" else
                               "web:server-gone" if status == "none" else "web:status")
                        ctx.oracle_fail(key, case, exp[0], status, "HTTP status")
                    elif exp[1] is not None and body != exp[1]:
                        ctx.oracle_fail("web:route:body", case, exp[1], body,
                                        "the response body is the text of the handler's result")
                    after_failure = exp[0] == "400"
                    impl = f"ok status={status} body={hx(body) if status in ('200', '400') else ''} log={jhx(log)}"
                    ctx.bump("web:req:" + exp[0])
                    ctx.bump("web:params:" + param_class(params))
                    if other:
                        ctx.bump(f"web:{m}:with-" + ("body" if m == "get" else "query-string")
                                 + (":overlapping-keys" if set(other) & set(params) else ":disjoint-keys")
                                 + (":empty-" + ("query" if m == "get" else "form") if not params else ""))
                    if drv:
                        q, f = wire_parts(m, params, other)
                        model = drv.ask(f"req m={m} path={hx(p)} query={jhx(q)} form={jhx(f)}")
                        if not same_reply(model, impl):
                            ctx.mismatch("Klong.C20.request vs _get/_post", case, show_reply(model), show_reply(impl))
                            return
                elif op[0] == "par":
                    # overlapping requests: each must be served as if it were alone
                    reqs = op[1]
                    n0 = len(real.weblog)
                    real.slow_on = True
                    try:
                        answers = hl.call(_http_many(session, port, reqs), WAIT + 5 + 4 * SLOW)
                    finally:
                        real.slow_on = False
                    log = [[i, d] for i, d in real.weblog[n0:]]
                    exps = [oracle.request(m, p, params) for m, p, params, _ in map(req_parts, reqs)]
                    want = [e for exp in exps for e in exp[2]]
                    for r_, (status, body), exp in zip(reqs, answers, exps):
                        m, p, params, other = req_parts(r_)
                        one = dict(case, ops=case["ops"][:-1] + [["par", reqs]], request=r_)
                        for e in exp[2]:
                            if log.count(e) != 1:
                                ctx.oracle_fail("web:concurrent:params", one, e, log,
                                                "overlapping requests: this request's handler must run exactly once "
                                                "with exactly this request's parameters")
                        if status != exp[0]:
                            ctx.oracle_fail("web:concurrent:status", one, exp[0], status,
                                            "overlapping requests: HTTP status of this request")
                        elif exp[1] is not None and body != exp[1]:
                            ctx.oracle_fail("web:concurrent:body", one, exp[1], body,
                                            "overlapping requests: the body is the text of this request's own result")
                    if len(log) != len(want):
                        ctx.oracle_fail("web:concurrent:not-exactly-once", case, want, log,
                                        "overlapping requests: one handler invocation per request to a registered route")
                    ctx.bump(f"web:burst:{len(reqs)}")
                    ctx.bump("web:burst:same-route" if len({(r_[0], r_[1]) for r_ in reqs}) < len(reqs) else "web:burst:different-routes")
                    if drv:
                        mlog = []
                        for r_, (status, body) in zip(reqs, answers):
                            m, p, params, other = req_parts(r_)
                            q, f = wire_parts(m, params, other)
                            model = _reply_obj(drv.ask(f"req m={m} path={hx(p)} query={jhx(q)} form={jhx(f)}"))
                            mlog += model["log"] or []
                            if (model["status"], model["body"]) != (status, body if status in ("200", "400") else ""):
                                ctx.mismatch("Klong.C20.request vs _get/_post (overlapping requests)", case,
                                             model, dict(status=status, body=body))
                                return
                        if sorted(map(json.dumps, mlog)) != sorted(map(json.dumps, log)):
                            ctx.mismatch("Klong.C20.burst_independent vs call log of overlapping requests", case, mlog, log)
                            return
                elif op[0] == "def":
                    _, s, v = op
                    for st in define_stmts(s, v):
                        k(st)
                    oracle.define(s, v)
                    ctx.bump("web:redefine:" + ("other" if v == "other" else
                                                f"projection:{v['arity'] - v['open']}fixed+{v['open']}open"
                                                if v.get("open") else f"arity{v['arity']}"))
                    if drv:
                        r = drv.ask(f"def name={hx(s)} val={jhx(eval_json(v))}")
                        if r != "ok":
                            ctx.mismatch("Klong.C20.step define", case, r, "ok")
                            return
                else:
                    try:
                        ret = int(k(".webc(wh)"))
                    except Exception as e:
                        ret = f"raises {type(e).__name__}: {e}"
                    exp = oracle.webc()
                    if ret != exp:
                        ctx.oracle_fail("web:webc:klong-bound-handle" if exp == 1 and ret == 0 else "web:webc:result",
                                        case, exp, ret,
                                        ".webc(wh) on a live server must stop it and return 1 (0 once stopped)")
                    ctx.bump(f"web:webc:{exp}")
                    if drv:
                        r = drv.ask("webc")
                        if r != f"ok ret={ret}":
                            ctx.mismatch("Klong.C20.step webc vs eval_sys_fn_shutdown_web_server", case, r, f"ok ret={ret}")
                            return
            ctx.count(("web", json.dumps(sc, sort_keys=True)))
            ctx.bump(f"web:routes:{len(sc['get'])}get+{len(sc['post'])}post")
        finally:
            hl.call(session.close())
    finally:
        if wh.runner is not None:
            try:
                asyncio.run_coroutine_threadsafe(wh.shutdown(), real.ioloop).result(WAIT)
            except Exception:
                pass


async def _mk_session():
    import aiohttp
    return aiohttp.ClientSession(timeout=aiohttp.ClientTimeout(total=WAIT))


def param_class(params):
    if not params:
        return "empty"
    s = "".join(params.keys()) + "".join(params.values())
    if any(ord(c) > 127 for c in s):
        return "non-ascii"
    if any(c in s for c in "&=+%?/# ;,'\"<>"):
        return "needs-encoding"
    return "several" if len(params) > 1 else "one"


def _reply_obj(r):
    f = fields(r)
    try:
        log = json.loads(unhx(f.get("log", ""))) if f.get("log") else None
    except ValueError:
        log = "unparsable"
    return dict(status=f.get("status"), body=unhx(f["body"]) if f.get("body") else "", log=log)


def same_reply(a, b):
    return _reply_obj(a) == _reply_obj(b)


def show_reply(r):
    try:
        return _reply_obj(r)
    except Exception:
        return r


# --------------------------------------------------------------------------- websocket: receiving

def same(a, b, in_list=False):
    """type-aware equality of decoded JSON (1 != 1.0 != True != "1") — except that inside a list numbers
    are compared by value: a Klong list of numbers is one homogeneous vector (`[0 2.5]` is `[0.0 2.5]`,
    and truth values are the numbers 1 and 0), so the numeric kind of an element is not observable"""
    num = (bool, int, float)
    if in_list and isinstance(a, num) and isinstance(b, num):
        return a == b
    if isinstance(a, bool) or isinstance(b, bool):
        return isinstance(a, bool) and isinstance(b, bool) and a == b
    if isinstance(a, (int, float)) or isinstance(b, (int, float)):
        return type(a) is type(b) and a == b
    if isinstance(a, list):
        return isinstance(b, list) and len(a) == len(b) and all(same(x, y, True) for x, y in zip(a, b))
    if isinstance(a, dict):
        return isinstance(b, dict) and list(a) == list(b) and all(same(a[k], b[k]) for k in a)
    return type(a) is type(b) and a == b


def cj(v):
    """the JSON reading of what the handler was called with (a Klong list is an ndarray)"""
    import numpy as np
    if isinstance(v, np.ndarray):
        return [cj(x) for x in (v if v.dtype == object else v.tolist())]
    if isinstance(v, (list, tuple)):
        return [cj(x) for x in v]
    if isinstance(v, dict):
        return {str(k): cj(x) for k, x in v.items()}
    if isinstance(v, (bool, np.bool_)):
        return bool(v)
    if isinstance(v, np.integer):
        return int(v)
    if isinstance(v, np.floating):
        return float(v)
    if v is None or isinstance(v, (int, float)):
        return v
    if isinstance(v, str):
        return str(v)
    return f"<{type(v).__name__}>"


J_INTS = [0, 1, -1, 2, 7, 17, 100, -3, 2147483647]
J_REALS = [0.5, 1.5, -2.5, 1e100, 1e-07, 2.0]
J_STRS = ["", "a", "abc", "hello foo", 'say "hi"', "é ü ñ", "日本語", "😀", "a\\b/c", "line1\nline2\ttab", "\u0001\u007f"]


def gen_json(rng, depth=0, top=False):
    r = rng.random()
    if depth >= 3:
        r *= 0.62
    if r < 0.05:
        return None if not top or rng.random() < 0.5 else rng.choice(J_INTS)
    if r < 0.12:
        return rng.random() < 0.5
    if r < 0.28:
        return rng.choice(J_INTS)
    if r < 0.38:
        return rng.choice(J_REALS)
    if r < 0.62:
        return rng.choice(J_STRS)
    if r < 0.84:
        q = rng.random()
        n = rng.choice([0, 1, 2, 3, 4])
        if q < 0.25:
            return [rng.choice(J_INTS) for _ in range(n)]
        if q < 0.35:
            return [rng.choice(J_REALS) for _ in range(n)]
        if q < 0.45:
            return [rng.choice(J_STRS) for _ in range(n)]
        if q < 0.55:
            w = rng.choice([1, 2, 3])
            return [[rng.choice(J_INTS) for _ in range(w)] for _ in range(max(n, 1))]
        return [gen_json(rng, depth + 1) for _ in range(n)]
    keys = rng.sample(["a", "b", "k", "name", "é", "x y", "", "n1"], rng.choice([0, 1, 2, 3]))
    return {k: gen_json(rng, depth + 1) for k in keys}


def json_kind(v):
    if v is None:
        return "null"
    if isinstance(v, bool):
        return "bool"
    if isinstance(v, int):
        return "int"
    if isinstance(v, float):
        return "real"
    if isinstance(v, str):
        return "string"
    if isinstance(v, list):
        if not v:
            return "array:empty"
        kinds = {json_kind(x).split(":")[0] for x in v}
        if kinds == {"array"}:
            return "array:nested" if len({len(x) for x in v}) == 1 else "array:ragged"
        if "array" in kinds or "object" in kinds:
            return "array:ragged"
        return "array:" + ("mixed" if len(kinds) > 1 else kinds.pop())
    return "object"


def dump(rng, v):
    q = rng.random()
    if q < 0.6:
        return json.dumps(v)
    if q < 0.8:
        return json.dumps(v, ensure_ascii=False)
    if q < 0.9:
        return json.dumps(v, separators=(",", ":"))
    return " " + json.dumps(v, indent=1) + "\n"


class WsServer:
    """an in-process websockets server: remembers the connection, records what it receives"""

    def __init__(self, hl):
        self.hl = hl
        self.conn = None
        self.connected = threading.Event()
        self.received = []
        self.server, self.port = hl.call(self._start())

    async def _start(self):
        import websockets
        srv = await websockets.serve(self._handler, "127.0.0.1", 0)
        return srv, srv.sockets[0].getsockname()[1]

    async def _handler(self, ws, *a):
        self.conn = ws
        self.connected.set()
        try:
            async for m in ws:
                self.received.append(m)
        except Exception:
            pass

    def push(self, texts):
        async def _p():
            for t in texts:
                await self.conn.send(t)
        self.hl.call(_p())

    def close(self):
        async def _c():
            self.server.close()
            await self.server.wait_closed()
        try:
            self.hl.call(_c(), 10)
        except Exception:
            pass


def wait_until(pred, timeout=WAIT):
    t0 = time.time()
    while time.time() - t0 < timeout:
        if pred():
            return True
        time.sleep(0.001)
    return pred()


def gen_object(rng):
    for _ in range(50):
        v = gen_json(rng, depth=1)
        if isinstance(v, dict) and v:
            return v
    return {"sym": "ABC", "px": 101}


def gen_ws_scenario(rng, real, n):
    """stamp: the .ws.m handler amends every object it is handed with a sequence number (in place, as
    Klong's `d,k,v` does) and files it in an inbox; histories then repeat byte-identical object texts"""
    evs = []
    h0 = real.fresh()
    stamp = rng.random() < 0.5
    pool = [json.dumps(gen_object(rng)) for _ in range(rng.choice([1, 2, 3]))]
    pool.append(json.dumps([gen_object(rng)]))              # an object nested in an array
    sent = []
    for _ in range(n):
        r = rng.random()
        if r < 0.12:
            evs.append(["d", real.fresh()] + ([rng.randrange(3)] if rng.random() < 0.5 else []))
            continue
        if r < (0.55 if stamp else 0.22):
            t = rng.choice(pool)                            # the same text again and again
        elif r < 0.62 and sent:
            t = rng.choice(sent)
        else:
            t = dump(rng, gen_json(rng, top=True))
        sent.append(t)
        evs.append(["m", t])
    form0 = rng.randrange(3) if rng.random() < 0.4 else None
    return dict(kind="ws-recv", handler=h0, form=form0, stamp=stamp, evs=evs)


def containers(v):
    """the mutable objects reachable from a value handed to the handler"""
    import numpy as np
    if isinstance(v, dict):
        yield v
        for x in v.values():
            yield from containers(x)
    elif isinstance(v, list):
        yield v
        for x in v:
            yield from containers(x)
    elif isinstance(v, np.ndarray):
        yield v
        if v.dtype == object:
            for x in v.ravel():
                yield from containers(x)


def stamped_inbox(entries):
    """what the stamping handler must have filed: every object message, decoded afresh, + its number"""
    out = []
    for _, v in entries:
        if isinstance(v, dict):
            out.append(dict(v, seq=len(out) + 1))
    return out


def run_ws_recv(ctx, real, hl, drv, sc):
    k = real.klong
    srv = WsServer(hl)
    nc = None
    stamp = bool(sc.get("stamp"))
    case = dict(kind="ws-recv", handler=sc["handler"], stamp=stamp, evs=[])
    sync = 0

    tags = []
    proj_ids = set()

    def wstag(x, y):
        tags.append([int(x), str(y)])
        return 0
    k["wstag"] = wstag

    def predefine(i, form):
        """the triad behind a projection-valued handler. Defined before the connection exists: a NEW global
        defined while the klong loop is still inside a handler would land in the scope pushed for that
        handler (the interpreter is not thread-safe); re-binding the existing .ws.m is safe"""
        if form is None:
            return
        vs = ["x", "y", "z"]
        f = vs[form]
        c, m = [v for v in vs if v != f]
        tail = f";:[isdict({m});wsfile({m});1]" if stamp else ""
        k(f"wsp{i}::{{x;y;z;wstag({i};{f});wsrec({i};{c};{m}){tail}}}")

    def set_handler(i, form):
        """form None: a dyad lambda; form j: a projection of a triad with argument j fixed to a string and
        two open slots (connection; message) — e.g. .ws.m::on("feed";;)"""
        if form is None:
            k(".ws.m::" + (("{wsrec(%d;x;y);:[isdict(y);wsfile(y);1]}" if stamp else "{wsrec(%d;x;y)}") % i))
            return
        k(f".ws.m::wsp{i}(" + ";".join(klong_str(f"feed{i}") if j == form else "" for j in range(3)) + ")")
        proj_ids.add(i)
    try:
        k("wsseq::0")
        k("wsinbox::[]")
        k('wsfile::{wsseq::wsseq+1;x,"seq",,wsseq;wsinbox::wsinbox,,x;1}')
        predefine(sc["handler"], sc.get("form"))
        for ev in sc["evs"]:
            if ev[0] == "d":
                predefine(ev[1], ev[2] if len(ev) > 2 else None)
        set_handler(sc["handler"], sc.get("form"))
        case["form"] = sc.get("form")
        nc = k(f'wsc::.ws("ws://127.0.0.1:{srv.port}")')
        if not srv.connected.wait(WAIT):
            raise Unreachable("websocket client did not connect")
        cur = sc["handler"]
        model_evs = []
        expected = []           # the property: one entry per frame, in order, current handler, decoded value
        n0 = len(real.wslog)
        batch = []

        def flush():
            nonlocal sync
            sync += 1
            s = json.dumps(f"__sync_{sync}__")
            batch.append(s)
            model_evs.append(["m", s])
            expected.append([cur, json.loads(s)])
            srv.push(batch)
            del batch[:]
            wait_until(lambda: any(isinstance(e[2], str) and e[2] == f"__sync_{sync}__" for e in real.wslog[n0:]))

        for ev in sc["evs"]:
            case["evs"].append(ev)
            if ev[0] == "m":
                batch.append(ev[1])
                model_evs.append(ev)
                expected.append([cur, json.loads(ev[1])])
                ctx.bump("ws:recv:" + json_kind(json.loads(ev[1])))
            else:
                flush()
                cur = ev[1]
                set_handler(cur, ev[2] if len(ev) > 2 else None)
                model_evs.append(ev[:2])
                ctx.bump("ws:recv:redefine" + (":projection" if len(ev) > 2 else ""))
        flush()
        entries = real.wslog[n0:]
        got = [[i, snap] for i, _, _, snap in entries]          # snapshots taken at hand-over
        conn_ok = all(c is nc for _, c, _, _ in entries)
        # ---- no aliasing: the values handed over for different messages are independent objects
        for n, (i, _, obj, snap) in enumerate(entries):
            mine = list(containers(obj))
            for c in mine:
                if id(c) in real.ws_containers:
                    ctx.oracle_fail("ws:recv:aliased", case, "a freshly decoded value for every message",
                                    dict(message_index=n, value_at_hand_over=snap,
                                         same_object_as=real.ws_containers[id(c)]),
                                    "two messages were handed the very same mutable object (`is`): what the handler "
                                    "does to one shows up in the other")
                    break
            for c in mine:
                real.ws_containers.setdefault(id(c), dict(message_index=n, handler=i, value_at_hand_over=snap))
        if stamp:
            try:
                inbox = [cj(dict(d)) for d in k("wsinbox")]
            except Exception as e:
                inbox = f"unreadable: {type(e).__name__}: {e}"
            want = stamped_inbox([e for e in expected if e[1] is not None])
            if not (isinstance(inbox, list) and same(inbox, want)):
                ctx.oracle_fail("ws:recv:inbox", case, want, inbox,
                                "the handler stamps each object it is handed with a running number and files it: the "
                                "inbox must hold one separately stamped entry per object message, each the decoding of "
                                "its own message")
            ctx.bump("ws:recv:stamping-handler")
            ctx.bump("ws:recv:repeated-object-texts",
                     sum(1 for j, e in enumerate(model_evs) if e[0] == "m" and e[1].lstrip()[:1] in "{["
                         and e in model_evs[:j]))
        # ---- property oracle: exactly once, in order, intact
        nulls = [e for e in expected if e[1] is None]
        exp_nn = [e for e in expected if e[1] is not None]
        if not (len(got) == len(expected) and all(a[0] == b[0] and same(a[1], b[1]) for a, b in zip(got, expected))):
            # classify
            if len(got) == len(exp_nn) and all(a[0] == b[0] and same(a[1], b[1]) for a, b in zip(got, exp_nn)):
                ctx.oracle_fail("ws:recv:null-toplevel", case, expected, got,
                                "a bare `null` frame is not handed to .ws.m (None is taken for an unfilled argument)")
            else:
                key = "ws:recv:intact"
                if len(got) < len(exp_nn):
                    key = "ws:recv:lost"
                elif len(got) > len(expected):
                    key = "ws:recv:duplicated"
                elif sorted(map(json.dumps, got)) == sorted(map(json.dumps, exp_nn)):
                    key = "ws:recv:order"
                ctx.oracle_fail(key, case, expected, got,
                                ".ws.m must be called once per arriving message, in arrival order, with its decoding")
        want_tags = [[i, f"feed{i}"] for i, _ in got if i in proj_ids]
        if tags != want_tags and len(got) == len(expected):
            ctx.oracle_fail("ws:recv:projection-fixed-argument", case, want_tags, tags,
                            ".ws.m bound to a projection: the fixed argument stays what it was, the two open slots "
                            "receive the connection and the message")
        if not conn_ok:
            ctx.oracle_fail("ws:recv:connection-argument", case, "x is the connection", "x is something else")
        if drv:
            r = fields(drv.ask("ws handler=%d evs=%s raises=%s" % (sc["handler"], jhx(model_evs), jhx([]))))
            try:
                mlog = json.loads(unhx(r["log"]))
            except Exception:
                mlog = r
            ok = (r.get("alive") == "1" and isinstance(mlog, list) and len(mlog) == len(got)
                  and all(a[0] == b[0] and same(a[1], b[1]) for a, b in zip(mlog, got)))
            if not ok:
                ctx.mismatch("Klong.C20.Ws.run vs NetworkClient._listen", case, mlog, got)
            elif stamp and isinstance(inbox, list) and not same(inbox, stamped_inbox(mlog)):
                ctx.mismatch("Klong.C20.Ws.run (each frame decoded afresh) vs the inbox kept by the stamping handler",
                             case, stamped_inbox(mlog), inbox)
        ctx.count(("ws-recv", json.dumps(sc, sort_keys=True)))
    finally:
        try:
            if nc is not None:
                _with_timeout(lambda: k(".wsc(wsc)"), WAIT)
        finally:
            srv.close()


def _with_timeout(fn, timeout):
    out = {}

    def _r():
        try:
            out["v"] = fn()
        except Exception as e:      # noqa
            out["e"] = e
    t = threading.Thread(target=_r, daemon=True)
    t.start()
    t.join(timeout)
    return out.get("v")


# --------------------------------------------------------------------------- websocket: sending

# (Klong expression, JSON value that must arrive)
SEND_POOL = [
    ("2", 2), ("1+1", 2), ("#[1 2 3]", 3), ("1=1", 1), ("*[3 4]", 3), ("+/[1 2 3]", 6), ("-3", -3), ("_3.7", 3),
    ("1.5", 1.5), ("1.0+1", 2.0), ("3%2", 1.5), ("1e100", 1e100),
    ('"abc"', "abc"), ('""', ""), ('"é ü ñ"', "é ü ñ"), ('"say ""hi"""', 'say "hi"'), ('"日本語 😀"', "日本語 😀"),
    ("0ca", "a"), (":foo", "foo"), ('"a","b"', "ab"),
    ("[1 2 3]", [1, 2, 3]), ("[]", []), ("[1.5 2.5]", [1.5, 2.5]), ("2*[1 2 3]", [2, 4, 6]), ("!3", [0, 1, 2]),
    ('[1 "a" [2 3]]', [1, "a", [2, 3]]), ("[[1 2] [3 4]]", [[1, 2], [3, 4]]), ("[[1] [2 3]]", [[1], [2, 3]]),
    ("[1 [2 [3]]]", [1, [2, [3]]]), ('["a" "bc"]', ["a", "bc"]), ("[0ca 0cb]", ["a", "b"]),
    ('(1+1),"a"', [2, "a"]), ('(*[3 4]),,"ab"', [3, "ab"]), ("[1 2]=[1 3]", [1, 0]), ("[1 2.5]", [1.0, 2.5]),
    (':{["a" 1] ["b" [1 2]]}', {"a": 1, "b": [1, 2]}), (":{}", {}), (':{["k" "v"]}', {"k": "v"}),
    (':{["n" [1 "x" [2]]]}', {"n": [1, "x", [2]]}),
]


def kview(v):
    """the Python object Klong hands to ws(x), as the model's KVal (tagged JSON)"""
    import numpy as np
    if isinstance(v, bool):
        raise ValueError("bool")
    if isinstance(v, np.integer):
        return ["npint", int(v)]
    if isinstance(v, int):
        return ["pyint", v]
    if isinstance(v, (float, np.floating)):
        return ["real", repr(float(v))]
    if isinstance(v, str):
        return ["str", str(v)]
    if isinstance(v, np.ndarray):
        if v.dtype == object:
            return ["arr", [kview(x) for x in v]]
        return ["arr", [kview(x) for x in v.tolist()]]      # tolist() yields plain Python numbers / strings
    if isinstance(v, (list, tuple)):
        return ["arr", [kview(x) for x in v]]
    if isinstance(v, dict):
        if not all(isinstance(a, str) for a in v):
            raise ValueError("non-string key")
        return ["dict", {str(a): kview(b) for a, b in v.items()}]
    return ["undef"]


def gen_send_expr(rng, depth=0):
    """random literal trees beyond the pool, with numpy scalars from arithmetic at the top"""
    r = rng.random()
    if depth >= 2:
        r *= 0.6
    if r < 0.2:
        n = rng.choice(J_INTS[:8])
        if depth == 0 and rng.random() < 0.5:
            return f"({n - 1})+1" if n - 1 >= 0 else f"({n + 1})-1", n
        return (str(n), n) if n >= 0 else None
    if r < 0.3:
        x = rng.choice([0.5, 1.5, 2.0])
        return repr(x), x
    if r < 0.6:
        s = rng.choice([t for t in J_STRS if "\n" not in t and "\u0001" not in t])
        return klong_str(s), s
    n = rng.choice([1, 2, 3])      # (one-element lists of a string print as the string in Klong source; avoid n=0/str quirks)
    items = []
    while len(items) < n:
        it = gen_send_expr(rng, depth + 1)
        if it is not None and not (depth + 1 > 0 and it[0].startswith("(")):
            items.append(it)
    exp = [j for _, j in items]
    if all(isinstance(j, (int, float)) and not isinstance(j, bool) for j in exp) and any(isinstance(j, float) for j in exp):
        exp = [float(j) for j in exp]        # a numeric list literal is one float64 vector
    return "[" + " ".join(e for e, _ in items) + "]", exp


def run_ws_send(ctx, real, hl, drv, items):
    k = real.klong
    srv = WsServer(hl)
    nc = None
    try:
        k(".ws.m::{wsrec(0;x;y)}")
        nc = k(f'wsc::.ws("ws://127.0.0.1:{srv.port}")')
        if not srv.connected.wait(WAIT):
            raise Unreachable("websocket client did not connect")
        for n, (expr, want) in enumerate(items):
            case = dict(kind="ws-send", expr=expr, expect=want)
            try:
                v = k(f"wsv::{expr}")
                kv = kview(v)
            except Exception as e:
                ctx.bump("ws:send:skipped-unclassified")
                continue
            n0 = len(srv.received)
            try:
                k("wsc(wsv)")
            except Exception as e:
                pass
            k(f'wsc("__sync_{n}__")')
            wait_until(lambda: json.dumps(f"__sync_{n}__") in srv.received[n0:])
            got = [t for t in srv.received[n0:] if t != json.dumps(f"__sync_{n}__")]
            # ---- property oracle: the value arrives, once, as its JSON encoding
            ok = len(got) == 1
            if ok:
                try:
                    ok = same(json.loads(got[0]), want)
                except ValueError:
                    ok = False
            if not ok:
                has_np = "npint" in json.dumps(kv)
                ctx.oracle_fail("ws:send:numpy-scalar" if has_np and not got else "ws:send:encoding", case,
                                json.dumps(want), got, "ws(x) must put the JSON encoding of x on the wire, once")
            ctx.bump("ws:send:" + json_kind(want))
            if drv:
                r = drv.ask(f"send scalars=1 val={jhx(kv)}")
                f = fields(r)
                mtext = unhx(f["text"]) if "text" in f else None
                if [mtext] != got:
                    ctx.mismatch("Klong.C20.send vs NetworkClient.call/encode_message", case, mtext, got)
                elif "view" in f and not same(json.loads(unhx(f["view"])), want):
                    ctx.mismatch("Klong.C20.jsonView vs expected JSON value", case, unhx(f["view"]), json.dumps(want))
            ctx.count(("ws-send", expr))
    finally:
        try:
            if nc is not None:
                _with_timeout(lambda: k(".wsc(wsc)"), WAIT)
        finally:
            srv.close()


# --------------------------------------------------------------------------- websocket: send histories

H_VALUES = [("1", 1), ("2", 2), ("3", 3), ("1+1", 2), ("10", 10), ("11", 11), ('"a"', "a"), ('"é ü"', "é ü"),
            ("[1 2]", [1, 2]), ('[1 "x"]', [1, "x"]), ("1.5", 1.5)]
H_KEYS = ["n", "n", "k", "é", "xs"]


def gen_send_history(rng, mode):
    """a program over one dictionary: amend it in place, send it, amend it, send it again, ... and leave
    it in a later state that is never sent.  `sd` is sent as it is, `so` holds `sd` as a member."""
    steps = [["set", "n", *rng.choice(H_VALUES[:6])]]
    sends = 0
    for _ in range(rng.randrange(4, 9)):
        if steps[-1][0] == "set" and rng.random() < 0.5:
            steps.append(["send", rng.choice(["sd", "sd", "so"])])
            sends += 1
        else:
            steps.append(["set", rng.choice(H_KEYS), *rng.choice(H_VALUES)])
    if sends < 2:
        steps += [["send", "sd"], ["set", "n", "7", 7], ["send", "sd"]]
    if steps[-1][0] == "send":
        steps.append(["set", "n", "99", 99])
    return dict(kind="ws-send-history", mode=mode, steps=steps)


def _start_web(real, expr_get, expr_post):
    k = real.klong
    for attempt in range(5):
        port = free_port()
        wh = k(f'wh::.web("127.0.0.1:{port}";{expr_get};{expr_post})')
        t0 = time.time()
        while not wh.task.done() and time.time() - t0 < WAIT:
            time.sleep(0.001)
        if wh.task.done() and not wh.task.cancelled() and wh.task.exception() is None:
            return wh, port
        try:
            asyncio.run_coroutine_threadsafe(wh.shutdown(), real.ioloop).result(WAIT)
        except Exception:
            pass
    raise Unreachable("could not start a web server on a loopback port")


def run_ws_send_history(ctx, real, hl, drv, sc):
    """the frames the peer records must be the JSON encodings of the value AT THE TIME OF EACH SEND, in
    order — with the io loop gated while the program runs (mode gated), or with the program running ON
    the io loop as the body of a .web handler (mode web)"""
    import aiohttp
    k = real.klong
    srv = WsServer(hl)
    nc = None
    wh = None
    case = dict(sc)
    snaps = []

    def snap(x):
        snaps.append(kview(x))      # the live value, classified (deep) at the moment of the send
        return 0
    k["wssnap"] = snap
    try:
        k(".ws.m::{wsrec(0;x;y)}")
        nc = k(f'wsc::.ws("ws://127.0.0.1:{srv.port}")')
        if not srv.connected.wait(WAIT):
            raise Unreachable("websocket client did not connect")
        k("sd:::{}")
        k("so:::{}")
        k('so,"inner",,sd')
        k('so,"tag",,"outer"')
        # ---- the oracle's own reading of the program
        state, expected, stmts = {}, [], []
        for st in sc["steps"]:
            if st[0] == "set":
                _, key, src, val = st
                state[key] = val
                stmts.append(f"sd,{klong_str(key)},,{src}")
            else:
                cur = json.loads(json.dumps(state))
                expected.append(cur if st[1] == "sd" else {"inner": cur, "tag": "outer"})
                stmts.append(f"wssnap({st[1]})")
                stmts.append(f"wsc({st[1]})")
        n0 = len(srv.received)
        if sc["mode"] == "gated":
            entered, release = threading.Event(), threading.Event()

            def busy():
                entered.set()
                release.wait(WAIT)
            real.ioloop.call_soon_threadsafe(busy)
            try:
                if not entered.wait(WAIT):
                    raise Unreachable("io loop did not pick up the gate")
                for t in stmts:
                    k(t)
            finally:
                release.set()
        else:
            k("wspush::{x;" + ";".join(stmts) + ';"pushed"}')
            k("pusht:::{}")
            k('pusht,"/push",wspush')
            wh, port = _start_web(real, "pusht", ":{}")
            session = hl.call(_mk_session())
            try:
                status, body = hl.call(_http(session, "get", f"http://127.0.0.1:{port}/push", {}))
            finally:
                hl.call(session.close())
            if (status, body) != ("200", "pushed"):
                ctx.oracle_fail("ws:send:from-web-handler", case, ["200", "pushed"], [status, body],
                                "a route handler that sends over a websocket connection must complete")
        sync = json.dumps(f"__hsync_{len(srv.received)}__")
        k(f"wsc({klong_str(json.loads(sync))})")
        wait_until(lambda: sync in srv.received[n0:])
        got = [t for t in srv.received[n0:] if t != sync]
        # ---- property oracle
        try:
            vals = [json.loads(t) for t in got]
            ok = len(vals) == len(expected) and all(same(a, b) for a, b in zip(vals, expected))
        except ValueError:
            vals, ok = got, False
        if not ok:
            later = len(got) == len(expected)
            ctx.oracle_fail("ws:send:stale-encoding" if later else "ws:send:history", case, expected, vals,
                            "each frame must be the JSON encoding of the value at the time of that send "
                            "(the dictionary is amended in place between and after the sends)")
        ctx.bump("ws:send-history:" + sc["mode"])
        ctx.bump("ws:send-history:sends", len(expected))
        if drv:
            mt = []
            for kv in snaps:
                f = fields(drv.ask(f"send scalars=1 val={jhx(kv)}"))
                mt.append(unhx(f["text"]) if "text" in f else None)
            if mt != got:
                ctx.mismatch("Klong.C20.send (value at call time) vs frames recorded by the peer", case, mt, got)
        ctx.count(("ws-send-history", json.dumps(sc, sort_keys=True)))
    finally:
        try:
            if wh is not None and wh.runner is not None:
                try:
                    asyncio.run_coroutine_threadsafe(wh.shutdown(), real.ioloop).result(WAIT)
                except Exception:
                    pass
            if nc is not None:
                _with_timeout(lambda: k(".wsc(wsc)"), WAIT)
        finally:
            srv.close()


# --------------------------------------------------------------------------- JSON text codec vs CPython json

def run_codec(ctx, drv, n):
    """Lean parse/render against json.loads/json.dumps on generated and damaged texts"""
    if not drv:
        return
    texts = []
    for _ in range(n):
        t = dump(ctx.rng, gen_json(ctx.rng, top=True))
        texts.append(t)
        if ctx.rng.random() < 0.35 and len(t) > 1:
            i = ctx.rng.randrange(len(t))
            q = ctx.rng.random()
            texts.append(t[:i] + t[i + 1:] if q < 0.5 else t[:i] + ctx.rng.choice('[]{},:"\\ 0-x') + t[i:])
    texts += ["01", "-", "1.", ".5", "1e", "+1", "-0", "-0.5", "1E5", "1e+5", "[1,]", "{\"a\"}", "nul", "\"abc",
              "[[[]]]", "\"\\u00E9\"", "\"\\ud83d\"", "\"\\x\"", "tru", "{\"a\":1,}", "1 2", "", " ", "\"\t\""]
    replies = drv.ask_many(["parse text=" + hx(t) for t in texts])
    for t, r in zip(texts, replies):
        try:
            py = json.loads(t)
            if _has_nonfinite(py) or _has_lone_surrogate(py):
                continue
            valid = True
        except (ValueError, RecursionError):
            py, valid = None, False
        got = unhx(r[8:]) if r.startswith("ok json=") else None
        ctx.count(("codec", t), nontrivial=len(t) > 4)
        ctx.bump("codec:" + ("valid" if valid else "invalid"))
        # a real keeps its literal in the model (1E5 stays 1E5): compare values, not spellings
        if (got is not None) != valid or (valid and not same(json.loads(got), py)):
            ctx.mismatch("Klong.C20.parse/render vs json.loads/json.dumps", dict(kind="codec", text=t), got,
                         json.dumps(py) if valid else None)


def _has_nonfinite(v):
    if isinstance(v, float):
        return v != v or v in (float("inf"), float("-inf"))
    if isinstance(v, list):
        return any(_has_nonfinite(x) for x in v)
    if isinstance(v, dict):
        return any(_has_nonfinite(x) for x in v.values())
    return False


def _has_lone_surrogate(v):
    if isinstance(v, str):
        return any(0xD800 <= ord(c) <= 0xDFFF for c in v)
    if isinstance(v, list):
        return any(_has_lone_surrogate(x) for x in v)
    if isinstance(v, dict):
        return any(_has_lone_surrogate(k) or _has_lone_surrogate(x) for k, x in v.items())
    return False


# --------------------------------------------------------------------------- entry

def _setup(ctx):
    import logging
    logging.disable(logging.CRITICAL)       # klongpy logs every failing handler; the check reports by itself
    drv = Driver("c20") if getattr(ctx, "driver_ok", True) else None
    return Real(), Loop(), drv


def _teardown(real, hl, drv):
    try:
        real.close()
    finally:
        hl.close()
        if drv:
            drv.close()


def _quiet():
    """klongpy prints from .webc and from failing encoders; keep the check's stdout clean"""
    import contextlib
    import io
    return contextlib.redirect_stdout(io.StringIO())


class Unreachable(Exception):
    """the real server / client did not come up on loopback within WAIT seconds"""


def guarded(ctx, kind, case, fn, *args):
    """run one scenario; whatever escapes from klongpy (or from decoding what it produced) is a failure of
    the property on that scenario, reported with the scenario as replay — never a crash of the check"""
    for attempt in (0, 1):
        try:
            return fn(*args)
        except Infra:
            raise
        except Unreachable as e:
            if attempt == 0:
                continue
            ctx.oracle_fail(f"{kind}:unreachable", case, "the server / client comes up on loopback", str(e),
                            "twice in a row the real code did not get a loopback connection going")
        except Exception as e:
            import traceback
            ctx.oracle_fail(f"{kind}:raises:{type(e).__name__}", case, "the scenario runs to its end",
                            f"{type(e).__name__}: {e}",
                            "an exception escaped while the scenario ran on the real code: "
                            + traceback.format_exc()[-600:])
            return None


def run(ctx):
    quick = ctx.tier == "quick"
    ctx.rule = ("seeded scenarios: route tables of <=3 GET and <=3 POST routes over global handler symbols, inline "
                "lambdas, a Python callable and a non-function x operation sequences of requests (registered / "
                "unknown / wrong-method / skipped routes; parameter dictionaries empty, several keys, non-ASCII, "
                "URL-encoding; independent query and form parts: a body on a GET, a query string on a POST, "
                "overlapping and disjoint keys, empty form), handler redefinitions (new body, other arity, non-function) and .webc; websocket "
                "frame sequences over all JSON kinds with .ws.m redefinition; send histories (amend a dictionary in place, "
                "send, amend, send ... with the io loop gated, or from a .web handler on the io loop); ws(x) over Python/numpy scalar, "
                "string, typed/object array and dictionary values; JSON texts (valid and damaged) through the "
                "codec. distinct = distinct scenarios/values; non-trivial = all but very short codec texts")
    ctx.assumptions += [
        "a handler's result depends only on its parameter dictionary and its current definition (handlers keep no state)",
        "the io loop runs one handler at a time: overlapping requests are modelled as served in some serial order "
        "(theorem burst_independent: each is answered as if alone); checked on the real server with bursts of 2-3 "
        "overlapping requests to the same and to different routes whose handlers pause 0.2 s",
        "each function value is bound to at most one global symbol",
        "parameter names are distinct within a request (a dictionary); route paths are plain ASCII without {patterns}",
        "websocket frames are well-formed JSON texts and .ws.m returns (a raising handler or garbage frame ends the "
        "listen loop: modelled, ws_at_most_once_in_order, not exercised on the real client)",
        "aiohttp's router, query/form decoding and the websockets framing are trusted",
        "inside a list, numbers are compared by value: a Klong list of numbers is one homogeneous vector, so a JSON "
        "array [0, 2.5, true] reaches the handler as [0.0 2.5 1.0] (numeric kind of list elements is not observable)",
    ]
    ctx.partial += [
        "ws_exactly_once_in_order_partial: a bare `null` frame is not delivered to .ws.m (json.loads gives None, "
        "which KGFnWrapper/klong.call treat as an unfilled argument): known finding ws:recv:null-toplevel, "
        "witness theorem Ws.ws_null_not_delivered",
    ]
    real, hl, drv = _setup(ctx)
    try:
        with _quiet():
            # corpus first: the historic failures, replayed on every run
            cdir = common.CORPUS / "C20"
            for cp in sorted(cdir.glob("*.json")) if cdir.exists() else []:
                c = json.loads(cp.read_text())
                if c["kind"] == "web":
                    guarded(ctx, "web", c, run_web_scenario, ctx, real, hl, drv, c)
                elif c["kind"] == "ws-recv":
                    guarded(ctx, "ws:recv", c, run_ws_recv, ctx, real, hl, drv, c)
                elif c["kind"] == "ws-send":
                    guarded(ctx, "ws:send", c, run_ws_send, ctx, real, hl, drv, [tuple(x) for x in c["items"]])
                elif c["kind"] == "ws-send-history":
                    guarded(ctx, "ws:send-history", c, run_ws_send_history, ctx, real, hl, drv, c)
                ctx.bump("corpus")
            nweb = 40 if quick else 500
            for i in range(nweb):
                sc = gen_web_scenario(ctx.rng, real, ctx.rng.randrange(5, 12 if quick else 30),
                                      burst_p=0.12 if quick else 0.06)
                if i < 2:
                    ctx.sample(dict(kind="web", get=sc["get"], post=sc["post"], ops=sc["ops"][:6]))
                guarded(ctx, "web", sc, run_web_scenario, ctx, real, hl, drv, sc)
                if len(ctx.oracle_failures) + len(ctx.mismatches) >= 6:
                    break
            nws = 16 if quick else 150
            for i in range(nws):
                sc = gen_ws_scenario(ctx.rng, real, ctx.rng.randrange(3, 10 if quick else 25))
                if i < 2:
                    ctx.sample(dict(kind="ws-recv", evs=sc["evs"][:5]))
                guarded(ctx, "ws:recv", sc, run_ws_recv, ctx, real, hl, drv, sc)
                if len(ctx.oracle_failures) + len(ctx.mismatches) >= 8:
                    break
            # the known-finding witness is replayed on every run
            for e in ctx.findings:
                w = e.get("witness", {})
                if w.get("kind") == "ws-recv":
                    guarded(ctx, "ws:recv", w, run_ws_recv, ctx, real, hl, drv, dict(kind="ws-recv", handler=real.fresh(), evs=w["evs"]))
            items = list(SEND_POOL)
            for _ in range(20 if quick else 300):
                it = gen_send_expr(ctx.rng)
                if it is not None:
                    items.append(it)
            ctx.sample(dict(kind="ws-send", exprs=[e for e, _ in items[:8]]))
            for i in range(0, len(items), 40):
                guarded(ctx, "ws:send", dict(kind="ws-send-batch", exprs=[e for e, _ in items[i:i + 40]]), run_ws_send, ctx, real, hl, drv, items[i:i + 40])
            for i in range(9 if quick else 90):
                sc = gen_send_history(ctx.rng, "web" if i % 3 == 2 else "gated")
                if i < 1:
                    ctx.sample(sc)
                guarded(ctx, "ws:send-history", sc, run_ws_send_history, ctx, real, hl, drv, sc)
                if len(ctx.oracle_failures) + len(ctx.mismatches) >= 8:
                    break
            run_codec(ctx, drv, 300 if quick else 6000)
    finally:
        _teardown(real, hl, drv)


def replay(ctx, case):
    c = case.get("case", case)
    real, hl, drv = _setup(ctx)
    try:
        with _quiet():
            kind = c.get("kind")
            if kind == "web":
                # ids in a recorded case are reused as they are
                real.next_id = 10 ** 6
                run_web_scenario(ctx, real, hl, drv, c)
            elif kind == "ws-recv":
                run_ws_recv(ctx, real, hl, drv, c)
            elif kind == "ws-send":
                run_ws_send(ctx, real, hl, drv, [(c["expr"], c["expect"])])
            elif kind == "ws-send-history":
                run_ws_send_history(ctx, real, hl, drv, c)
            elif kind == "codec":
                r = drv.ask("parse text=" + hx(c["text"])) if drv else None
                print("replay codec:", c["text"], "->", r)
            else:
                run(ctx)
    finally:
        _teardown(real, hl, drv)
    print("replay:", "oracle failures:", ctx.oracle_failures, "mismatches:", ctx.mismatches)
