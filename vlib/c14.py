"""C14 — every remote call gets its own answer or an error: never another's, never hangs.

Tie: the REAL `NetworkClient` (vlib/c14_harness.py: manually stepped real asyncio loop, real caller
threads parked at gates, in-memory streams, hooked `pending_responses`) executes a schedule; every
step it takes is logged as a label of the Lean machine `Klong.C14.step`; the machine must accept the
whole label sequence (decidable enabledness) and agree on the observable digest at every point
where the loop is idle.
Oracle (no model): every caller thread returns or raises (hang = completion future unresolved
while the io loop has nothing left to run; wall clock is only a 5 s safety net for a single
step), a returned value is the body of the first frame fed with the call's own id, a call whose
answer was consumed while it was waiting returns it, `pending_responses == {}` and `writer is
None` once the listener is gone, the listener never dies inside its cleanup.
"""
import itertools
import json
import logging
import pickle

from . import common
from .common import Driver, fields

CLAIM = dict(
    text="Lean 4 theorems over the IpcClient labelled transition system, for every schedule and any number of "
         "calls: answer_is_own, no_stuck_waiter (+ late calls raise within 4 own steps), "
         "loss_anywhere_fails_pending (every byte cut of a frame), server_error_propagates; the pinned cleanup "
         "loop is refuted by a kernel-checked trace. Model tied to klongpy.sys_fn_ipc.NetworkClient by replaying "
         "the real run's observed step labels into the machine (enabledness + digest agreement).",
    note="trusted: Lean kernel, harness (gates, hooked dict/reader/writer/loop), CPython GIL atomicity of single dict "
         "operations and of list(d.values()), asyncio futures/StreamReader/run_coroutine_threadsafe, uuid4 uniqueness; "
         "step granularity approximates CPython preemption points",
    technique="Lean 4 invariants over a labelled transition system, schedule as input; differential replay of observed "
              "labels from the real client under a deterministic scheduler",
    design="7/C14")

MODULES = ["Klong.Props.C14"]
THEOREMS = [
    "Klong.C14.answer_is_own",
    "Klong.C14.answer_at_most_once",
    "Klong.C14.delivered_only_by_recv",
    "Klong.C14.request_written_once",
    "Klong.C14.no_stuck_waiter",
    "Klong.C14.no_stuck_waiter_decidable",
    "Klong.C14.fixed_cleanup_never_crashes",
    "Klong.C14.late_call_never_waits",
    "Klong.C14.late_call_progress",
    "Klong.C14.late_call_raises",
    "Klong.C14.loss_detected",
    "Klong.C14.cut_anywhere_incomplete",
    "Klong.C14.loss_anywhere_fails_pending",
    "Klong.C14.server_error_propagates",
    "Klong.C14.eof_listener_progress",
    "Klong.C14.pinned_stuck_waiter",
    "Klong.C14.pinned_no_stuck_waiter_fails",
]

CALLS = ("call", "bigcall", "hugecall", "failcall", "badresult", "relaycall")     # plain / 70 000 / 300 000 character request payload
VALUES = ["a0", "a1", "a2", "dup", "push", "boom",     # bodies; "boom" fails when evaluated locally
          "x" * 65537, "y" * 200000, "z" * 65000,
          "relay"]       # pickled: > 64 KiB, ~200 KB, just under 64 KiB
FAIL = [5]
LARGE = [6, 7, 8]


# --------------------------------------------------------------------------- one case

def _model_calls(s):
    out = []
    for item in s.split(";"):
        if not item:
            continue
        k, ph, fut = item.split("/")
        out.append(f"{k}/{ph if ph.startswith('done:') else 'live'}/{fut}")
    return ";".join(out)


def detect_variant():
    """which cleanup the code under test has, read off the hooks of one tiny run"""
    from .c14_harness import Harness
    h = Harness(["call"], VALUES, [], ())
    try:
        for it in (["K", 0], ["K", 0], ["K", 0], ["IOS"], ["EOF"], ["IOS"]):
            h.apply(it)
        shape = list(h.cleanup_shape)
    finally:
        h.close()
    if "iter" in shape:
        return "pinned", shape
    if shape[:2] == ["snapshot", "clear"]:
        return "fixed", shape
    return "unknown", shape


def run_case(ctx, drv, case, variant, record=None):
    """never lets an exception of the code under test (or of decoding what it produced) escape:
    it becomes a broken tie with the case as replay"""
    try:
        return _run_case(ctx, drv, case, variant, record)
    except common.Infra:
        raise
    except Exception as e:  # noqa
        import traceback
        import uuid as _u
        import klongpy.sys_fn_ipc as ipc
        if not isinstance(ipc.uuid, type(_u)):
            ipc.uuid = _u
        ctx.mismatch("the harness could not drive NetworkClient through the case", case, "no exception",
                     f"{type(e).__name__}: {e}\n" + traceback.format_exc()[-1500:])
        ctx.count(json.dumps(case, sort_keys=True))
        return dict(res=[], final=dict(lst="?", pending="?"), labels=[], crash=repr(e))


def _run_case(ctx, drv, case, variant, record=None):
    from .c14_harness import Harness, HarnessHang, show_bytes
    kinds, stream, sched = case["callers"], [tuple(x) for x in case["stream"]], case["sched"]
    import contextlib
    import io
    with contextlib.ExitStack() as _stack:
        if case.get("apply"):
            # NetworkClient.__call__ prints the traceback of every failure to stderr
            _stack.enter_context(contextlib.redirect_stderr(io.StringIO()))
        return _run_case_inner(ctx, drv, case, variant, record)


def _run_case_inner(ctx, drv, case, variant, record=None):
    from .c14_harness import Harness, HarnessHang, show_bytes
    kinds, stream, sched = case["callers"], [tuple(x) for x in case["stream"]], case["sched"]
    h = Harness(kinds, VALUES, stream, [VALUES[i] for i in FAIL], server=bool(case.get("server")),
                apply_path=bool(case.get("apply")))
    hang_step = None
    try:
        try:
            for it in sched:
                h.apply(it)
            h.finish()
        except HarnessHang as e:
            hang_step = e.where
        labels = list(h.labels)
        checkpoints = list(h.checkpoints)
        final = h.digest()
        lst = final["lst"]
        idle = h.loop_idle()
        res = []
        for c in h.callers:
            res.append(dict(k=c.k, kind=c.kind, started=c.thread is not None, finished=c.finished,
                            outcome=h.outcome(c) if c.finished else None,
                            raw=c.result, answers=[show_bytes(b) for b in c.answers],
                            must_ok=show_bytes(c.must_ok) if c.must_ok is not None else None))
        spin = h.spin
        wire_probs = h.wire_problems()
        unsent = list(h.unsent_blocked)
        unanswered = list(h.unanswered_blocked)
        deadlocks = list(h.deadlocks)
        off_klong = list(h.off_klong_evals)
        lost_pushes = list(h.unanswered_pushes)
        extra_writes = h.extra_writes
        crash = None
        if h.run_task.done() and not h.run_task.cancelled() and h.run_task.exception() is not None:
            e = h.run_task.exception()
            crash = f"{type(e).__name__}: {e}"
        shape = list(h.cleanup_shape)
        notes = list(h.notes)
        close_hex = h.close_body.hex()
        close_show = show_bytes(h.close_body)
        fail_hex = [h.bodies[i].hex() for i in FAIL]
    finally:
        h.close()

    observed = dict(results=[{k: v for k, v in r.items() if k != "raw"} for r in res], listener=lst,
                    crash=crash, pending=final["pending"], labels=labels[-40:])
    # ---------------------------------------------------------------- property oracle (no model)
    if hang_step is not None:
        ctx.oracle_fail("c14:hang:caller-step", case, "every caller step returns", f"blocked in: {hang_step}", )
    for r in res:
        if r["started"] and not r["finished"]:
            ctx.oracle_fail("c14:hang", case, "every call returns or raises",
                            dict(caller=r["k"], listener=lst, crash=crash, loop_idle=idle, observed=observed),
                            "a caller is blocked in .result() although the io loop has nothing left to run")
        o = r["outcome"]
        if o is None:
            continue
        if o.startswith("value:exception"):
            ctx.oracle_fail("c14:exception-returned-as-value", case, "the call raises",
                            dict(caller=r["k"], returned=o, observed=observed),
                            "a failed remote call (server error / connection lost / connection gone) handed an "
                            "exception object back to the caller as its answer instead of raising")
            continue
        if o == "abort":
            ctx.mismatch("harness teardown reached a live caller", case, "finished", "aborted")
        if o.startswith("ok:") and r["kind"] in CALLS:
            if not r["answers"] or o[3:] != r["answers"][0]:
                ctx.oracle_fail("c14:wrong-answer", case,
                                f"first frame fed with id {r['k']}: {r['answers'][:1]}", o,
                                "a call returned a value that is not the first response to its own request")
        if o.startswith("ok:") and r["kind"] not in CALLS and close_show not in r["answers"]:
            ctx.oracle_fail("c14:close-without-ack", case, "close() returns only after its ack", observed)
        if r["must_ok"] is not None and o != "ok:" + r["must_ok"]:
            ctx.oracle_fail("c14:answered-call-failed", case, "ok:" + r["must_ok"], o,
                            "the response was consumed while the call was waiting, yet the call did not return it")
        ctx.bump("outcome:" + o.split(":")[0] + (":" + o.split(":")[1] if o.startswith("exc") else ""))
    if lst != "listening":
        if final["pending"] != "" and idle:
            ctx.oracle_fail("c14:pending-leak", case, "pending_responses == {} once the listener is gone",
                            dict(pending=final["pending"], observed=observed))
        if final["writer"] != "0":
            ctx.oracle_fail("c14:writer-kept", case, "writer is None once the listener is gone", observed)
    if crash is not None or lst == "crashed":
        ctx.oracle_fail("c14:listener-crash", case, "the listener leaves through its cleanup and signals its exit",
                        dict(crash=crash, observed=observed),
                        "_run died inside finally: remaining futures are never failed, _run_exit_event never set")
    if deadlocks:
        ctx.oracle_fail("c14:hang:command-evaluated-on-io-loop", case,
                        "a peer's request is evaluated on the interpreter loop, never on the io loop thread",
                        dict(commands=deadlocks, observed=observed),
                        "a command that makes a remote call itself (relay) was evaluated on the io loop thread: "
                        "its run_coroutine_threadsafe(...).result() on that loop did not complete (the loop cannot "
                        "run while its own thread waits) - the io loop deadlocks and every caller hangs")
    elif off_klong:
        ctx.mismatch("commands of the peer run on klongloop, never on ioloop", case, "scheduled through klongloop",
                     dict(evaluated_off_klong_loop=off_klong[:5]))
    if lost_pushes:
        ctx.oracle_fail("c14:push-not-answered", case,
                        "a request of the peer to this side is evaluated and answered, calls pending meanwhile "
                        "still get their own answers",
                        dict(push_ids=lost_pushes, listener=lst, crash=crash, observed=observed),
                        "a server->client request arrived on a healthy connection and no answer with its id was "
                        "written (the peer's call to this side never returns)")
    if unanswered:
        ctx.oracle_fail("c14:hang:server-failure-not-reported", case,
                        "a call whose request the server has read returns or raises",
                        dict(callers=unanswered, listener=lst, observed=observed),
                        "the real server side has read the request and has nothing left to do, it neither answered "
                        "nor closed the connection: the caller stays pending on a healthy, idle connection")
    if unsent:
        ctx.oracle_fail("c14:hang:request-never-written", case,
                        "a call blocked in result() has had its request handed to the writer",
                        dict(callers=unsent, listener=lst, wire=final.get("wire"), observed=observed),
                        "the connection is healthy and the io loop has nothing left to run, yet the request of a "
                        "waiting caller was never written: no peer can ever answer it, the caller waits forever")
    if wire_probs:
        ctx.oracle_fail("c14:wire-garbled", case,
                        "the bytes the server sees parse as exactly the request frames that were sent",
                        dict(problems=wire_probs[:6], wire=final.get("wire"), observed=observed),
                        "request frames of concurrent callers are interleaved on the connection: the server cannot "
                        "decode them, so the calls cannot get the answers to their own requests")
    if spin:
        ctx.oracle_fail("c14:listener-spin", case, "the listener leaves when its stream is dead",
                        observed, "the listener keeps reading a dead stream: pending calls are never failed")
    for n_ in notes:
        ctx.mismatch("harness note", case, "", n_)

    # ---------------------------------------------------------------- model
    if drv is not None:
        mv = variant if variant in ("pinned", "fixed") else "fixed"
        lines = [f"new variant={mv} close={close_hex} fail={','.join(fail_hex)}"] + labels
        replies = drv.ask_many(lines)
        bad = None
        for i, rep in enumerate(replies):
            if not rep.startswith("ok "):
                bad = (i, lines[i], rep)
                break
        if bad is not None:
            ctx.mismatch("Klong.C14.step: label taken by the real client is not enabled in the model", case,
                         f"{bad[2][:200]}", dict(label=bad[1], index=bad[0], labels=labels[:bad[0] + 1][-30:]))
        else:
            for idx, dg in checkpoints + [(len(labels), final)]:
                f = fields(replies[idx])
                model = dict(lst=f.get("lst"), writer=f.get("writer"), running=f.get("running"),
                             pending=f.get("pending", ""), calls=_model_calls(f.get("calls", "")),
                             blocked=f.get("blocked"), wire=f.get("wire", ""))
                if dg.get("wire") is None:          # broken writer: frames may be cut short
                    model["wire"] = None
                if model != dg or f.get("idle") != "1":
                    ctx.mismatch("Klong.C14 digest vs NetworkClient at an idle point", case,
                                 dict(model=model, idle=f.get("idle")), dict(impl=dg, after_labels=labels[:idx][-30:]))
                    break
    if record is not None:
        record.append(dict(labels=labels, final=final))
    ctx.count(json.dumps(case, sort_keys=True), nontrivial=len(labels) >= 3)
    ctx.bump("kind:" + case["kind"])
    ctx.bump("listener:" + lst)
    for s_ in set(shape):
        ctx.bump("cleanup:" + s_)
    return dict(res=res, final=final, labels=labels, crash=crash)


# --------------------------------------------------------------------------- generators

def frame_len(b, _cache={}):
    if b == "close":
        return 20 + CLOSE_LEN[0]
    if b not in _cache:
        _cache[b] = 20 + len(pickle.dumps(VALUES[b]))
    return _cache[b]


CLOSE_LEN = [0]


def stream_layout(stream):
    offs, pos = [], 0
    for _, b in stream:
        n = frame_len(b)
        offs.append((pos, pos + n))
        pos += n
    return offs, pos


def cut_classes(stream):
    """representative offsets: between frames, inside id, inside length, inside body"""
    offs, total = stream_layout(stream)
    pts = {0, total}
    for s, e in offs:
        pts |= {s, s + 1, s + 15, s + 16, s + 17, s + 19, s + 20, min(s + 21, e), e - 1, e}
        if e - s > 60000:       # long body: around the 64 KiB mark, in the middle, near the end
            pts |= {s + 20 + 4096, s + 20 + 65535, s + 20 + 65536, min(s + 20 + 65537, e - 1), (s + e) // 2, e - 2}
    return sorted(p for p in pts if 0 <= p <= total)


def cut_class_name(stream, p):
    offs, total = stream_layout(stream)
    for s, e in offs:
        if p == s:
            return "between"
        if s < p < s + 16:
            return "in-id"
        if s + 16 <= p < s + 20:
            return "in-len"
        if s + 20 <= p < e:
            return "in-body"
    return "between"


def bring_to(phases, order=None):
    """schedule prefix bringing caller k to phases[k]: 0 not started .. 3 submitted, 4 waiting"""
    ks = list(range(len(phases))) if order is None else order
    sched = []
    for k in ks:
        if phases[k] == 4:
            sched += [["K", k]] * 3
    if any(p == 4 for p in phases):
        sched.append(["IOS"])
    for k in ks:
        if phases[k] < 4:
            sched += [["K", k]] * phases[k]
    return sched


def interleave(rng, seqs):
    seqs = [list(s) for s in seqs if s]
    out = []
    while seqs:
        s = rng.choice(seqs)
        out.append(s.pop(0))
        if not s:
            seqs.remove(s)
    return out


def gen_orders(rng, thorough):
    """all arrival orders of the responses to <= 3 concurrent calls x fragmentations"""
    for n in (1, 2, 3):
        for perm in itertools.permutations(range(n)):
            stream = [[k, k] for k in perm]
            pts = cut_classes(stream)
            _, total = stream_layout(stream)
            pairs = [(a, b) for a in pts for b in pts if a <= b]
            if not thorough:
                pairs = rng.sample(pairs, min(len(pairs), 20 if n < 3 else 10))
            else:
                # every byte offset as a single cut, all pairs of class representatives (sampled
                # for three frames), plus random pairs of arbitrary offsets
                every = [(a, a) for a in range(total + 1)]
                anyp = [(a, b) for a in range(total + 1) for b in range(a, total + 1)]
                if n == 1:
                    pairs = anyp
                else:
                    pairs = rng.sample(pairs, min(len(pairs), 150 if n == 3 else 250))
                    pairs = every + pairs + rng.sample(anyp, 100)
            for a, b in pairs:
                pre = interleave(rng, [[["K", k]] * 3 for k in range(n)]) + [["IOS"]]
                step = rng.random() < 0.5
                feed = [["F", 0, a]] + ([["IO"]] if step else []) + [["F", a, b]] + \
                       ([["IO"]] if rng.random() < 0.5 else []) + [["F", b, total], ["IOS"]]
                yield dict(kind="orders", callers=["call"] * n, stream=stream, sched=pre + feed)


def gen_loss(rng, thorough, count):
    """connection loss at every boundary class x every point of the call sequence x 0..3 pending"""
    combos = []
    for n in (0, 1, 2, 3):
        for phases in itertools.product(range(5), repeat=n):
            combos.append(phases)
    if not thorough:
        combos = rng.sample(combos, min(len(combos), count))
    for phases in combos:
        n = len(phases)
        waiting = [k for k in range(n) if phases[k] == 4]
        rng.shuffle(waiting)
        answered = waiting[:rng.randrange(len(waiting) + 1)]
        stream = [[k, k] for k in answered]
        pts = cut_classes(stream) if stream else [0]
        ps = pts if thorough and len(pts) <= 12 else rng.sample(pts, min(len(pts), 3 if not thorough else 6))
        for p in ps:
            for loss in (["EOF"], ["RESET"]):
                if not thorough and rng.random() < 0.4:
                    continue
                sched = bring_to(phases)
                if rng.random() < 0.25:
                    sched.append(["BREAKW"])
                sched += [["F", 0, p]]
                if rng.random() < 0.6:
                    sched.append(["IOS"])
                sched.append(loss)
                if rng.random() < 0.3:
                    sched.append(["PROVCLOSE"])
                if rng.random() < 0.5:
                    late = [k for k in range(n) if phases[k] < 3]
                    sched += [["K", k] for k in late if rng.random() < 0.5]
                sched.append(["IOS"])
                yield dict(kind="loss", cut=cut_class_name(stream, p) if stream else "none",
                           callers=["call"] * n, stream=stream, sched=sched)


def gen_race(rng, thorough, count):
    """callers registering while the cleanup runs (the yield points of the hooked dict)"""
    cases = []
    for nwait in (0, 1, 2, 3):
        for nlate in (1, 2):
            if nwait + nlate > 4:
                continue
            for late_phase in (0, 1, 2):
                for yp in range(0, nwait + 2):
                    for steps in (1, 2, 3):
                        cases.append((nwait, nlate, late_phase, yp, steps))
    if not thorough:
        cases = rng.sample(cases, min(len(cases), count))
    for nwait, nlate, late_phase, yp, steps in cases:
        n = nwait + nlate
        phases = [4] * nwait + [late_phase] * nlate
        sched = bring_to(phases)
        loss = rng.choice([["EOF"], ["RESET"]])
        race = {}
        for j, k in enumerate(range(nwait, n)):
            idx = str(yp + (j if rng.random() < 0.5 else 0))
            race.setdefault(idx, [])
            race[idx] += [["K", k]] * max(0, min(3 - late_phase, steps))
        sched += [loss, ["IOS", race]]
        yield dict(kind="race", callers=["call"] * n, stream=[], sched=sched)


def gen_close(rng, thorough, count):
    """close / shutdown racing with calls; remote close request; double close"""
    out = []
    for _ in range(count):
        ncall = rng.randrange(0, 3)
        closer = rng.choice(["close", "close", "shutdown"])
        kinds = ["call"] * ncall + [closer] + (["close"] if rng.random() < 0.3 else [])
        n = len(kinds)
        ck = ncall
        phases = [rng.choice([0, 2, 3, 4, 4]) for _ in range(n)]
        phases[ck] = rng.choice([4, 4, 4, 3, 1])
        waiting = [k for k in range(n) if phases[k] == 4 and (kinds[k] == "call" or k == ck)]
        rng.shuffle(waiting)
        stream = [[k, "close" if kinds[k] != "call" else k] for k in waiting if rng.random() < 0.8]
        if rng.random() < 0.15:
            stream.insert(rng.randrange(len(stream) + 1), [100, "close"])     # remote close request
        _, total = stream_layout(stream)
        sched = bring_to(phases)
        mode = rng.random()
        if mode < 0.5 or not stream:
            sched += [["F", 0, total], ["IOS"]]
        elif mode < 0.75:
            p = rng.choice(cut_classes(stream))
            sched += [["F", 0, p], ["IOS"], rng.choice([["EOF"], ["RESET"]]), ["IOS"]]
        else:
            p = rng.choice(cut_classes(stream))
            late = [k for k in range(n) if phases[k] < 3]
            sched += [["F", 0, p], ["IO"]] + [["K", k] for k in late] + [["F", p, total], ["IOS"]]
        if rng.random() < 0.3:
            sched.append(["EOF"])
        out.append(dict(kind="close", callers=kinds, stream=stream, sched=sched))
    return out


def gen_large(rng, thorough):
    """response frames with bodies beyond 64 KiB (and just below): connection loss inside the id,
    the length and at several points inside the long body, right after it, with 1..3 calls
    pending; and the same frames delivered whole under fragmentation"""
    combos = []
    for big in LARGE:
        for n in (1, 2, 3):
            for pos in range(n):          # which call gets the long answer
                combos.append((big, n, pos))
    combos = rng.sample(combos, 15 if thorough else 6)
    for big, n, pos in combos:
        order = list(range(n))
        rng.shuffle(order)
        answered = order[:rng.randrange(1, n + 1)]
        if pos not in answered:
            answered.append(pos)
        small_first = rng.random() < 0.5
        answered = [k for k in answered if k != pos]
        stream = ([[k, k] for k in answered] + [[pos, big]]) if small_first else \
                 ([[pos, big]] + [[k, k] for k in answered])
        offs, total = stream_layout(stream)
        s, e = offs[len(answered)] if small_first else offs[0]
        inside = [s + 5, s + 17, s + 20, s + 21, s + 20 + 4096, s + 20 + 65535, s + 20 + 65536,
                  min(s + 20 + 65537, e - 1), (s + e) // 2, e - 1, e]
        pts = inside if thorough else rng.sample(inside[:2], 1) + rng.sample(inside[2:-1], 3) + [e]
        for p in pts:
            for loss in (rng.choice([["EOF"], ["EOF"], ["RESET"]]),):
                sched = bring_to([4] * n)
                mid = rng.choice([q for q in inside if q < p] or [0])
                sched += [["F", 0, mid]] + ([["IOS"]] if rng.random() < 0.5 else []) + [["F", mid, p]]
                if rng.random() < 0.6:
                    sched.append(["IOS"])
                sched += [loss, ["IOS"]]
                yield dict(kind="large-loss", cut=cut_class_name(stream, p), callers=["call"] * n,
                           stream=stream, sched=sched)
        for _ in range(3 if thorough else 1):
            a, b = sorted(rng.sample(inside, 2))
            sched = bring_to([4] * n) + [["F", 0, a]] + ([["IO"]] if rng.random() < 0.5 else []) + \
                [["F", a, b], ["IO"] if rng.random() < 0.5 else ["IOS"], ["F", b, total], ["IOS"]]
            yield dict(kind="large-whole", callers=["call"] * n, stream=stream, sched=sched)


def gen_backpressure(rng, count):
    """large requests while the transport applies back-pressure (`drain()` really suspends):
    other callers send on the same connection during the suspension; answers in any order;
    losses during the suspension"""
    for _ in range(count):
        n = rng.randrange(2, 4)
        kinds = [rng.choice(["call", "call", "bigcall", "hugecall"]) for _ in range(n)]
        if not any(k != "call" for k in kinds):
            kinds[rng.randrange(n)] = rng.choice(["bigcall", "hugecall"])
        order = list(range(n))
        rng.shuffle(order)
        stream = [[k, k] for k in order if rng.random() < 0.85]
        _, total = stream_layout(stream)
        sched = []
        early = [k for k in range(n) if rng.random() < 0.25]
        sched += bring_to([4 if k in early else 0 for k in range(n)])
        sched.append(["CONGEST"])
        rest = [k for k in range(n) if k not in early]
        rng.shuffle(rest)
        if rng.random() < 0.5:
            for k in rest:                       # one after the other, loop stepped in between
                sched += [["K", k]] * 3 + [["IO"]] * rng.randrange(1, 4)
        else:
            sched += interleave(rng, [[["K", k]] * 3 + [["IO"]] for k in rest])
            sched += [["IO"]] * rng.randrange(0, 3)
        r = rng.random()
        if r < 0.15:
            sched += [rng.choice([["EOF"], ["RESET"]]), ["IOS"]]
        elif r < 0.25:
            sched += [["BREAKW"], ["IOS"]]
        sched += [["UNCONGEST"], ["IOS"]]
        if stream:
            p = rng.choice(cut_classes(stream))
            sched += [["F", 0, p], ["IO"], ["F", p, total], ["IOS"]]
        yield dict(kind="backpressure", callers=kinds, stream=stream, sched=sched)


def gen_slow(rng, thorough):
    """responses whose fragments arrive far apart in (virtual) time: the machine has no clock, so
    every call must still get its own answer, at every split position"""
    for n in (1, 2, 3):
        perms = list(itertools.permutations(range(n)))
        for perm in (perms if thorough else rng.sample(perms, min(len(perms), 2))):
            stream = [[k, k] for k in perm]
            offs, total = stream_layout(stream)
            pts = [p for p in cut_classes(stream) if 0 < p < total]
            if not thorough:
                s, e = offs[rng.randrange(n)]
                pts = sorted({s + 5, s + 16, s + 17, s + 19, s + 20, s + 21, e - 1} & set(pts) |
                             set(rng.sample(pts, min(len(pts), 2))))
            for p in pts:
                for gap in ((2, 10, 120) if thorough else (rng.choice([2, 10, 120]),)):
                    sched = interleave(rng, [[["K", k]] * 3 for k in range(n)]) + [["IOS"]]
                    if rng.random() < 0.3:
                        sched += [["ADV", gap], ["IOS"]]          # idle time at a frame boundary
                    sched += [["F", 0, p], ["IOS"], ["ADV", gap], ["IOS"]]
                    q = rng.choice([x for x in cut_classes(stream) if x > p] or [total])
                    if q < total and rng.random() < 0.4:
                        sched += [["F", p, q], ["IOS"], ["ADV", gap], ["IOS"]]
                    sched += [["F", p, total], ["IOS"]]
                    yield dict(kind="slow-fragments", cut=cut_class_name(stream, p), callers=["call"] * n,
                               stream=stream, sched=sched)


def gen_peer(rng, thorough):
    """honest peers that answer in another order than the requests arrived: a frame is sent only
    after the request it answers has been seen on the wire (answer order 3,2,1 and all others)"""
    for n in (2, 3, 4):
        perms = list(itertools.permutations(range(n)))
        rev = tuple(reversed(range(n)))
        chosen = perms if (thorough or n < 4) else [rev] + rng.sample(perms, 5)
        for perm in chosen:
            for _ in range(2 if thorough else 1):
                kinds = ["call"] * n
                if rng.random() < 0.3:
                    kinds[rng.randrange(n)] = "bigcall"
                stream = [[k, k] for k in perm]
                if rng.random() < 0.5:
                    sched = interleave(rng, [[["K", k]] * 3 for k in range(n)])
                else:
                    sched = []
                    for k in range(n):
                        sched += [["K", k]] * 3 + ([["IO"]] if rng.random() < 0.5 else [])
                sched += [["PEER"]]
                yield dict(kind="peer-order", callers=kinds, stream=stream, sched=sched)


def gen_push(rng):
    """requests of the PEER to this side (server -> client push on a `.cli` connection: plain and
    relay commands), alone and while calls are pending / before and after their answers"""
    for n in (0, 1, 2):
        for push in (4, 9):                         # "push", "relay"
            for where in range(n + 1):
                for split in (False, True):
                    answers = [[k, k] for k in range(n)]
                    stream = answers[:where] + [[100, push]] + answers[where:]
                    if split and n:
                        stream.append([101, 4])
                    _, total = stream_layout(stream)
                    sched = bring_to([4] * n)
                    if split:
                        p = rng.choice(cut_classes(stream))
                        sched += [["F", 0, p], ["IO"], ["F", p, total], ["IOS"]]
                    else:
                        sched += [["F", 0, total], ["IOS"]]
                    yield dict(kind="push", callers=["call"] * n, stream=stream, sched=sched)


def gen_apply(rng):
    """the Klong application path `f(x)` (NetworkClient.__call__) for every failure outcome -
    server-side error, loss while pending, call after the connection has gone, closed transport -
    and for a normal answer: the caller gets an exception, never a value"""
    k3 = lambda k: [["K", k]] * 3
    yield dict(kind="apply", apply=True, server=True, callers=["failcall"], stream=[], sched=k3(0) + [["IOS"]])
    yield dict(kind="apply", apply=True, server=True, callers=["call", "badresult"], stream=[],
               sched=k3(0) + [["IOS"]] + k3(1) + [["IOS"]])
    yield dict(kind="apply", apply=True, server=True, callers=["call", "failcall", "call"], stream=[],
               sched=k3(0) + k3(1) + k3(2) + [["IOS"]])
    for loss in (["EOF"], ["RESET"]):
        yield dict(kind="apply", apply=True, callers=["call", "call"], stream=[[0, 0]],
                   sched=k3(0) + k3(1) + [["IOS"], ["F", 0, 25], ["IOS"], loss, ["IOS"]])
        yield dict(kind="apply", apply=True, callers=["call", "call"], stream=[],
                   sched=k3(0) + [["IOS"], loss, ["IOS"]] + k3(1) + [["IOS"]])
        yield dict(kind="apply", apply=True, callers=["call"], stream=[],
                   sched=[loss, ["IOS"], ["PROVCLOSE"]] + k3(0) + [["IOS"]])
    yield dict(kind="apply", apply=True, callers=["call", "call"], stream=[[1, 1], [0, 0]],
               sched=k3(0) + k3(1) + [["IOS"], ["F", 0, 1000], ["IOS"]])
    yield dict(kind="apply", apply=True, callers=["call"], stream=[],
               sched=k3(0)[:2] + [["BREAKW"]] + k3(0)[:1] + [["IOS"]])


def gen_server(rng, count):
    """the REAL server side (TcpServerHandler.handle_client -> NetworkClient._run) at the other
    end of the wire: requests that evaluate, requests whose evaluation raises, results that
    cannot be pickled - a failure must reach the caller (the server drops the connection)"""
    for i in range(count):
        n = rng.randrange(1, 4)
        kinds = [rng.choice(["call", "call", "failcall", "badresult", "relaycall"]) for _ in range(n)]
        if i % 2 == 0 and all(k == "call" for k in kinds):
            kinds[rng.randrange(n)] = rng.choice(["failcall", "badresult"])
        seqs = [[["K", k]] * 3 for k in range(n)]
        sched = []
        for it in interleave(rng, seqs):
            sched.append(it)
            if rng.random() < 0.25:
                sched.append(["IO"] if rng.random() < 0.5 else ["IOS"])
        sched.append(["IOS"])
        yield dict(kind="server-side", server=True, callers=kinds, stream=[], sched=sched)


def gen_after_gone(rng, count):
    """calls made after the connection has gone"""
    for _ in range(count):
        nbefore = rng.randrange(0, 3)
        nafter = rng.randrange(1, 3)
        kinds = ["call"] * nbefore + [rng.choice(["call", "call", "close"]) for _ in range(nafter)]
        phases = [rng.choice([4, 4, 3, 2]) for _ in range(nbefore)] + [0] * nafter
        how = rng.random()
        stream = []
        sched = bring_to(phases)
        if how < 0.4:
            sched += [["EOF"], ["IOS"]]
        elif how < 0.6:
            sched += [["RESET"], ["IOS"]]
        elif how < 0.8:
            stream = [[100, "close"]]
            sched += [["F", 0, 10 ** 6], ["IOS"]]
        else:
            stream = [[101, 5]]                                  # server push whose evaluation fails
            sched += [["F", 0, 10 ** 6], ["IOS"]]
        if rng.random() < 0.5:
            sched.append(["PROVCLOSE"])
        if rng.random() < 0.3:
            sched.append(["BREAKW"])
        after = interleave(rng, [[["K", k]] * 3 for k in range(nbefore, nbefore + nafter)])
        for it in after:
            sched.append(it)
            if rng.random() < 0.3:
                sched.append(["IO"])
        sched.append(["IOS"])
        yield dict(kind="after-gone", callers=kinds, stream=stream, sched=sched)


def gen_odd_frames(rng, count):
    """duplicate responses, server push requests (ok / failing) mixed with answers"""
    for _ in range(count):
        n = rng.randrange(1, 4)
        phases = [rng.choice([4, 4, 4, 3, 2]) for _ in range(n)]
        waiting = [k for k in range(n) if phases[k] == 4]
        stream = []
        for k in waiting:
            if rng.random() < 0.8:
                stream.append([k, k])
            if rng.random() < 0.35:
                stream.append([k, 3])            # duplicate answer: evaluated as a request
        for _ in range(rng.randrange(0, 2)):
            stream.insert(rng.randrange(len(stream) + 1), [100 + rng.randrange(3), rng.choice([4, 4, 5])])
        rng.shuffle(stream)
        _, total = stream_layout(stream)
        pts = cut_classes(stream) if stream else [0]
        a = rng.choice(pts)
        sched = bring_to(phases) + [["F", 0, a], ["IOS"] if rng.random() < 0.5 else ["IO"],
                                    ["F", a, total], ["IOS"]]
        if rng.random() < 0.4:
            sched += [rng.choice([["EOF"], ["RESET"]]), ["IOS"]]
        yield dict(kind="odd-frames", callers=["call"] * n, stream=stream, sched=sched)


def gen_random(rng, count, length):
    """random walks over schedule items"""
    for _ in range(count):
        n = rng.randrange(1, 5)
        kinds = [rng.choice(["call", "call", "call", "close"]) for _ in range(n)]
        order = list(range(n))
        rng.shuffle(order)
        stream = [[k, "close" if kinds[k] != "call" else k] for k in order if rng.random() < 0.8]
        if rng.random() < 0.2:
            stream.insert(rng.randrange(len(stream) + 1), [100, rng.choice([4, 5, "close"])])
        _, total = stream_layout(stream)
        pos = 0
        sched = []
        for _ in range(length):
            r = rng.random()
            if r < 0.5:
                sched.append(["K", rng.randrange(n)])
            elif r < 0.75:
                sched.append(["IO"] if rng.random() < 0.6 else ["IOS"])
            elif r < 0.9 and pos < total:
                nxt = rng.choice([p for p in cut_classes(stream) if p > pos] or [total])
                sched.append(["F", pos, nxt])
                pos = nxt
            elif r < 0.95:
                sched.append(rng.choice([["EOF"], ["RESET"], ["PROVCLOSE"], ["BREAKW"]]))
            else:
                race = {str(rng.randrange(3)): [["K", rng.randrange(n)]] * rng.randrange(1, 4)}
                sched.append(["IOS", race])
        yield dict(kind="random", callers=kinds, stream=stream, sched=sched)


WITNESS = dict(kind="race", callers=["call", "call"], stream=[],
               sched=[["K", 0], ["K", 0], ["K", 0], ["IOS"], ["K", 1], ["EOF"], ["IOS", {"0": [["K", 1]]}]])


def lean_label(l):
    ws = l.split(" ")
    f = fields(l)
    op = ws[0]
    if op == "check":
        return f".check {f['c']} {'true' if f.get('close') == '1' else 'false'}"
    if op in ("reg", "submit", "send", "drain", "deliver"):
        return f".{op} {f['c']}"
    if op == "feed":
        if "r" in f:
            return ".feed (" + " ++ ".join(f"List.replicate {it.split('*')[1]} {int(it.split('*')[0], 16)}"
                                            for it in f["r"].split(",")) + ")"
        bs = bytes.fromhex(f.get("b", ""))
        return ".feed [" + ", ".join(str(x) for x in bs) + "]"
    return {"recv": ".recv", "clr": ".clr", "cl": ".cl", "eof": ".eof", "reset": ".reset",
            "provclose": ".provClose", "breakwriter": ".breakWriter"}[op]


def kernel_trace_obligation(ctx, variant, rec):
    """the label sequence the REAL client produced on the race witness is a legal run of the
    machine and ends (kernel `decide`) in the state class the run was observed in"""
    labels = rec["labels"]
    final = rec["final"]
    stuck = final["blocked"] == "1"
    lst = {"exited": ".exited", "crashed": ".crashed", "listening": ".listening"}[final["lst"]]
    src = ("import Klong.Model.C14\nopen Klong.C14\n"
           f"example : (runStrict (init .{variant} [] []) [{', '.join(lean_label(l) for l in labels)}]).map\n"
           f"    (fun s => (s.lst, ioIdle s, anyBlocked s)) = some ({lst}, true, {'true' if stuck else 'false'}) := by decide\n")
    ok, out = common.lean_run(src)
    ctx.obligation("kernel: recorded real trace of the cleanup race is a legal run of Klong.C14 "
                   f"({variant}) ending {'stuck' if stuck else 'with nobody blocked'}", ok, out[-600:])


# --------------------------------------------------------------------------- entry

def _setup(ctx):
    logging.disable(logging.CRITICAL)
    import klongpy.sys_fn_ipc as ipc
    CLOSE_LEN[0] = len(pickle.dumps(ipc.KGRemoteCloseConnection()))
    variant, shape = detect_variant()
    ctx.extra["cleanup_shape"] = shape
    ctx.extra["variant"] = variant
    if variant == "unknown":
        ctx.broken.append(f"_cleanup_pending_responses has a shape the model does not describe: {shape}")
    return variant


def run(ctx):
    quick = ctx.tier == "quick"
    try:
        variant = _setup(ctx)
        drv = Driver("c14") if getattr(ctx, "driver_ok", True) else None
    except Exception:
        logging.disable(logging.NOTSET)
        raise
    ctx.rule = ("schedules of caller-thread steps, io-loop iterations, stream feeds (cut at every boundary class: "
                "between frames, inside id, inside length, inside body; bodies up to 200 KB), EOF/reset/closed-transport/broken-writer "
                "faults and racing steps inside the cleanup, for <= 4 callers (call / close / shutdown); "
                "distinct = distinct (callers, stream, schedule); non-trivial = at least three machine labels")
    ctx.assumptions += [
        "uuid4 ids are unique and unguessable (the harness hands out the caller index as id)",
        "CPython runs single dict operations and list(d.values()) atomically; other threads run between bytecodes "
        "(approximated by the model's label granularity)",
        "no on_close/on_connect/on_error callbacks on the client under test; one connection per NetworkClient",
        "a server-side evaluation error reaches the client as a closed connection (probed live, DESIGN 7/C14)",
    ]
    try:
        cdir = common.CORPUS / "C14"
        if cdir.exists():
            for p in sorted(cdir.glob("*.json")):
                run_case(ctx, drv, json.loads(p.read_text()), variant)
        rec = []
        run_case(ctx, drv, WITNESS, variant, record=rec)
        if drv is not None and variant in ("pinned", "fixed") and rec:
            kernel_trace_obligation(ctx, variant, rec[0])
        gens = [
            gen_orders(ctx.rng, not quick),
            gen_apply(ctx.rng),
            gen_push(ctx.rng),
            gen_server(ctx.rng, 60 if quick else 500),
            gen_peer(ctx.rng, not quick),
            gen_slow(ctx.rng, not quick),
            gen_backpressure(ctx.rng, 60 if quick else 600),
            gen_large(ctx.rng, not quick),
            gen_loss(ctx.rng, not quick, 80),
            gen_race(ctx.rng, not quick, 100),
            gen_close(ctx.rng, not quick, 220 if quick else 1200),
            gen_after_gone(ctx.rng, 130 if quick else 900),
            gen_odd_frames(ctx.rng, 130 if quick else 900),
            gen_random(ctx.rng, 200 if quick else 1500, 18 if quick else 30),
        ]
        for g in gens:
            for case in g:
                run_case(ctx, drv, case, variant)
                if len(ctx.samples) < 6 and ctx.rng.random() < 0.01:
                    ctx.sample(case)
                if len(ctx.oracle_failures) >= 40:
                    return
    finally:
        logging.disable(logging.NOTSET)
        if drv:
            drv.close()


def replay(ctx, case):
    variant = _setup(ctx)
    drv = Driver("c14") if getattr(ctx, "driver_ok", True) else None
    c = case.get("case", case)
    try:
        r = run_case(ctx, drv, c, variant)
        print("replay: variant", variant)
        print("replay: labels", r["labels"])
        print("replay: callers", [(x["k"], x["kind"], x["outcome"] if x["finished"] else "BLOCKED") for x in r["res"]])
        print("replay: listener", r["final"]["lst"], "crash:", r["crash"], "pending:", r["final"]["pending"])
    finally:
        logging.disable(logging.NOTSET)
        if drv:
            drv.close()
    print("replay:", "oracle failures:", [f["key"] for f in ctx.oracle_failures], "mismatches:", len(ctx.mismatches))
