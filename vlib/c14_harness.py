"""C14 harness: the REAL klongpy NetworkClient driven deterministically.

* the io loop is a real asyncio SelectorEventLoop stepped one iteration at a time on the
  harness thread (`IO` schedule item);
* callers are real threads inside the real `NetworkClient.call` / `close`, parked at three gates
  the harness owns (provider.is_open -> loop.create_future -> loop.call_soon_threadsafe) and
  released one step at a time (`K k`);
* the connection is an in-memory ConnectionProvider: a StreamReader subclass the harness feeds
  (`F a b`, `EOF`, `RESET`) and a fake writer that records frames (`BREAKW`, `PROVCLOSE`);
* `nc.pending_responses` is a dict subclass whose *Python-level* iteration (`for f in d.values()`)
  yields to the harness between elements while `list(d.values())` stays atomic (as for a real
  dict under the GIL) - `IO` items may carry racing caller steps per yield point.

Everything the run does is logged as labels of the Lean machine `Klong.C14.step`; the labels of
io-loop work are *observed* (reader / writer / dict / future hooks), never assumed.
"""
import asyncio
import concurrent.futures
import contextvars
import pickle
import signal
import struct
import threading
import uuid as _uuid

ITERATE_TIMEOUT = 10.0   # watchdog for one loop iteration (normally << 1 ms)
STEP_TIMEOUT = 5.0      # hang detector for a single caller step / wake-up (normally << 1 ms)


class Abort(BaseException):
    """raised inside parked caller threads at teardown"""


ON_KLONG = contextvars.ContextVar("c14_on_klong_loop", default=False)


async def _noop():
    return None


def evaluate_text(h, text):
    """what both stand-in interpreters do with a command text. A `relay…` command stands for a
    function that itself makes a remote call: it needs the io loop to make progress while it is
    evaluated, so it must run on the interpreter loop. Evaluated from a task that was NOT
    scheduled through the klong loop it really blocks on the io loop (bounded) - which can never
    complete on the io loop's own thread."""
    if not ON_KLONG.get():
        h.off_klong_evals.append(text)
        if text.startswith("relay"):
            f = asyncio.run_coroutine_threadsafe(_noop(), h.loop)
            try:
                f.result(timeout=0.2)
            except concurrent.futures.TimeoutError:
                h.deadlocks.append(text)
            except Exception:
                h.deadlocks.append(text)
    if text.startswith("boom"):
        raise KeyError(text)
    if text.startswith("lam"):
        return lambda: None
    return "echo:" + text


class Spin(BaseException):
    """raised by the watchdog / the reader hooks inside code that never yields to the loop; a
    BaseException so that `except Exception` clauses of the code under test cannot absorb it"""


def show_bytes(b, _cache={}):
    """bodies as the model driver prints them: hex, or length + rolling hash when long"""
    b = bytes(b)
    if len(b) <= 64:
        return b.hex()
    r = _cache.get(b)
    if r is None:
        h = 0
        for x in b:
            h = (h * 31 + x) % 4294967296
        r = f"L{len(b)}h{h}"
        if len(_cache) > 64:
            _cache.clear()
        _cache[b] = r
    return r


def rle(chunk):
    """run-length form of a long feed: hh*count,hh*count,..."""
    import itertools
    return ",".join(f"{k:02x}*{len(list(g))}" for k, g in itertools.groupby(chunk))


class HarnessHang(Exception):
    def __init__(self, where):
        super().__init__(where)
        self.where = where


class _UuidShim:
    def __init__(self, h):
        self._h = h

    def __getattr__(self, name):
        return getattr(_uuid, name)

    def uuid4(self):
        c = getattr(self._h.tls, "caller", None)
        if c is None:
            return _uuid.uuid4()
        return _uuid.UUID(int=c.k)


HIGH_WATER = 16 * 1024     # write-buffer high-water mark of the in-memory transport
CALL_KINDS = {"call": None, "bigcall": 70000, "hugecall": 300000,   # kind -> extra request payload
              "failcall": None, "badresult": None, "relaycall": None}      # (server mode) evaluation raises / result unpicklable


class FakeWriter:
    """in-memory StreamWriter with asyncio's flow control: while the peer is congested written
    bytes stay buffered and `drain()` suspends as soon as more than HIGH_WATER is buffered;
    `uncongest()` lets everything through and wakes the suspended senders"""

    def __init__(self, h):
        self.h = h
        self.closing = False
        self.buf = bytearray()
        self.buffered = 0
        self.waiters = []

    def write(self, data):
        data = bytes(data)
        self.buf += data
        if self.h.congested:
            self.buffered += len(data)
        self.h.on_write(data)
        if self.h.duplex and not self.h.server_reader._eof:
            self.h.server_reader.feed_data(data)        # the wire to the real server side

    async def drain(self):
        if not self.h.wr_broken and self.h.congested and self.buffered > HIGH_WATER:
            fut = asyncio.Future(loop=self.h.loop)
            self.waiters.append(fut)
            await fut
        if self.h.wr_broken:
            self.h.on_drain(False)
            raise ConnectionResetError("Connection lost")
        self.h.on_drain(True)

    def wake(self):
        ws, self.waiters = self.waiters, []
        for f in ws:
            if not f.done():
                f.set_result(None)

    def is_closing(self):
        return self.closing

    def close(self):
        self.closing = True

    async def wait_closed(self):
        return None

    def get_extra_info(self, name, default=None):
        return ("mem", 0) if name == "peername" else default


class ServerWriter:
    """the server's end of the in-memory connection: what the real server-side NetworkClient
    writes is fed to the client's reader, closing it is EOF for the client"""

    def __init__(self, h):
        self.h = h
        self.closing = False

    def write(self, data):
        self.h.server_write(bytes(data))

    async def drain(self):
        return None

    def is_closing(self):
        return self.closing

    def close(self):
        if not self.closing:
            self.closing = True
            self.h.server_close()

    async def wait_closed(self):
        return None

    def get_extra_info(self, name, default=None):
        return ("mem", 1) if name == "peername" else default


class _ServerKlong:
    """interpreter of the server side: evaluates request texts; `boom…` raises, `lam…` returns a
    value that cannot be pickled"""

    def __init__(self, h):
        self.h = h
        self._context = {}

    def __getitem__(self, k):
        if str(k).startswith(".srv."):
            return None
        raise KeyError(k)

    def __call__(self, text):
        return evaluate_text(self.h, text)


def make_provider(ipc, h, reader, writer):
    class MemProvider(ipc.ConnectionProvider):
        def __init__(self):
            self.reader = reader
            self.writer = writer
            self.open = True

        async def connect(self):
            return self.reader, self.writer

        async def close(self):
            self.open = False
            self.writer.close()

        def is_open(self):
            h.gate("A")
            return self.open and not self.writer.is_closing()

        def __str__(self):
            return "remote[mem]"
    return MemProvider()


class _View:
    def __init__(self, d, kind):
        self.d = d
        self.kind = kind
        self.atomic = False

    def __len__(self):
        # list()/tuple()/sorted() ask for a length hint right after iter(): a C-level consumer,
        # atomic under the GIL for a real dict view
        self.atomic = True
        return dict.__len__(self.d)

    def __iter__(self):
        return _Iter(self)


class _Iter:
    def __init__(self, view):
        self.view = view
        d = view.d
        self.it = iter(dict.values(d) if view.kind == "values" else dict.items(d))
        self.n = dict.__len__(d)
        self.i = 0
        self.ended = False
        d.h.on_iter_start(self)

    def __iter__(self):
        return self

    def __next__(self):
        h = self.view.d.h
        if not self.view.atomic:
            h.on_iter_next(self)
        try:
            return next(self.it)
        except StopIteration:
            if self.view.atomic and not self.ended:
                self.ended = True
                h.on_snapshot(self)
            raise


class HookDict(dict):
    def __init__(self, h):
        super().__init__()
        self.h = h

    def values(self):
        return _View(self, "values")

    def items(self):
        return _View(self, "items")

    def clear(self):
        self.h.on_clear(self)
        dict.clear(self)

    def copy(self):
        self.h.on_snapshot(None)
        return dict(dict.items(self))

    def popitem(self):
        self.h.on_unknown_cleanup("popitem")
        return dict.popitem(self)


class Caller:
    def __init__(self, k, kind):
        self.k = k
        self.kind = kind            # 'call' | 'close' | 'shutdown'
        self.thread = None
        self.at = None
        self.allow = set()
        self.seen = set()
        self.finished = False
        self.result = None          # ('ok', value) | ('exc', class name, text)
        self.cf = None
        self.fut = None
        self.submitted = False
        self.payload = CALL_KINDS.get(kind)
        self.hphase = "idle"        # harness view: idle checked registered submitted sent waiting done
        self.drain_failed = False
        self.sent_ok = False
        self.must_ok = None         # body the call must return (answer consumed while it was waiting)
        self.answers = []           # bodies of complete frames fed with its id, in order


class Harness:
    K_UNKNOWN = 100

    def __init__(self, kinds, values, stream, fail_values=(), server=False, apply_path=False):
        """kinds: caller kinds; values: list of python values usable as bodies;
        stream: list of (id:int, body:'close'|int index into values) making the inbound byte string"""
        import klongpy.sys_fn_ipc as ipc
        self.ipc = ipc
        self.tls = threading.local()
        self.cv = threading.Condition()
        self.teardown = False
        self.labels = []            # model labels, in order
        self.checkpoints = []       # (index into labels, real digest)
        self.notes = []             # harness-level anomalies (tie problems, not property failures)
        self.wr_broken = False
        self.apply_path = bool(apply_path)
        self.duplex = bool(server)  # a real server-side NetworkClient answers instead of a stream
        self.server_closed = False
        self.unanswered_blocked = []
        self.off_klong_evals = []   # commands evaluated from a task not scheduled on the klong loop
        self.deadlocks = []         # ... that really blocked on the io loop from its own thread
        self.pushes = []            # (id, body) of push requests fed whole on a healthy connection
        self.unanswered_pushes = []
        self.srv_parse = 0
        self.congested = False
        self.vtime = 1000.0
        self.poisoned = False
        self.fail_bodies = [pickle.dumps(v) for v in fail_values]
        self.candidates = []        # (caller index, body): answers fed whole on a healthy connection
        self.unsent_blocked = []    # callers blocked although their request was never written
        self.creating_for = None
        self.task_owner = {}        # asyncio task of a call's coroutine -> Caller
        self.extra_writes = 0
        self.listener_writes = []
        self.race = {}
        self.race_used = set()
        self.values = list(values)
        self.bodies = [pickle.dumps(v) for v in self.values]
        self.close_body = pickle.dumps(ipc.KGRemoteCloseConnection())
        self.fail_values = set(fail_values)
        self.callers = [Caller(k, kind) for k, kind in enumerate(kinds)]
        self.fault = False          # some fault/close was injected
        self.started_max = 0
        # stream
        self.frames = []            # (id, body bytes, start offset, end offset)
        buf = b""
        for fid, b in stream:
            body = self.close_body if b == "close" else self.bodies[b]
            fr = _uuid.UUID(int=fid).bytes + struct.pack("!I", len(body)) + body
            self.frames.append((fid, body, len(buf), len(buf) + len(fr)))
            buf += fr
        self.stream = buf
        self.fed = 0
        # reader-side frame tracking
        self.consumed = 0
        self.read_errors = 0
        self.empty_reads = 0
        self.spin = False
        self.recv_pending = False
        self.cleanup_shape = []     # what the cleanup was seen doing
        self.snap_n = None
        self.last_write_k = None
        # the real objects
        self.loop = self._make_loop()
        asyncio.set_event_loop(None)
        self.reader = self._make_reader()
        self.writer = FakeWriter(self)
        self.provider = make_provider(ipc, self, self.reader, self.writer)
        from klongpy.utils import CallbackEvent
        self.shutdown_event = CallbackEvent()
        self.klong = _FakeKlong(self)
        self.klongloop = _FakeKlongLoop(self.loop)
        self.system = {"ioloop": self.loop, "klongloop": self.klongloop, "closeEvent": self.shutdown_event}
        self.nc = None
        # the client is built the way `.cli(addr)` builds it (eval_sys_fn_create_client), with
        # run_client() held back; only the connection provider is replaced by the in-memory one
        saved_run_client = ipc.NetworkClient.run_client
        ipc.NetworkClient.run_client = lambda nc_self: nc_self
        try:
            nc = ipc.eval_sys_fn_create_client(self.klong, "localhost:1")
            if isinstance(nc, ipc.NetworkClient):
                self.nc = nc
                nc.conn_provider = self.provider
        except Exception as e:  # noqa
            self.notes.append(f".cli could not build the client: {type(e).__name__}: {e}")
        finally:
            ipc.NetworkClient.run_client = saved_run_client
        if self.nc is None:
            self.nc = ipc.NetworkClient(self.loop, self.klongloop, self.klong, self.provider,
                                        shutdown_event=self.shutdown_event)
        if self.nc.ioloop is not self.loop or self.nc.klong is not self.klong:
            self.notes.append(".cli wired the client to another io loop / interpreter")
        self.nc.pending_responses = HookDict(self)
        self.saved_uuid = ipc.uuid
        ipc.uuid = _UuidShim(self)
        self.run_task = self.loop.create_task(self.nc.run_server())
        if self.duplex:
            # the real server chain: TcpServerHandler.handle_client -> TcpServerConnectionHandler
            # .handle_client -> NetworkClient.run_server()/_run over the other end of the wire
            self.server_reader = asyncio.StreamReader(loop=self.loop)
            self.server_writer = ServerWriter(self)
            self.tcp = ipc.TcpServerHandler()
            self.tcp.connection_handler = ipc.TcpServerConnectionHandler(
                self.loop, _FakeKlongLoop(self.loop), _ServerKlong(self))
            self.server_task = self.loop.create_task(
                self.tcp.handle_client(self.server_reader, self.server_writer))
        self.iterate()
        self.iterate()
        if self.nc.writer is not self.writer:
            self.notes.append("listener did not take the connection")

    # ------------------------------------------------------------------ real objects
    def _make_loop(self):
        h = self

        class HookLoop(asyncio.SelectorEventLoop):
            def time(self):
                # virtual clock: moves only through `ADV` schedule items, so timers of the code
                # under test (poll intervals, timeouts) fire exactly when a schedule says so
                return h.vtime

            def create_future(self):
                c = getattr(h.tls, "caller", None)
                if c is not None and "B" not in c.seen:
                    h.gate("B")
                    f = super().create_future()
                    c.fut = f
                    return f
                return super().create_future()

            def create_task(self, coro, **kw):
                t = super().create_task(coro, **kw)
                if h.creating_for is not None:
                    h.task_owner[t] = h.creating_for
                return t

            def call_soon_threadsafe(self, callback, *args, context=None):
                c = getattr(h.tls, "caller", None)
                if c is not None and "C" not in c.seen:
                    cf = None
                    for cell in getattr(callback, "__closure__", None) or ():
                        try:
                            v = cell.cell_contents
                        except ValueError:
                            continue
                        if isinstance(v, concurrent.futures.Future):
                            cf = v
                    h.gate("C")
                    c.cf = cf
                    if cf is not None:
                        cf.add_done_callback(lambda f, c=c: h.on_cf_done(c))

                    def owned(*a, _cb=callback, _c=c):
                        h.creating_for = _c
                        try:
                            return _cb(*a)
                        finally:
                            h.creating_for = None
                    r = super().call_soon_threadsafe(owned, *args, context=context)
                    with h.cv:
                        c.submitted = True
                        h.cv.notify_all()
                    return r
                return super().call_soon_threadsafe(callback, *args, context=context)

        return HookLoop()

    def _make_reader(self):
        h = self

        class HookReader(asyncio.StreamReader):
            async def _hooked(self, coro):
                h.on_read_begin()
                try:
                    data = await coro
                except asyncio.CancelledError:
                    raise
                except Spin:
                    raise
                except BaseException as e:
                    h.on_read_exc(e)
                    raise
                h.on_read_ok(data)
                return data

            async def readexactly(self, n):
                return await self._hooked(super().readexactly(n))

            async def read(self, n=-1):
                return await self._hooked(super().read(n))

        return HookReader(loop=self.loop)

    def iterate(self):
        """one iteration of the real loop; a SIGALRM watchdog turns an iteration that never
        returns (a step spinning without awaiting) into HarnessHang instead of a stuck check"""
        self.loop.call_soon(self.loop.stop)
        armed = False
        if threading.current_thread() is threading.main_thread():
            def _boom(signum, frame):
                # fires again every ITERATE_TIMEOUT while the iteration keeps running; raised as
                # a BaseException wherever the loop thread is (usually inside the spinning task)
                self.spin = True
                raise Spin()
            old = signal.signal(signal.SIGALRM, _boom)
            signal.setitimer(signal.ITIMER_REAL, ITERATE_TIMEOUT, ITERATE_TIMEOUT)
            armed = True
        try:
            self.loop.run_forever()
        except Spin:
            try:
                self.loop.stop()
            except Exception:
                pass
            raise HarnessHang("one io-loop iteration does not return")
        finally:
            if armed:
                signal.setitimer(signal.ITIMER_REAL, 0)
                signal.signal(signal.SIGALRM, old)

    def loop_idle(self):
        """nothing ready and no timer due at the current virtual time"""
        if self.loop._ready:
            return False
        now = self.vtime
        return not any((not t._cancelled) and t._when <= now for t in self.loop._scheduled)

    # ------------------------------------------------------------------ gates (caller threads)
    def gate(self, name):
        c = getattr(self.tls, "caller", None)
        if c is None or name in c.seen:
            return
        c.seen.add(name)
        with self.cv:
            c.at = name
            self.cv.notify_all()
            while name not in c.allow:
                if self.teardown:
                    c.at = None
                    raise Abort()
                self.cv.wait(0.25)
            c.at = None

    def _caller_main(self, c):
        self.tls.caller = c
        try:
            if c.kind in CALL_KINDS and self.apply_path:
                # the Klong application path `f(x)`: NetworkClient.__call__(klong, ctx)
                from klongpy.core import reserved_fn_args, reserved_fn_symbol_map
                ctx = {reserved_fn_symbol_map[reserved_fn_args[0]]: self.request_of(c)}
                c.result = ("ok", self.nc(self.klong, ctx))
            elif c.kind in CALL_KINDS:
                c.result = ("ok", self.nc.call(self.request_of(c)))
            elif c.kind == "close":
                self.nc.close()
                c.result = ("ok", "closed") if "A" in c.seen else ("noop",)
            else:
                self.shutdown_event.trigger()
                c.result = ("ok", "closed") if "A" in c.seen else ("noop",)
        except Abort:
            c.result = ("abort",)
        except BaseException as e:  # noqa
            c.result = ("exc", type(e).__name__, str(e)[:80])
        finally:
            with self.cv:
                c.finished = True
                self.cv.notify_all()

    def request_of(self, c):
        if self.duplex:
            return {"failcall": "boom", "badresult": "lam", "relaycall": "relay"}.get(c.kind, "expr") + str(c.k)
        return ("req", c.k) if c.payload is None else ("req", c.k, "q" * c.payload)

    # ------------------------------------------------------------------ server end of the wire
    def server_write(self, data):
        if self.reader._eof:
            return
        a = len(self.stream)
        self.stream += data
        while len(self.stream) - self.srv_parse >= 20:
            s = self.srv_parse
            n = struct.unpack("!I", self.stream[s + 16:s + 20])[0]
            if len(self.stream) - s < 20 + n:
                break
            self.frames.append((int.from_bytes(self.stream[s:s + 16], "big"), self.stream[s + 20:s + 20 + n],
                                s, s + 20 + n))
            self.srv_parse = s + 20 + n
        self.apply(["F", a, len(self.stream)], nested=True)

    def server_close(self):
        self.server_closed = True
        self.apply(["EOF"], nested=True)

    def _wait(self, pred, where):
        with self.cv:
            if not self.cv.wait_for(pred, STEP_TIMEOUT):
                raise HarnessHang(where)

    def advance(self, k):
        """one caller-thread step of caller k; returns False when the caller cannot step"""
        if k >= len(self.callers):
            return False
        c = self.callers[k]
        if c.finished:
            return False
        if c.thread is None:
            c.thread = threading.Thread(target=self._caller_main, args=(c,), daemon=True)
            c.thread.start()
            self._wait(lambda: c.at == "A" or c.finished, f"caller {k} start")
            if c.at == "A":
                with self.cv:
                    c.allow.add("A")
                    self.cv.notify_all()
                self._wait(lambda: c.at == "B" or c.finished, f"caller {k} check")
            self.started_max = max(self.started_max, k + 1)
            self.labels.append(f"check c={k} close={0 if c.kind in CALL_KINDS else 1}")
            c.hphase = "done" if c.finished else "checked"
            return True
        if c.at == "B":
            with self.cv:
                c.allow.add("B")
                self.cv.notify_all()
            self._wait(lambda: c.at == "C" or c.finished, f"caller {k} register")
            self.labels.append(f"reg c={k}")
            c.hphase = "done" if c.finished else "registered"
            return True
        if c.at == "C":
            with self.cv:
                c.allow.add("C")
                self.cv.notify_all()
            self._wait(lambda: c.submitted or c.finished, f"caller {k} submit")
            self.labels.append(f"submit c={k}")
            c.hphase = "done" if c.finished else "submitted"
            return True
        return False

    def can_advance(self, k):
        c = self.callers[k]
        return not c.finished and (c.thread is None or c.at in ("B", "C"))

    # ------------------------------------------------------------------ hooks (loop thread)
    def _flush_recv(self):
        """the evaluation of a server push request (if one was running) has ended"""
        if self.recv_pending:
            self.recv_pending = False
            self.labels.append("served")

    def _at_boundary(self):
        return self.consumed >= len(self.stream) or any(s == self.consumed for _, _, s, _ in self.frames)

    def on_read_begin(self):
        if self._at_boundary():
            self._flush_recv()

    def on_read_ok(self, data):
        """frames are recognised by stream position, whatever mix of read()/readexactly() the
        code uses; a read that returns nothing at EOF over and over is a listener that spins"""
        if len(data) == 0:
            self.empty_reads += 1
            if self.empty_reads > 50:
                self.spin = True
                raise Spin()
            return
        before = self.consumed
        self.consumed += len(data)
        cur = None
        for fr in self.frames:
            if fr[2] <= before < fr[3]:
                cur = fr
                break
        if cur is not None and self.consumed == cur[3]:
            # a complete frame: `_listen` now tests `msg_id in pending_responses` (same step)
            fid, data = cur[0], cur[1]
            self.labels.append("recv")
            uid0 = _uuid.UUID(int=fid)
            if not dict.__contains__(self.nc.pending_responses, uid0) and bytes(data) != self.close_body:
                self.recv_pending = True        # server push request: `served` when it ends
            if fid is not None and fid < len(self.callers):
                c = self.callers[fid]
                uid = _uuid.UUID(int=fid)
                if dict.__contains__(self.nc.pending_responses, uid) and c.hphase == "waiting" \
                        and c.must_ok is None and not self.wr_broken:
                    c.must_ok = bytes(data)

    def on_read_exc(self, e):
        self.read_errors += 1
        if self.read_errors > 50:
            # the listener keeps reading a dead stream without ever leaving: it would spin
            # forever inside one loop iteration - stop it and let the oracle report
            self.spin = True
            raise Spin()
        self._flush_recv()
        self.labels.append("recv")

    def _task_owner(self):
        try:
            task = asyncio.current_task(self.loop)
        except RuntimeError:
            return None, None
        return task, self.task_owner.get(task)

    def on_write(self, data):
        task, c = self._task_owner()
        if task is self.run_task:
            # the listener answering a push / echoing a close request: the model appends the
            # reply in `served`
            self.listener_writes.append(bytes(data))
            self._flush_recv()
            return
        if c is None:
            return
        if c.hphase == "submitted":
            c.hphase = "sent"
            self.labels.append(f"send c={c.k}")
        else:
            # a second write of one call (a frame handed over in slices): the machine writes a
            # frame in one step, so this label is refused and the tie is reported broken
            self.extra_writes += 1
            self.labels.append(f"send c={c.k}")

    def on_drain(self, ok):
        task, c = self._task_owner()
        if c is None:
            return
        if c.hphase == "sent":
            self.labels.append(f"drain c={c.k}")
            if ok:
                c.hphase = "waiting"
                c.sent_ok = True
            else:
                c.hphase = "done"
                c.drain_failed = True

    def on_cf_done(self, c):
        if c.hphase == "submitted":
            self.labels.append(f"send c={c.k}")
        elif c.hphase == "waiting":
            self.labels.append(f"deliver c={c.k}")
        elif c.hphase == "sent":
            self.labels.append(f"drain c={c.k}")
        c.hphase = "done"

    def _run_race(self, idx):
        items = self.race.get(str(idx)) or self.race.get(idx) or []
        self.race_used.add(str(idx))
        for it in items:
            self.apply(it, nested=True)

    def on_iter_start(self, it):
        self._flush_recv()

    def on_iter_next(self, it):
        # a Python-level `for` over the live dict: other threads can run between two `next`
        self.cleanup_shape.append("iter")
        self._run_race(it.i)
        it.i += 1
        self.labels.append("cl")

    def on_snapshot(self, it):
        self._flush_recv()
        self.cleanup_shape.append("snapshot")
        self.snap_n = it.n if it is not None else dict.__len__(self.nc.pending_responses)

    def on_clear(self, d):
        self._flush_recv()
        if self.snap_n is not None:
            self.cleanup_shape.append("clear")
            self._run_race(0)
            self.labels.append("clr")
            self.labels += ["cl"] * (self.snap_n + 1)
            self.snap_n = None
        elif "iter" in self.cleanup_shape:
            self.cleanup_shape.append("clear-after-iter")
        else:
            self.on_unknown_cleanup("clear")

    def on_unknown_cleanup(self, what):
        self._flush_recv()
        self.cleanup_shape.append("?" + what)
        self.labels.append("unknown-cleanup-" + what)

    # ------------------------------------------------------------------ schedule items
    def apply(self, item, nested=False):
        op = item[0]
        if op == "K":
            return self.advance(item[1])
        if op in ("IO", "IOR"):
            if nested:
                return False
            self.race = item[1] if op == "IOR" else {}
            self.iterate()
            self.race = {}
            self.settle()
            self.checkpoint()
            return True
        if op == "IOS":     # run the loop until it is idle
            if nested:
                return False
            self.race = item[1] if len(item) > 1 else {}
            self.run_idle()
            self.race = {}
            return True
        if op == "F":
            a, b = item[1], item[2]
            a = max(a, self.fed)
            b = min(b, len(self.stream))
            if self.reader._eof or a != self.fed or b <= a:
                return False
            chunk = self.stream[a:b]
            self.reader.feed_data(chunk)
            self.fed = b
            for fid, body, s, e in self.frames:
                if a < e <= b and (body == self.close_body or body in self.fail_bodies):
                    # a close ack / close request / failing push ends the connection by protocol:
                    # frames behind it need not be dispatched
                    self.poisoned = True
                if a < e <= b and fid >= self.K_UNKNOWN and not self.fault and not self.poisoned \
                        and not self.duplex:
                    self.pushes.append((fid, body))
                if a < e <= b and fid < len(self.callers):
                    c = self.callers[fid]
                    c.answers.append(body)
                    if not self.fault and not self.poisoned and c.hphase == "waiting" and c.must_ok is None and \
                            dict.__contains__(self.nc.pending_responses, _uuid.UUID(int=fid)) and \
                            not any(k == fid for k, _ in self.candidates):
                        self.candidates.append((fid, body))
            self.labels.append(("feed b=" + chunk.hex()) if len(chunk) <= 256 else ("feed r=" + rle(chunk)))
            return True
        if op == "ADV":                 # virtual time passes (no label: the machine has no clock)
            self.vtime += float(item[1])
            return True
        if op == "PEER":
            # an honest sequential peer: it sends the next frame of the stream only after it has
            # seen the request that frame answers on the wire
            if nested:
                return False
            for _ in range(len(self.frames) + 1):
                self.run_idle()
                nxt = [fr for fr in self.frames if fr[2] == self.fed]
                if not nxt or self.reader._eof:
                    break
                fid, _, s, e = nxt[0]
                if fid < len(self.callers) and not self.request_on_wire(fid):
                    break
                self.apply(["F", s, e])
            self.run_idle()
            return True
        if op == "EOF":
            self.fault = True
            if not self.reader._eof:
                self.reader.feed_eof()
            self.labels.append("eof")
            return True
        if op == "RESET":
            # asyncio's StreamReader loses an exception set between waking a reader and its next
            # wait (trusted-base behaviour that a real transport cannot produce: connection_lost
            # is delivered in a later loop iteration than data_received) - let the reader settle
            if not nested and not self.loop_idle():
                self.run_idle()
            self.fault = True
            self.reader.set_exception(ConnectionResetError("reset by harness"))
            self.labels.append("reset")
            return True
        if op == "PROVCLOSE":
            self.fault = True
            self.provider.open = False
            self.labels.append("provclose")
            return True
        if op == "BREAKW":
            self.fault = True
            self.wr_broken = True
            self.labels.append("breakwriter")
            self.writer.wake()          # connection_lost wakes the senders suspended in drain()
            return True
        if op == "CONGEST":             # the peer stops reading: written bytes pile up
            self.congested = True
            return True
        if op == "UNCONGEST":
            self.congested = False
            self.writer.buffered = 0
            self.writer.wake()
            return True
        raise ValueError(f"unknown schedule item {item!r}")

    def settle(self):
        """callers whose completion future is resolved wake up and return (waits only for
        threads that are known to be runnable)"""
        for c in self.callers:
            if c.thread is None or c.finished:
                continue
            if c.cf is not None and c.cf.done():
                with self.cv:
                    self.cv.wait_for(lambda: c.finished, STEP_TIMEOUT)
            elif c.cf is None and c.submitted:
                with self.cv:
                    self.cv.wait_for(lambda: c.finished, 0.3)

    def run_idle(self, limit=200):
        for _ in range(limit):
            self.iterate()
            self.settle()
            if self.loop_idle():
                break
        self.checkpoint()

    def finish(self):
        """run every caller to the end of its own steps and the loop until nothing is ready; if
        callers are then still waiting on a live connection (the server never answered), the
        server goes away (EOF) - after that nobody may be left waiting"""
        self._complete()
        if self.congested or self.writer.waiters:
            self.apply(["UNCONGEST"])
            self._complete()
        if self.duplex and self.listener_state() == "listening" and not self.wr_broken \
                and not self.reader._eof and self.loop_idle():
            # the real server has read everything and has nothing left to do, the connection is
            # open: a call still waiting for its answer will never get one and never be failed
            self.unanswered_blocked = [c.k for c in self.callers
                                       if c.submitted and not c.finished and c.hphase == "waiting"]
        if self.pushes and not self.fault and not self.wr_broken and self.loop_idle():
            # a request of the peer to this side (server -> client push) that arrived on a healthy
            # connection must have been evaluated and answered with a frame carrying its id
            answered = set()
            for raw in self.listener_writes:
                if len(raw) >= 20:
                    answered.add(int.from_bytes(raw[:16], "big"))
            self.unanswered_pushes = [fid for fid, _ in self.pushes if fid not in answered]
        if self.listener_state() == "listening" and not self.wr_broken and self.loop_idle():
            # healthy connection, nothing left to run: a caller blocked in result() whose request
            # was never handed to the writer can never be answered
            self.unsent_blocked = [c.k for c in self.callers
                                   if c.submitted and not c.finished and c.hphase == "submitted"]
        if self.listener_state() == "listening" and \
                any(c.thread is not None and not c.finished for c in self.callers):
            self.apply(["EOF"])
            self._complete()

    def _complete(self):
        for _ in range(4):
            self.run_idle()
            moved = False
            for c in self.callers:
                while self.can_advance(c.k):
                    if not self.advance(c.k):
                        break
                    moved = True
            if not moved:
                break
        self.run_idle()

    # ------------------------------------------------------------------ observation
    def listener_state(self):
        t = self.run_task
        if not t.done():
            return "listening"
        if t.cancelled() or t.exception() is not None:
            return "crashed"
        return "exited" if self.nc._run_exit_event.is_set() else "crashed"

    def pending_keys(self):
        out = []
        for key in dict.keys(self.nc.pending_responses):
            try:
                out.append(str(key.int))
            except Exception:
                out.append("?")
        return out

    def outcome(self, c):
        """canonical outcome string of a finished caller (same vocabulary as the model)"""
        r = c.result
        if r is None:
            return None
        if r[0] == "noop":
            return "noop"
        if r[0] == "abort":
            return "abort"
        if r[0] == "ok" and isinstance(r[1], BaseException):
            return "value:exception:" + type(r[1]).__name__     # an exception handed back as the answer
        if r[0] == "ok":
            if c.kind not in CALL_KINDS:
                return "ok:" + show_bytes(self.close_body)
            try:
                return "ok:" + show_bytes(pickle.dumps(r[1]))
            except Exception:
                return "ok:?"
        name = r[1]
        if name == "KlongException":
            return "notopen"
        if name == "KlongIPCConnectionFailureException":
            return "exc:lost"
        if name == "KGRemoteCloseConnectionException":
            return "exc:closed"
        if name in ("AttributeError", "ConnectionResetError", "BrokenPipeError", "OSError",
                    "ConnectionError", "ConnectionAbortedError"):
            return "senderr"
        return "exc:?" + name

    def fut_state(self, c):
        f = c.fut
        if f is None or not f.done():
            return "unres"
        if f.cancelled():
            return "cancelled"
        e = f.exception()
        if e is None:
            try:
                r = f.result()
                if isinstance(r, self.ipc.KGRemoteCloseConnection):
                    return "res:" + show_bytes(self.close_body)
                return "res:" + show_bytes(pickle.dumps(r))
            except Exception:
                return "res:?"
        n = type(e).__name__
        return {"KlongIPCConnectionFailureException": "failed:lost",
                "KGRemoteCloseConnectionException": "failed:closed"}.get(n, "failed:?" + n)

    def wire_frames(self):
        """the bytes the server sees, parsed as it parses them: [(id, body)], leftover bytes"""
        b = bytes(self.writer.buf)
        out = []
        pos = 0
        while len(b) - pos >= 20:
            n = struct.unpack("!I", b[pos + 16:pos + 20])[0]
            if len(b) - pos < 20 + n:
                break
            out.append((int.from_bytes(b[pos:pos + 16], "big"), b[pos + 20:pos + 20 + n]))
            pos += 20 + n
        return out, len(b) - pos

    def request_on_wire(self, fid):
        c = self.callers[fid]
        want = self.close_body if c.kind not in CALL_KINDS else pickle.dumps(self.request_of(c))
        return any(f == fid and body == want for f, body in self.wire_frames()[0])

    def wire_problems(self):
        """the wire must parse as exactly the frames that were sent: every parsed frame with a
        caller's id is that caller's whole request (or a listener reply), at most once, nothing
        is left over, and every call whose send completed is on the wire"""
        frames, rest = self.wire_frames()
        probs = []
        if rest and not self.wr_broken:
            probs.append(f"{rest} trailing bytes do not form a frame")
        seen = set()
        echoes = {}
        for fid, body in frames:
            if fid < len(self.callers):
                c = self.callers[fid]
                want = self.close_body if c.kind not in CALL_KINDS else pickle.dumps(self.request_of(c))
                if body == want:
                    if fid in seen:
                        # the listener's echo of a remote close request carries the same bytes
                        raw = fid.to_bytes(16, "big") + struct.pack("!I", len(body)) + body
                        echoes[fid] = echoes.get(fid, 0) + 1
                        if echoes[fid] > self.listener_writes.count(raw):
                            probs.append(f"request of call {fid} appears twice")
                    seen.add(fid)
                    continue
            try:
                v = pickle.loads(body)
            except Exception:
                probs.append(f"frame with id {fid}: body ({len(body)} bytes) does not unpickle")
                continue
            if not (isinstance(v, str) and v.startswith("echo:")) and body != self.close_body:
                probs.append(f"frame with id {fid} is neither a request that was sent nor a listener reply")
        if not self.wr_broken:
            for c in self.callers:
                if c.hphase in ("waiting",) or (c.finished and c.hphase == "done" and c.sent_ok):
                    if c.k not in seen:
                        probs.append(f"request of call {c.k} was sent but is not on the wire intact")
        return probs

    def _wire_digest(self):
        if self.wr_broken:
            return None
        frames, rest = self.wire_frames()
        return ",".join(str(f[0]) for f in frames) + ("+?" if rest else "")

    def digest(self):
        calls = []
        for c in self.callers[:self.started_max]:
            o = self.outcome(c) if c.finished else None
            calls.append(f"{c.k}/{'done:' + o if o is not None else 'live'}/{self.fut_state(c)}")
        blocked = any(c.submitted and not c.finished for c in self.callers)
        return dict(lst=self.listener_state(), writer="0" if self.nc.writer is None else "1",
                    running="1" if self.nc.running else "0", pending=",".join(self.pending_keys()),
                    calls=";".join(calls), blocked="1" if blocked else "0",
                    wire=self._wire_digest())

    def checkpoint(self):
        if self.loop_idle() and not self.recv_pending and not self.writer.waiters:
            if not self.fault:
                # the connection is healthy and the listener has nothing left to do: every answer
                # that was fed whole while its call was waiting must be returned by that call
                for fid, body in self.candidates:
                    if self.callers[fid].must_ok is None:
                        self.callers[fid].must_ok = bytes(body)
                self.candidates = []
            self.checkpoints.append((len(self.labels), self.digest()))

    # ------------------------------------------------------------------ teardown
    def close(self):
        self.teardown = True
        with self.cv:
            self.cv.notify_all()
        try:
            for c in self.callers:
                if c.thread is not None and not c.finished and c.cf is not None and not c.cf.done():
                    try:
                        c.cf.set_exception(Abort())
                    except Exception:
                        pass
            try:
                if self.duplex and not self.server_task.done():
                    # let the real server side leave the way it does when a client goes away
                    # (cancelling it would block its cleanup() in _stop() on the loop thread)
                    if not self.server_reader._eof:
                        self.server_reader.feed_eof()
                    for _ in range(8):
                        self.iterate()
                        if self.server_task.done():
                            break
                if not self.run_task.done():
                    self.run_task.cancel()
                for _ in range(5):
                    self.iterate()
                for t in asyncio.all_tasks(self.loop):
                    t.cancel()
                for _ in range(3):
                    self.iterate()
            except (HarnessHang, Spin):
                pass
            for c in self.callers:
                if c.thread is not None:
                    c.thread.join(1.0)
        finally:
            self.ipc.uuid = self.saved_uuid
            try:
                if self.run_task.done() and not self.run_task.cancelled():
                    self.run_task.exception()      # mark retrieved
            except Exception:
                pass
            try:
                self.loop.close()
            except Exception:
                pass


class _FakeKlongLoop:
    """stands for the interpreter loop of a server push request: runs it on the io loop"""

    def __init__(self, loop):
        self.loop = loop

    def call_soon_threadsafe(self, fn, *args):
        ctx = contextvars.copy_context()
        ctx.run(ON_KLONG.set, True)         # tasks created from here run "on the klong loop"
        return self.loop.call_soon(fn, *args, context=ctx)


class _FakeKlong:
    def __init__(self, h):
        self.h = h
        self._context = {}

    def __getitem__(self, k):
        if k == ".system":
            return self.h.system
        raise KeyError(k)

    def __call__(self, text):
        for v in self.h.fail_values:
            if str(v) == text:
                raise KeyError(text)
        return evaluate_text(self.h, text)
