"""Regenerates MANIFEST.json from the table below (python3 -m vlib.manifest_gen)."""
import json
from pathlib import Path

ROOT = Path(__file__).resolve().parent.parent

CLAIMED = {
    "C16": dict(
        text="Lean 4 theorems over the sequential FileCache machine: accounting invariant for every reachable state "
             "and every legal eviction choice, refinement of every operation sequence to a finite map, table merge = "
             "documented merge; model tied to klongpy.db by per-step correspondence (outputs + state digest + directory "
             "contents) with the real run's eviction choice replayed and checked for legality.",
        note="trusted: Lean kernel (axioms propext/Classical.choice/Quot.sound), correspondence harness, CPython, pickle, "
             "pandas sort/duplicated, the file system; one client at a time (concurrency is C18); keys not path prefixes of each other",
        technique="Lean 4 invariant + refinement proof, hand-written model, differential correspondence with replayed eviction choice",
        design="7/C16"),
}

NOT_YET = {}


def main():
    props = [json.loads(l) for l in (ROOT / "properties.jsonl").read_text().splitlines() if l.strip()]
    checks = []
    na = []
    for p in props:
        pid = p["id"]
        if pid in CLAIMED:
            c = CLAIMED[pid]
            checks.append(dict(
                property_id=pid,
                quick_cmd=f"./check {pid} --tier quick",
                thorough_cmd=f"./check {pid} --tier thorough",
                evidence_file=f"evidence/{pid}.json",
                replay_cmd_template=f"./check {pid} --replay {{path}}",
                engine="lean4-proof+correspondence",
                level_claimed=dict(category="proof", text=c["text"], design_ref=c["design"]),
                level_note=c["note"],
                technique=c["technique"]))
        else:
            na.append(dict(property_id=pid, reason=NOT_YET.get(
                pid, "model and theorems not built yet in this session (planned: DESIGN.md section 7); not claimed")))
    m = dict(
        version=1,
        setup_cmd="cd lean && lake build Klong kdriver",
        hooks=dict(guard="KLONGPY_VERIF", enable="no hook is compiled in; harnesses interpose from outside by attribute assignment",
                   baseline_off_cmd="cd /repo && /venv/bin/python -m pytest -ra -q -p no:cacheprovider --timeout=900 --continue-on-collection-errors",
                   source_commits=[], add_only=True),
        engines=[dict(name="lean4-proof+correspondence", path="check",
                      serves_properties=sorted(CLAIMED),
                      kind_free_text="Lean 4 models + kernel-checked theorems (lean/), compiled model driver (kdriver), "
                                     "Python correspondence/search harness (vlib/) running the real klongpy in-process")],
        checks=checks,
        notes="see DESIGN.md; genuine defects found are in KNOWN_FINDINGS.json (fixed: entries have a fix: commit in /repo)",
        not_applicable=na)
    (ROOT / "MANIFEST.json").write_text(json.dumps(m, indent=1))


if __name__ == "__main__":
    main()
