"""Regenerates MANIFEST.json from the table below (python3 -m vlib.manifest_gen)."""
import json
from pathlib import Path

ROOT = Path(__file__).resolve().parent.parent

import importlib


# properties whose machinery is finished and passes on the unchanged tree (others: not_applicable "not yet")
DONE = {"C%02d" % i for i in range(1, 21)}


def _claims():
    out = {}
    for i in range(1, 21):
        pid = f"C{i:02d}"
        if pid not in DONE:
            continue
        if not (ROOT / "vlib" / f"{pid.lower()}.py").exists():
            continue
        mod = importlib.import_module(f"vlib.{pid.lower()}")
        if getattr(mod, "CLAIM", None):
            out[pid] = dict(mod.CLAIM, modules=mod.MODULES,
                            drivers=getattr(mod, "DRIVERS", [f"kd_{pid.lower()}"]))
    return out


CLAIMED = _claims()

NOT_YET = {}


def main():
    props = [json.loads(l) for l in (ROOT / "properties.jsonl").read_text().splitlines() if l.strip()]
    checks = []
    na = []
    for p in props:
        pid = p["id"]
        if pid in CLAIMED:
            c = CLAIMED[pid]
            checks.append(dict(
                property_id=pid,
                quick_cmd=f"./check {pid} --tier quick",
                thorough_cmd=f"./check {pid} --tier thorough",
                evidence_file=f"evidence/{pid}.json",
                replay_cmd_template=f"./check {pid} --replay {{path}}",
                engine="lean4-proof+correspondence",
                level_claimed=dict(category="proof", text=c["text"], design_ref=c["design"]),
                level_note=c["note"],
                technique=c["technique"]))
        else:
            na.append(dict(property_id=pid, reason=NOT_YET.get(
                pid, "model and theorems not built yet in this session (planned: DESIGN.md section 7); not claimed")))
    m = dict(
        version=1,
        setup_cmd="cd lean && lake build " + " ".join(sorted({t for c in CLAIMED.values() for t in c["modules"] + c["drivers"]})),
        hooks=dict(guard="KLONGPY_VERIF", enable="no hook is compiled in; harnesses interpose from outside by attribute assignment",
                   baseline_off_cmd="cd /repo && /venv/bin/python -m pytest -ra -q -p no:cacheprovider --timeout=900 --continue-on-collection-errors",
                   source_commits=[], add_only=True),
        engines=[dict(name="lean4-proof+correspondence", path="check",
                      serves_properties=sorted(CLAIMED),
                      kind_free_text="Lean 4 models + kernel-checked theorems (lean/), compiled model driver (kdriver), "
                                     "Python correspondence/search harness (vlib/) running the real klongpy in-process")],
        checks=checks,
        notes="see DESIGN.md; genuine defects found are in KNOWN_FINDINGS.json (fixed: entries have a fix: commit in /repo)",
        not_applicable=na)
    (ROOT / "MANIFEST.json").write_text(json.dumps(m, indent=1))


if __name__ == "__main__":
    main()
