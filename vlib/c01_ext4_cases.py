"""proposed gen_cases additions for vlib/c01.py (extension 4): Format2 a$b, Floor of reals and of
integers beyond 2^53, Grade-Up / Grade-Down of lists of lists / strings / characters / reals"""


def extra_cases(U, seqs):
    P = U.from_py
    I, R, C, S, Y, L = U.I, U.R, U.C, U.S, U.Y, U.L
    cases = []
    # ---- Format2  a$b : integer sizes (both signs, 0, smaller / equal / larger than the text) x every kind of atom
    sizes = [I(n) for n in (0, 1, -1, 2, -2, 3, -3, 4, -4, 5, -5, 6, -6, 7, 10, -10, 17)]
    objs = ([I(n) for n in (0, 5, -5, 123, -123, 1000000, -1000000007)]
            + [C(c) for c in ("x", "a", " ", '"')]
            + [S(s) for s in ("", "a", "xyz", "test", "abcdef", 'say "hi"', "hello foo")]
            + [Y(s) for s in ("a", "foo")]
            + [R(x) for x in (0.0, 0.5, 1.5, -2.5, 1.23, -1.23, 123.45, -123.45, 100.0, 0.1, 1e15, 123456.789,
                              0.001, 0.0001, 1e100, 1e-7, 1e16, 2.0 ** 53)])
    for a in sizes:
        for b in objs:
            cases.append(("D", "$", a, b))
    # ---- real sizes n.m: the manual's own form, m = 0, n = 0, negative, two-digit m, leading-zero m, huge
    rsizes = [R(x) for x in (5.3, 3.2, 4.2, 3.3, 6.3, 4.3, 5.2, 10.2, 1.1, 7.1, 2.15, 5.12, 12.1, 5.03, 5.0, 3.0, 0.0, 0.5,
                             -5.3, -0.5, 1.5, 20.1, 1e16, 1e100)]
    robjs = [R(x) for x in (123.45, -123.45, 1.5, -1.5, 0.0, 0.25, 0.35, 2.25, 2.5, 0.125, 0.1, 100.0, 99.95, 99.96, -0.04,
                            123456.789, 1e15, 1e-7, 1e100, 0.001, 2.0 ** 53)]
    for a in rsizes:
        for b in robjs + [I(1), I(-12), S("ab"), C("x"), Y("foo")]:
            cases.append(("D", "$", a, b))
    # ---- atomic extension: lists of sizes / lists of objects, paired and extended, numeric and object arrays
    lsizes = [P([5, -5]), P([3, 4]), P([1, 2, 3]), P([[3, 4], [5, 6]]), P([3, [4, 5]]), P([[3], 4]), P([5.3, 3.1]),
              P([5]), P([]), P([[]]), P([[3, 4]]), P([[3], [4]]), L(I(3), P([4, 5]), I(6)), P([0, 0]), P([7, 0, -7])]
    lobjs = [P([1, 2]), P([1, 2, 3]), P([[1, 2], [3, 4]]), P([1, [2, 3]]), L(S("ab"), S("c")), L(I(1), S("a"), Y("b"), C("x")),
             P([1.5, 2.5]), P([]), P([[]]), P([[1], 2]), L(S("ab"), S("c"), S("")), L(Y("a"), Y("b")), L(C("a"), C("b")),
             P([123.45, -1.5]), L(I(1), P([])), P([[1, 2, 3]]), P([[1], [2]]), L(I(7), P([8, 9]), S("x")),
             L(L(S("a"), S("b")), L(S("c"), S("d"))), P([[[1, 2], [3, 4]], [[5, 6], [7, 8]]])]
    for a in lsizes + [I(5), I(-3), I(0), R(5.2)]:
        for b in lobjs + [I(42), S("ab"), C("x"), Y("foo"), R(1.5), S("")]:
            cases.append(("D", "$", a, b))
    for b in seqs:
        for a in (I(4), I(-4), I(0), P([2, 6])):
            cases.append(("D", "$", a, b))
    # ---- sizes that are no numbers
    for a in (S("a"), S("12"), S("0"), C("x"), C("5"), Y("a"), S("")):
        for b in (I(1), S("ab")):
            cases.append(("D", "$", a, b))
    # ---- Floor: reals around 0, at the 2^53 and 2^63 marks, beyond; integers beyond 2^53; lists
    floors = [R(x) for x in (0.0, -0.0, 0.5, -0.5, 1.5, -1.5, -2.5, 123.9, -123.9, 1e-7, -1e-7, 1e15, 4503599627370495.5,
                             9007199254740991.0, 2.0 ** 53, 2.0 ** 53 + 2, 1e18, 9.3e18, 2.0 ** 62, 2.0 ** 63, -(2.0 ** 63),
                             2.0 ** 63 - 1024, -(2.0 ** 63) - 2048, 1e19, -1e19, 1e100, -1e100, 1.7976931348623157e308)]
    floors += [I(n) for n in (2 ** 53 + 1, -(2 ** 53 + 1), 123456789012345678, 2 ** 62 + 1, 2 ** 63 - 1, -(2 ** 63) + 1)]
    floors += [P([1.5, -2.5]), P([1e100, 1.5]), P([1.5, 1e19]), P([[0.5, 1.5], [2.5, 3.5]]), P([1, [2.5, 1e30]]),
               P([2 ** 53 + 1, 1]), L(S("a"), R(1.5)), P([[1.5], [2.5, 3.5]]), P([0.5, [1.5, [2.5]]]), L(R(1.5), C("a")),
               P([]), P([[]]), P([1, 2, 3]), P([[2 ** 53 + 1]]), P([1e19, -1e19])]
    for a in floors:
        cases.append(("M", "_", a, None))
    # ---- Grade-Up / Grade-Down: members that are lists, strings, characters, reals
    grades = [P([[2, 1], [1, 2], [1, 1]]), P([[1, 2], [3, 4], [0, 9]]), P([[1, 2], [1], [0, 5, 6]]), P([[1, 2], [1]]),
              P([[2], [1, 5]]), P([[3], [1], [2]]), P([[1], [2], [3]]), P([[1, 2], [1, 2]]), P([[1, 2], [0, 3], [1, 2]]),
              L(S("b"), S("a"), S("c")), L(S("bc"), S("abc"), S("b"), S("")), L(S("abc"), S("abd"), S("ab")),
              L(S("ab"), S("AB"), S("aB")), L(S("b"), S("")), L(S("a"), S("a")), P([[1, [2]], [1, [1]]]),
              P([[1, [2], 3], [1, [4], 0]]), P([[1, [2, 9]], [1, [2]]]), L(C("b"), C("a"), C("c")), L(C("b"), C("a"), C("b")),
              L(Y("b"), Y("a")), P([1.5, 0.5, 2.5]), P([2.5, -1.5, 0.5, 1e100]), P([0.5, 0.5]), P([1e-7, 0.0, -2.5]),
              P([[1.5, 2.5], [1.5, 0.5]]), P([[0.5, 9.5], [1.5, 0.5], [0.5, 1.5]]), P([[1.5, 2], [1, 3]]),
              P([[[1], [2]], [[1], [1]]]), P([[[1, 2], [3, 4]], [[1, 2], [0, 9]]]), P([[[1, 2], [3, 4]], [[1, 2], [3, 4]]]),
              L(L(S("b"), S("a")), L(S("a"), S("z"))), L(L(S("a"), S("b")), L(S("a"), S("a"))), L(L(C("b")), L(C("a"))),
              L(L(I(1), S("b")), L(I(1), S("a"))), L(I(1), S("a")), L(P([1]), I(2)), L(S("a"), C("a")), L(L(C("a"), C("b")), S("aa")),
              L(P([]), P([1])), L(P([1]), P([])), L(S("a"), Y("a")), P([3, 1, 2, 1, 3]), P([5, -3, 2, 7]), P([2, 1.5, 1]),
              P([[9, 1], [8, 2], [7, 3], [6, 4], [5, 5], [4, 6], [3, 7], [2, 8], [1, 9], [0, 10]]),
              P([[0, 9], [0, 8], [0, 7], [0, 6], [0, 5], [0, 4], [0, 3], [0, 2], [0, 1], [0, 0]]),
              P([[i % 3, (7 * i) % 11] for i in range(11)]), L(*[S("k%d" % ((5 * i) % 13)) for i in range(13)])]
    for a in grades + list(seqs):
        cases.append(("M", "<", a, None))
        cases.append(("M", ">", a, None))
    return cases
