"""C18 — the file cache is linearizable under concurrent get, update and unload.

Tie + failing-schedule search.  The REAL `klongpy.db.file_cache.FileCache` runs under a
cooperative deterministic scheduler (vlib/c18_sched.py): its lock, its executor and the
module-level `open` / `os` (exists, getsize, fsync) / `time` of `klongpy.db.file_cache` are
replaced by attribute assignment from here, so the interleaving at the granularity of lock
blocks, task submission/completion, future waits and file-system calls is chosen by the
harness.  Schedules are enumerated CHESS-style up to a preemption bound, each is run on the
real class and replayed into the Lean machine `Klong.C18` (kd_c18), and the complete call
history is checked against a sequential register model (Wing-Gong search).

A failing schedule is classified by the first *hazard window* it contains (computed from the
harness's own bookkeeping of the schedule, not from the failure):
    conc:get-miss||update-same-file   update(n) takes the lock while a load of n is in flight
    conc:unload||load-same-file       unload(n) takes the lock while a load of n is in flight
    conc:unload||write-same-file      unload(n) takes the lock while a write of n is in flight
    conc:safe:<clause>                no such window: the theorems of Klong.Props.C18 cover it
"""
import itertools
import json
import os
import shutil

from . import common
from .common import Driver, fields
from . import c18_sched as S

CLAIM = dict(
    text="Lean 4 theorems over the concurrent FileCache machine `Klong.C18` (lock blocks, task submission, each "
         "file-system call, future completion and wait as atomic steps; schedule and eviction choice are inputs): "
         "structural lock invariant for every schedule and any number of threads; writers serialised, no call raises, "
         "every get returns the register value at its lock instant, and at quiescence disk = cache = last successful "
         "update with exact accounting, for every schedule without a load/write of a file in flight while that file is "
         "updated/unloaded; the full statement is refuted by decide on four concrete schedules. Tie: bounded-preemption "
         "enumeration of interleavings on the real class under a cooperative scheduler, each replayed step by step into "
         "the machine, histories checked by a linearizability search against a register.",
    note="trusted: Lean kernel, the cooperative scheduler and interposers (vlib/c18_sched.py), CPython, the step "
         "granularity (real preemption inside CPython/the OS is replaced by instrumented points; a write is one step); "
         "eviction order (heapq) is relational as in C16; PandasDataFrameCache.update's per-file lock is not explored",
    technique="Lean 4 invariant proofs over a small-step concurrent machine + decide counterexamples; stateless "
              "model checking (preemption-bounded schedule enumeration) of the real code; linearizability oracle",
    design="7/C18")

MODULES = ["Klong.Props.C18"]
THEOREMS = [
    "Klong.C18.lock_inv",
    "Klong.C18.writers_serialised",
    "Klong.C18.lin_partial",
    "Klong.C18.not_lin_full",
    "Klong.C18.cex_update_during_load",
    "Klong.C18.cex_read_between_trunc_and_write",
    "Klong.C18.cex_unload_during_load",
    "Klong.C18.cex_unload_during_write",
]

HAZ_UPD_LOAD = "conc:get-miss||update-same-file"
HAZ_UNL_LOAD = "conc:unload||load-same-file"
HAZ_UNL_WRITE = "conc:unload||write-same-file"
# what the three known defects lead to (DESIGN section 8 / notes/C18.md); KeyError: recover_memory
# popping a stale access-list name after the corrupted byte total took the can't-cache branch
KNOWN_CONSEQUENCES = {"linearizability", "final-disk", "final-cache", "accounting",
                      "raises:AssertionError", "raises:KeyError"}


# --------------------------------------------------------------------------- one execution

def first_label(op):
    return "exists" if op[0] == "get" else "lock"


def _mk_frame(rows):
    import pandas as pd
    return pd.DataFrame([r for _, r in rows], columns=["a", "b"], index=[i for i, _ in rows])


def _frame_rows(df):
    return [[int(i), [int(x) for x in r]] for i, r in zip(df.index.tolist(), df.values.tolist())]


class Exec:
    """result of one schedule on the real FileCache"""
    pass


def resolve_names(scn):
    """the names the run really uses.  (a) `{pid}` (look-alikes of per-process temporary names) is
    filled in by the process that runs the schedule; (b) every base name gets the prefix `x`, so
    that no name is a one-character string: CPython hands out ONE object for each of those, and
    the harness must be able to pass an equal-but-distinct str object on every call (`fresh`).
    The stored case keeps the scenario as written, so that it replays anywhere."""
    import copy
    if scn.get("_resolved"):
        return scn
    pid = str(os.getpid())

    def fix(n):
        n = n.replace("{pid}", pid)
        d, b = os.path.split(n)
        return os.path.join(d, "x" + b) if d else "x" + b

    r = copy.deepcopy(scn)
    r["_resolved"] = True
    r["files"] = {fix(n): v for n, v in r["files"].items()}
    if "frames" in r:
        r["frames"] = {fix(n): v for n, v in r["frames"].items()}
    for ops in [r.get("setup") or []] + r["threads"]:
        for op in ops:
            op[1] = fix(op[1])
    return r


def fresh(name):
    """an equal but distinct str object (callers derive file names per call: os.path.join, f-strings)"""
    n = "".join(list(name))
    return n


_COUNTER = [0]


def execute(scn, prefix, base, step_budget=400, strict=True):
    """run scenario `scn` on the real FileCache following the choice list `prefix`
    (then: keep running the previous thread if it is enabled, else the first enabled one).
    strict=False (recorded witnesses / replays, possibly made on another tree): a recorded choice
    that is not enabled here ends the replay of the list; the run continues with the default policy"""
    import klongpy.db.file_cache as fcm
    scn = resolve_names(scn)
    _COUNTER[0] += 1
    root = os.path.join(base, f"r{_COUNTER[0]}")       # never reused: a leaked thread of an aborted run cannot touch it
    shutil.rmtree(root, ignore_errors=True)
    os.makedirs(root)
    for n, hx in scn["files"].items():
        os.makedirs(os.path.dirname(os.path.join(root, n)), exist_ok=True)
        with open(os.path.join(root, n), "wb") as f:
            f.write(bytes.fromhex(hx))
    if scn.get("df"):
        from klongpy.db.helpers import serialize_df
        for n, rows in scn.get("frames", {}).items():
            with open(os.path.join(root, n), "wb") as f:
                f.write(serialize_df(_mk_frame(rows)))
    sched = S.Sched(step_budget=step_budget)
    saved = {k: fcm.__dict__.get(k, None) for k in ("open", "os", "time")}
    had_open = "open" in fcm.__dict__
    ex = Exec()
    ex.scn = scn
    ex.hist = []
    fc = None
    saved_df = None
    try:
        fcm.open = S.make_open(sched, open)
        fcm.os = S.OsProxy(sched, os)
        fcm.time = S.Clock()
        if scn.get("df"):
            import threading as _thr
            import klongpy.db.df_cache as dfm
            saved_df = (dfm, dfm.threading)
            dfm.threading = S.ThreadingProxy(sched, _thr)
            fc = dfm.PandasDataFrameCache(max_memory=scn["max"], root_path=root)
            try:
                fc.append_locks.data = S.RegistryDict(sched)
            except Exception:
                pass
        else:
            fc = fcm.FileCache(max_memory=scn["max"], root_path=root)
        try:
            fc.executor.shutdown(wait=False)
        except Exception:
            pass
        fc.executor = S.FakeExecutor(sched)
        snap = {}

        def on_acquire():
            snap["before"] = set(fc.file_futures)
            snap["pending"] = {n for n, info in fc.file_futures.items()
                               if hasattr(info[-1], "done") and not info[-1].done()}

        def on_release(et):
            after = set(fc.file_futures)
            try:        # protected state at the release, for the mid-run tie (hit branch of get_file)
                mid = dict(acc=sorted(str(x[-1]) for x in fc.file_access_times), mem=fc.current_memory_usage)
            except Exception:
                mid = None
            sched.note(removed=sorted(snap.get("before", set()) - after),
                       exc=(et.__name__ if et is not None else None), mid=mid,
                       pending=sorted(snap.get("pending", set())))

        fc.file_futures_lock = S.FakeLock(sched, on_acquire, on_release)

        def client(tid, ops):
            def body():
                for k, op in enumerate(ops):
                    lbl = first_label(op)
                    sched.first_point(lbl, enabled=(lambda: not fc.file_futures_lock.held) if lbl == "lock" else None)
                    inv = sched.step
                    sched.note(op=[tid, k])
                    try:
                        if op[0] == "get":
                            res = ["data", bytes(fc.get_file(fresh(op[1]))).hex()]
                        elif op[0] == "update":
                            r = fc.update_file(fresh(op[1]), bytes.fromhex(op[2]), use_fsync=bool(op[3]))
                            res = ["applied", 1 if r else 0]
                        elif op[0] == "unload":
                            fc.unload_file(fresh(op[1]))
                            res = ["done"]
                        elif op[0] == "dfupdate":
                            res = ["frame", _frame_rows(fc.update(fresh(op[1]), _mk_frame(op[2])))]
                        else:
                            raise ValueError(op)
                    except S.SchedAbort:
                        raise
                    except FileNotFoundError:
                        res = ["notfound"]
                    except MemoryError:
                        res = ["memerr"]
                    except BaseException as e:
                        res = ["raises", type(e).__name__]
                    sched.me().skip = None
                    ex.hist.append(dict(tid=tid, k=k, op=op, inv=inv, resp=sched.step, res=res))
            return body

        def default(i, en, prev):
            return prev if prev in en else en[0]

        status = "ok"
        if scn.get("setup"):
            sched.spawn("S", "client", client("S", scn["setup"]))
            status = sched.run(default)
        ex.setup_steps = len(sched.trace)
        if status == "ok":
            sched.status = None
            for i, ops in enumerate(scn["threads"]):
                sched.spawn(f"T{i}", "client", client(f"T{i}", ops))

            ex.diverged = None

            def chooser(i, en, prev):
                j = i - ex.setup_steps
                if j < len(prefix) and ex.diverged is None:
                    if strict or prefix[j] in en:
                        return prefix[j]
                    ex.diverged = j
                return default(i, en, prev)
            status = sched.run(chooser)
        ex.status = status
        if status in ("hang", "bad-choice"):
            raise S.HarnessGlitch(f"{status}: {sched.diag}")
        ex.trace = sched.trace
        ex.crashes = [f"{t.tid}: {t.crash!r}" for t in sched.threads.values() if t.crash is not None]
        # ---- final state (whatever the code left there is an observation: never an error of the check)
        ex.state_error = None

        def _val(f):
            if f.value is None or f.exc is not None:
                return None
            if scn.get("df"):
                return "frame"
            try:
                return bytes(f.value).hex()
            except Exception:
                return "unreadable:" + type(f.value).__name__

        ex.futures = [dict(fid=f.fid, name=f.name, kind=f.kind, done=f.done(), value=_val(f),
                           exc=(type(f.exc).__name__ if f.exc is not None else None),
                           data=(f.data.hex() if f.data is not None else None))
                      for f in fc.executor.futures]
        try:
            ex.mem = fc.current_memory_usage
            ex.entries = {str(n): dict(writing=bool(info[0]), size=int(info[1]), fid=getattr(info[-1], "fid", -1))
                          for n, info in list(fc.file_futures.items())}
            ex.acc = sorted(str(x[-1]) for x in list(fc.file_access_times))
        except Exception as e:
            ex.state_error = f"{type(e).__name__}: {e}"
            ex.mem, ex.entries, ex.acc = getattr(ex, "mem", 0), getattr(ex, "entries", {}), []
        ex.disk = {}
        for dp, _dn, fns in os.walk(root):
            for fn in fns:
                full = os.path.join(dp, fn)
                n = os.path.relpath(full, root)
                with open(full, "rb") as f:
                    raw = f.read()
                if scn.get("df"):
                    from klongpy.db.helpers import deserialize_df
                    try:
                        ex.disk[n] = _frame_rows(deserialize_df(raw)) if raw else []
                    except Exception as e:      # a torn / undecodable table file is an observation, not an error
                        ex.disk[n] = ["undecodable", type(e).__name__, len(raw)]
                else:
                    ex.disk[n] = raw.hex()
    finally:
        ex.leaked = sched.shutdown()
        if saved_df is not None:
            saved_df[0].threading = saved_df[1]
        for k, v in saved.items():
            if k == "open" and not had_open:
                fcm.__dict__.pop("open", None)
            else:
                setattr(fcm, k, v)
        shutil.rmtree(root, ignore_errors=True)
    return ex


# --------------------------------------------------------------------------- hazards (schedule classes)

def task_windows(ex):
    """fid -> (name, kind, submit step, step of its final lock block or of its completion)"""
    w = {}
    for i, st in enumerate(ex.trace):
        if "submitted" in st:
            f = ex.futures[st["submitted"]]
            w[f["fid"]] = dict(name=f["name"], kind=f["kind"], start=i, end=None)
    for i, st in enumerate(ex.trace):
        tid = st["tid"]
        if tid.startswith("K"):
            fid = int(tid[1:])
            if fid in w and w[fid]["end"] is None and st["label"] in ("lock", "complete"):
                w[fid]["end"] = i
    return w

def op_of_step(ex, scn, i):
    """the client operation a client's step belongs to"""
    st = ex.trace[i]
    tid = st["tid"]
    if not (tid.startswith("T") or tid == "S"):
        return None
    # the op index is noted on the first step of every op; scan back
    for j in range(i, -1, -1):
        sj = ex.trace[j]
        if sj["tid"] == tid and "op" in sj:
            k = sj["op"][1]
            ops = scn["setup"] if tid == "S" else scn["threads"][int(tid[1:])]
            return ops[k]
    return None


def hazards(ex, scn):
    """list of (step, class) for every hazard window entered, in schedule order"""
    w = task_windows(ex)
    out = []
    for i, st in enumerate(ex.trace):
        if st["label"] != "lock" or st["tid"].startswith("K"):
            continue
        op = op_of_step(ex, scn, i)
        if op is None or op[0] not in ("update", "unload"):
            continue
        for fid, t in sorted(w.items()):
            if t["name"] == op[1] and t["start"] < i and (t["end"] is None or t["end"] > i):
                if op[0] == "update" and t["kind"] == "load":
                    out.append((i, HAZ_UPD_LOAD))
                elif op[0] == "unload" and t["kind"] == "load":
                    out.append((i, HAZ_UNL_LOAD))
                elif op[0] == "unload" and t["kind"] == "write":
                    out.append((i, HAZ_UNL_WRITE))
    return out


# --------------------------------------------------------------------------- linearizability oracle

def _lin_search(ops, init, maxmem, final):
    """Wing-Gong search over one register. ops: dicts(inv, resp, op, res).
    Returns (linearizable?, linearizable with final register value == final?)."""
    n = len(ops)
    best = [False, False]
    seen = set()

    def apply(reg, o):
        """-> list of possible next register values (empty = not consistent here)"""
        kind, res = o["op"][0], o["res"]
        if res[0] == "raises":
            if kind == "update":
                return [reg, o["op"][2]]        # lenient: the raise is reported separately
            return [reg]
        if kind == "get":
            if res[0] == "notfound":
                return [reg] if reg is None else []
            if res[0] == "memerr":
                return [reg] if reg is not None and len(reg) // 2 > maxmem else []
            return [reg] if reg is not None and res[1] == reg and len(reg) // 2 <= maxmem else []
        if kind == "update":
            if res[0] == "applied" and res[1] == 1:
                return [o["op"][2]]
            if res[0] == "memerr":               # refusal is legitimate only for contents beyond the limit
                return [reg] if len(o["op"][2]) // 2 > maxmem else []
            return [reg]                         # reported failure: no effect
        return [reg]                             # unload

    def go(done, reg):
        if best[1]:
            return
        key = (done, reg)
        if key in seen:
            return
        seen.add(key)
        if done == (1 << n) - 1:
            best[0] = True
            if reg == final:
                best[1] = True
            return
        rem = [i for i in range(n) if not done >> i & 1]
        for i in rem:
            # minimal: no other remaining op returned before this one was invoked
            if any(ops[j]["resp"] < ops[i]["inv"] for j in rem if j != i):
                continue
            for r2 in apply(reg, ops[i]):
                go(done | 1 << i, r2)

    go(0, init)
    return best[0], best[1]


def oracle(ex, scn):
    """the property's own oracle on one complete run. Returns list of (clause, expected, observed)."""
    fails = []
    if ex.crashes:
        raise common.Infra("harness thread crashed: " + "; ".join(ex.crashes))
    if ex.status != "ok":
        fails.append(("no-return:" + ex.status, "every call returns",
                      f"scheduler status {ex.status} after {len(ex.trace)} steps"))
        return fails
    for h in ex.hist:
        if h["res"][0] == "raises":
            fails.append(("raises:" + h["res"][1], "every call returns a value",
                          f"{h['tid']} {h['op']} raised {h['res'][1]}"))
    if getattr(ex, "state_error", None):
        fails.append(("final-state:unreadable", "entry table / access list / byte total readable at quiescence", ex.state_error))
    names = sorted(set(scn["files"]) | {h["op"][1] for h in ex.hist})
    nops = sum(len(t) for t in scn["threads"]) + len(scn.get("setup") or [])
    if len(ex.hist) != nops:
        fails.append(("no-return:missing", f"{nops} responses", f"{len(ex.hist)} responses"))
    for n in names:
        ops = [h for h in ex.hist if h["op"][1] == n]
        init = scn["files"].get(n)
        final = ex.disk.get(n)
        lin, lin_final = _lin_search(ops, init, scn["max"], final)
        if not lin:
            fails.append(("linearizability", f"a linearization of the calls on {n} (initial {init})",
                          [[h["tid"], h["op"], h["inv"], h["resp"], h["res"]] for h in ops]))
        elif not lin_final:
            fails.append(("final-disk", f"file {n} = last successful update in some linearization",
                          f"disk={final} history={[[h['tid'], h['op'], h['res']] for h in ops]}"))
    for f in ex.futures:
        if not f["done"]:
            fails.append(("no-return:task", "every task completes", f"task {f['fid']} {f['kind']} {f['name']} not done"))
    tot = 0
    for n, e in sorted(ex.entries.items()):
        tot += e["size"]
        fut = ex.futures[e["fid"]] if 0 <= e["fid"] < len(ex.futures) else None
        if e["writing"]:
            fails.append(("final-cache", f"entry {n} not writing at quiescence", "writing=True"))
        if fut is None or fut["value"] is None:
            fails.append(("final-cache", f"entry {n} holds contents", f"future {fut}"))
        else:
            if fut["value"] != ex.disk.get(n):
                fails.append(("final-cache", f"cached {n} == disk {ex.disk.get(n)}", f"cached {fut['value']}"))
            if len(fut["value"]) // 2 != e["size"]:
                fails.append(("accounting", f"entry {n} bytes == len(contents)={len(fut['value']) // 2}",
                              f"bytes={e['size']}"))
    if ex.mem != tot:
        fails.append(("accounting", f"current_memory_usage == sum(entries) == {tot}", f"{ex.mem}"))
    return fails


def oracle_df(ex, scn):
    """PandasDataFrameCache.update under concurrency: every call returns, and the returned frames and
    the stored table are those of applying the merges one after the other in some order that
    respects real time (existing rows win, sorted by index); accounting as for the base class"""
    fails = []
    if ex.crashes:
        raise common.Infra("harness thread crashed: " + "; ".join(ex.crashes))
    if ex.status != "ok":
        return [("df:no-return:" + ex.status, "every call returns", f"scheduler status {ex.status}")]
    for h in ex.hist:
        if h["res"][0] == "raises":
            fails.append(("df:raises:" + h["res"][1], "every call returns a value", f"{h['tid']} {h['op'][:2]} raised"))

    def merge(state, rows):
        d = dict((i, r) for i, r in state)
        for i, r in rows:
            d.setdefault(i, r)
        return [[i, d[i]] for i in sorted(d)]

    for n in sorted({h["op"][1] for h in ex.hist}):
        ops = [h for h in ex.hist if h["op"][1] == n and h["op"][0] == "dfupdate" and h["res"][0] == "frame"]
        init = merge([], scn.get("frames", {}).get(n, []))
        ok = False
        for perm in itertools.permutations(range(len(ops))):
            if any(ops[perm[b]]["resp"] < ops[perm[a]]["inv"] for a in range(len(perm)) for b in range(a + 1, len(perm))):
                continue
            st, good = init, True
            for k in perm:
                st = merge(st, ops[k]["op"][2])
                if ops[k]["res"][1] != st:
                    good = False
                    break
            if good and ex.disk.get(n, []) == st:
                ok = True
                break
        if not ok:
            fails.append(("df:merge", f"table {n} = the merges applied in some real-time-consistent order",
                          dict(disk=ex.disk.get(n), returned=[[h["tid"], h["res"][1]] for h in ops])))
    tot = 0
    for n, e in sorted(ex.entries.items()):
        tot += e["size"]
        if e["writing"]:
            fails.append(("df:final-cache", f"entry {n} not writing", "writing=True"))
    if ex.mem != tot:
        fails.append(("df:accounting", f"current_memory_usage == sum(entries) == {tot}", f"{ex.mem}"))
    for f in ex.futures:
        if not f["done"]:
            fails.append(("df:no-return:task", "every task completes", f"task {f['fid']} not done"))
    return fails


def df_scenarios():
    A = [[1, [10, 11]], [3, [30, 31]]]
    B = [[2, [20, 21]], [3, [99, 99]]]
    C = [[0, [5, 6]]]
    mk = lambda threads, frames=None, setup=None: dict(df=True, max=2 ** 20, files={}, frames=frames or {},
                                                       setup=setup or [], threads=threads)
    return [
        ("df:update||update:new", mk([[["dfupdate", "t", A]], [["dfupdate", "t", B]]])),
        ("df:update||update:stored", mk([[["dfupdate", "t", A]], [["dfupdate", "t", B]]], frames={"t": C})),
        ("df:update||update:cached", mk([[["dfupdate", "t", A]], [["dfupdate", "t", B]]], frames={"t": C},
                                        setup=[["dfupdate", "t", [[7, [70, 71]]]]])),
        ("df:update;update||update:two-files", mk([[["dfupdate", "t", A], ["dfupdate", "u", C]], [["dfupdate", "u", B]]])),
    ]


# --------------------------------------------------------------------------- enumeration

def preemptions(trace, start):
    c = 0
    for st in trace[start:]:
        if st["prev"] is not None and st["prev"] != st["tid"] and st["prev"] in st["enabled"]:
            c += 1
    return c


def explore(scn, base, bound, budget, on_exec):
    """stateless DFS over choice prefixes with at most `bound` preemptions; on_exec(ex, choices)"""
    stack = [[]]
    n = 0
    while stack and n < budget:
        prefix = stack.pop()
        ex = execute(scn, prefix, base)
        n += 1
        tr = ex.trace[ex.setup_steps:]
        choices = [st["tid"] for st in tr]
        on_exec(ex, choices)
        if ex.status not in ("ok", "deadlock"):
            continue
        pre = 0
        for i, st in enumerate(tr):
            prev = st["prev"] if i > 0 else None
            if i >= len(prefix):
                for alt in st["enabled"]:
                    if alt == st["tid"]:
                        continue
                    cost = 1 if (prev is not None and prev in st["enabled"] and alt != prev) else 0
                    if pre + cost <= bound:
                        stack.append(choices[:i] + [alt])
            if prev is not None and prev != st["tid"] and prev in st["enabled"]:
                pre += 1
    return n, bool(stack)


# --------------------------------------------------------------------------- tie to the Lean machine

def _cid(scn, tid):
    if tid == "S":
        return "C0"
    if tid.startswith("T"):
        return f"C{int(tid[1:]) + (1 if scn.get('setup') else 0)}"
    return tid


def _mn(name):
    """file name as sent to the machine (its line protocol uses `/` as a separator; names are opaque to it)"""
    return str(name).replace("/", "%")


def _enc_op(op):
    if op[0] == "get":
        return f"g:{_mn(op[1])}"
    if op[0] == "unload":
        return f"x:{_mn(op[1])}"
    return f"u:{_mn(op[1])}:{op[2]}:{1 if op[3] else 0}"


def model_line(scn, ex, upto=None):
    """the `run` request replaying the real run's schedule (and eviction choices) into kd_c18
    (upto: only the steps up to and including trace index `upto`)"""
    progs = ([scn["setup"]] if scn.get("setup") else []) + scn["threads"]
    steps = []
    for st in (ex.trace if upto is None else ex.trace[:upto + 1]):
        if S.is_stutter(st["label"]):
            continue
        ev = []
        if st["tid"].startswith("K") and st["label"] == "lock":
            own = ex.futures[int(st["tid"][1:])]["name"]
            ev = [_mn(x) for x in st.get("removed", []) if x != own or st.get("exc")]
        steps.append(f"{_cid(scn, st['tid'])}/{st['label']}/{'+'.join(ev)}")
    files = ",".join(f"{_mn(n)}:{hx}" for n, hx in sorted(scn["files"].items()))
    return (f"run max={scn['max']} files={files} progs={'|'.join(';'.join(_enc_op(o) for o in p) for p in progs)} "
            f"sched={','.join(steps)}")


def _enc_res(res):
    if res[0] == "data":
        return "data:" + res[1]
    if res[0] == "applied":
        return f"applied:{res[1]}"
    if res[0] == "raises":
        return "raises:" + res[1]
    return res[0]


def real_view(scn, ex):
    """what the model reports, computed from the real run (same canonical form)"""
    order = (["S"] if scn.get("setup") else []) + [f"T{i}" for i in range(len(scn["threads"]))]
    # enabled sets before every machine step; threads parked at a stutter point (`unlock`) are
    # left out on both sides (the machine has already moved them to their next real point)
    en = [(sorted(_cid(scn, t) for t in st["enabled"] if t not in st.get("parked", [])),
           sorted(_cid(scn, t) for t in st.get("parked", [])))
          for st in ex.trace if not S.is_stutter(st["label"])]
    ents = ",".join(sorted(f"{_mn(n)}/{1 if e['writing'] else 0}/{e['size']}/{e['fid']}" for n, e in ex.entries.items()))
    disk = ",".join(sorted(f"{_mn(n)}@{hx}" for n, hx in ex.disk.items()))
    tasks = ",".join(("ok:" + f["value"]) if f["done"] and f["exc"] is None and f["value"] is not None
                     else ("err:" + f["exc"]) if f["done"] and f["exc"] else "pending" for f in ex.futures)
    res = "|".join(";".join(_enc_res(h["res"]) for h in sorted((h for h in ex.hist if h["tid"] == t), key=lambda h: h["k"]))
                   for t in order)
    return dict(en=en, mem=str(ex.mem), entries=ents, acc=",".join(sorted(_mn(x) for x in ex.acc)), disk=disk, tasks=tasks, res=res)


def compare_model(scn, ex, reply):
    """-> None if the machine and the real run agree, else a short description"""
    f = fields(reply)
    if f["_"] != "ok":
        return f"machine refused the real schedule: {reply[:300]}"
    rv = real_view(scn, ex)
    ens = [set(x for x in e.split(",") if x) for e in f.get("en", "").split(";")] if f.get("en", "") else []
    nsetup = sum(1 for st in ex.trace[:ex.setup_steps] if not S.is_stutter(st["label"]))
    if len(ens) != len(rv["en"]):
        return f"en: machine has {len(ens)} steps, real run {len(rv['en'])}"
    for i, (real_en, parked) in enumerate(rv["en"]):
        m = ens[i] - set(parked)
        if scn.get("setup") and i < nsetup:     # the other clients have not been started yet
            m = {w for w in m if w == "C0" or w.startswith("K")}
        if m != set(real_en):
            return f"en[{i}]: machine={sorted(m)} real={real_en} parked={parked}"
    for k in ("mem", "entries", "acc", "disk", "tasks", "res"):
        if f.get(k, "") != rv[k]:
            return f"{k}: machine={f.get(k, '')!r} real={rv[k]!r}"
    if ex.status == "ok" and f.get("final", "") != "":
        return f"machine still has enabled steps at the end: {f.get('final')}"
    return None


# --------------------------------------------------------------------------- scenarios

OLD, NEW6, XY = b"OLD".hex(), b"NEWNEW".hex(), b"XY".hex()


LOOKALIKE_SUFFIXES = [".tmp", ".bak", "~", ".{pid}.tmp", ".new", ".lock"]


def core_scenarios():
    """fixed scenarios run on every check: the witnesses of the known findings and the basic
    hazard-free races (two writers, writer vs reader of a cached file, eviction, new file)"""
    S1 = lambda threads, **kw: dict(max=kw.get("max", 64), files=kw.get("files", {"f": OLD}),
                                    setup=kw.get("setup", []), threads=threads,
                                    **({"quick_cap": kw["quick_cap"]} if "quick_cap" in kw else {}))
    return [
        ("get-miss||update", S1([[["get", "f"]], [["update", "f", NEW6, 0]]])),
        ("get-miss||update||update", S1([[["get", "f"]], [["update", "f", NEW6, 0]], [["update", "f", XY, 0]]])),
        ("get-miss||unload", S1([[["get", "f"]], [["unload", "f"]]])),
        ("update||unload", S1([[["update", "f", NEW6, 0]], [["unload", "f"]]])),
        ("update||update", S1([[["update", "f", NEW6, 0]], [["update", "f", XY, 1]]])),
        ("update||update||get", S1([[["update", "f", NEW6, 0]], [["update", "f", XY, 0]], [["get", "f"]]],
                                   setup=[["get", "f"]])),
        ("cached:update||get", S1([[["update", "f", NEW6, 0]], [["get", "f"]]], setup=[["get", "f"]])),
        ("cached:update;get||get;unload", S1([[["update", "f", NEW6, 1], ["get", "f"]], [["get", "f"], ["unload", "f"]]],
                                             setup=[["get", "f"]])),
        ("get||get", S1([[["get", "f"]], [["get", "f"]]])),
        ("get||get||unload-other", S1([[["get", "f"]], [["get", "f"]], [["get", "g"], ["unload", "g"]]],
                                      files={"f": OLD, "g": XY})),
        ("evict:update-g||get-f", S1([[["update", "g", NEW6, 0]], [["get", "f"]]], max=6,
                                     files={"f": OLD, "g": XY}, setup=[["get", "f"]])),
        ("evict:get-g||get-f||update-f", S1([[["get", "g"]], [["get", "f"]], [["update", "f", b"ABCD".hex(), 0]]], max=5,
                                            files={"f": OLD, "g": XY}, setup=[["get", "f"]])),
        ("newfile:update||get", S1([[["update", "f", NEW6, 0]], [["get", "f"]]], files={})),
        ("oversize-file:get||update", S1([[["get", "f"]], [["update", "f", XY, 0]]], max=4,
                                         files={"f": b"TOOLARGE".hex()})),
        ("cached:unload||get||update-other", S1([[["unload", "f"]], [["get", "f"]], [["update", "g", NEW6, 0]]],
                                                files={"f": OLD, "g": XY}, setup=[["get", "f"]])),
        # two files in a directory that does not exist yet (the workers' write prelude races), plus a reader
        ("newdir:update-d/a||update-d/b", S1([[["update", "d/a", NEW6, 0]], [["update", "d/b", XY, 1]]], files={})),
        ("newdir:update-d/a||update-d/b;get-d/a", S1([[["update", "d/a", NEW6, 1]], [["update", "d/b", XY, 0], ["get", "d/a"]]],
                                                     files={})),
        # rewrite of a resident file under memory pressure: the write's own completion must skip its
        # `writing` record and evict another file; then the evicted file is read again
        ("rewrite-resident:update-a;get-b||get-a", S1([[["update", "aa", b"aaaa".hex(), 0], ["get", "bb"]], [["get", "aa"]]],
                                                      max=6, files={"aa": b"A".hex(), "bb": b"BBBB".hex()},
                                                      setup=[["get", "aa"], ["get", "bb"]])),
        ("rewrite-resident:update-a||get-c", S1([[["update", "aa", b"xyz".hex(), 0]], [["get", "cc"]]],
                                                max=5, files={"aa": b"AA".hex(), "bb": b"BBB".hex(), "cc": b"CCC".hex()},
                                                setup=[["get", "aa"], ["get", "bb"]])),
        # a second get of a file whose load is still in flight, another file completing in between,
        # memory pressure when the pending load finishes
        ("hit-inflight:get-f||get-f||get-g", S1([[["get", "f"]], [["get", "f"]], [["get", "g"]]], max=4,
                                                files={"f": OLD, "g": XY}, quick_cap=3000)),
        ("hit-inflight:get-f||get-f;get-g", S1([[["get", "f"]], [["get", "f"], ["get", "g"]]], max=4,
                                               files={"f": OLD, "g": XY})),
        # boundary sizes around max_memory (4): files and updates of exactly max, max-1, max+1 bytes
        ("boundary:get-max-file||update-max;get", S1([[["get", "f"]], [["update", "f", b"wxyz".hex(), 0], ["get", "f"]]], max=4,
                                                     files={"f": b"ABCD".hex()})),
        ("boundary:update-max;get||get;update-max-1", S1([[["update", "f", b"wxyz".hex(), 1], ["get", "f"]],
                                                         [["get", "f"], ["update", "f", b"abc".hex(), 0]]], max=4,
                                                        files={"f": b"ABC".hex()}, setup=[["get", "f"]])),
        ("boundary:get-max+1-file||update-max;get", S1([[["get", "f"]], [["update", "f", b"wxyz".hex(), 0], ["get", "f"]]], max=4,
                                                       files={"f": b"ABCDE".hex()})),
        # exact fill: sizes chosen so that usage + size == max_memory exactly (boundary of recover_memory)
        ("exact-fill:update-a(2->3)||get-c", S1([[["update", "aa", b"xyz".hex(), 0]], [["get", "cc"]]],
                                                max=6, files={"aa": b"AA".hex(), "bb": b"BBB".hex(), "cc": b"CCCC".hex()},
                                                setup=[["get", "aa"], ["get", "bb"]])),
        ("exact-fill:get-c;get-a||update-b", S1([[["get", "cc"], ["get", "aa"]], [["update", "bb", b"wxyz".hex(), 1], ["get", "cc"]]],
                                                max=6, files={"aa": b"AA".hex(), "bb": b"BBB".hex(), "cc": b"CCCC".hex()},
                                                setup=[["get", "aa"]])),
        # oversized updates (max+1 and 2*max bytes): refused with MemoryError, no effect, later calls work
        ("oversize:update-big;get||update;get", S1([[["update", "f", b"12345".hex(), 0], ["get", "f"]],
                                                   [["update", "f", b"ab".hex(), 0], ["get", "f"]]], max=4)),
        ("oversize:update-2max||get;update-big", S1([[["update", "f", b"12345678".hex(), 1]],
                                                    [["get", "f"], ["update", "f", b"54321".hex(), 0]]], max=4,
                                                   setup=[["get", "f"]])),
        # working set rotating through three files that do not fit together, one of them touched twice
        ("rotate3:get-a||get-b", S1([[["get", "aa"]], [["get", "bb"]]],
                                    max=6, files={"aa": b"AA".hex(), "bb": b"BBB".hex(), "cc": b"CCC".hex()},
                                    setup=[["get", "aa"], ["get", "aa"], ["get", "bb"], ["get", "cc"]])),
        ("rotate3:update-a;get-a||get-b;get-c", S1([[["get", "aa"], ["get", "aa"]], [["get", "bb"], ["get", "cc"]]],
                                                   max=6, files={"aa": b"AA".hex(), "bb": b"BBB".hex(), "cc": b"CCC".hex()},
                                                   setup=[["update", "aa", b"ZZ".hex(), 0], ["get", "aa"]])),
        # look-alike names: a file and what an implementation might use as its temporary / backup sibling
        *[(f"lookalike{sfx}:update-k{sfx}||update-k;get-k{sfx}",
           S1([[["update", "k" + sfx, NEW6, 0]], [["update", "k", XY, 0], ["get", "k" + sfx]]], files={}))
          for sfx in LOOKALIKE_SUFFIXES],
        ("lookalike.tmp:seq", S1([[["update", "k", XY, 1]], [["get", "k.tmp"], ["unload", "k.tmp"]]], files={"k": OLD},
                                 setup=[["update", "k.tmp", NEW6, 0]])),
        # a getter parked between its stat calls and the lock while the file is replaced and dropped
        ("stat-gap:get||update;unload", S1([[["get", "f"]], [["update", "f", NEW6, 0], ["unload", "f"]]])),
        ("stat-gap:get||update-f;update-g(evicts)", S1([[["get", "f"]], [["update", "f", b"ABCD".hex(), 0], ["update", "g", b"GHIJ".hex(), 0]]],
                                                       max=6, files={"f": XY, "g": XY})),
        # two files that do not fit together (3 + 2 > 4): unload / hit / reload under memory pressure
        ("pressure:unload-f;get-g||get-f;get-f", S1([[["unload", "f"], ["get", "g"]], [["get", "f"], ["get", "f"]]],
                                                    max=4, files={"f": OLD, "g": XY}, setup=[["get", "f"]], quick_cap=6000)),
        ("pressure:get-g;get-f||unload-f;get-f", S1([[["get", "g"], ["get", "f"]], [["unload", "f"], ["get", "f"]]],
                                                    max=4, files={"f": OLD, "g": XY}, setup=[["get", "f"]])),
    ]


def random_scenario(rng, nthreads=None):
    names = ["f"] if rng.random() < 0.5 else ["f", "g"]
    r = rng.random()
    if r < 0.2:
        names = ["d/" + n for n in names]          # in a sub-directory (missing unless a file starts there)
    elif r < 0.35:
        names = ["k", "k" + rng.choice(LOOKALIKE_SUFFIXES)]     # a file and a temporary/backup look-alike
    maxmem = rng.choice([64, 64, 64, 6, 8])
    pool = [OLD, XY, b"".hex(), b"ABCDE".hex()]
    three = r >= 0.35 and rng.random() < 0.2
    if three:                                      # three files that do not fit together
        names = ["aa", "bb", "cc"]
        maxmem = rng.choice([5, 6])
        pool = [b"AA".hex(), b"BBB".hex(), b"C".hex(), b"DDDD".hex()]
    files = {n: rng.choice(pool) for n in names if rng.random() < 0.85}
    if rng.random() < 0.06 and files:
        files[rng.choice(sorted(files))] = b"TOOLARGE!".hex()      # larger than every limit below 64
    uid = [0]

    def mkop():
        n = rng.choice(names)
        r = rng.random()
        if r < 0.40:
            return ["get", n]
        if r < 0.80:
            uid[0] += 1
            ln = rng.choice([1, 2, 3, 4, 6])
            ln = min(ln, maxmem)
            if maxmem < 64 and rng.random() < 0.12:
                ln = rng.choice([maxmem + 1, 2 * maxmem])      # must be refused with MemoryError
            data = (chr(ord("a") + uid[0]) * ln).encode().hex()
            return ["update", n, data, 1 if rng.random() < 0.25 else 0]
        return ["unload", n]

    setup = []
    if three:
        setup = [mkop() for _ in range(rng.choice([2, 3, 4]))]
    elif rng.random() < 0.55:
        setup = [mkop() for _ in range(rng.choice([1, 1, 2]))]
    nt = nthreads or rng.choice([2, 2, 3])
    threads = [[mkop() for _ in range(rng.choice([1, 1, 2]))] for _ in range(nt)]
    return dict(max=maxmem, files=files, setup=setup, threads=threads)


def pair_scenarios():
    """all two-thread / one-op-each scenarios on one file, cache cold and warm, file present and absent"""
    ops = [["get", "f"], ["update", "f", NEW6, 0], ["unload", "f"]]
    out = []
    for a, b in itertools.combinations_with_replacement(range(3), 2):
        for files in ({"f": OLD}, {}):
            for setup in ([], [["get", "f"]], [["update", "f", XY, 0]]):
                if not files and setup and setup[0][0] == "get":
                    continue
                oa, ob = list(ops[a]), list(ops[b])
                if oa[0] == "update" and ob[0] == "update":
                    ob[2] = b"second".hex()
                out.append((f"pair:{oa[0]}||{ob[0]}:{'warm' if setup else 'cold'}:{'file' if files else 'nofile'}",
                            dict(max=64, files=files, setup=setup, threads=[[oa], [ob]])))
    return out


def seq_scenarios():
    """thorough tier: (a) every two-thread scenario on one file whose threads run any sequence of one
    or two operations (cache cold and warm); (b) two files that do not fit together, threads running
    two operations out of get f / get g / unload f with f cached first"""
    out = []
    alpha = ["get", "update", "unload"]
    seqs = [[a] for a in alpha] + [[a, b] for a in alpha for b in alpha]
    uid = [0]

    def mk(kinds, name):
        ops = []
        for k in kinds:
            if k == "update":
                uid[0] += 1
                ops.append(["update", name, (chr(ord("a") + uid[0] % 26) * (1 + uid[0] % 6)).encode().hex(), 0])
            else:
                ops.append([k, name])
        return ops

    for i, j in itertools.combinations_with_replacement(range(len(seqs)), 2):
        if len(seqs[i]) + len(seqs[j]) < 3:
            continue                      # one op each: pair_scenarios
        for setup in ([], [["get", "f"]]):
            uid[0] = 0
            out.append((f"seq:{'-'.join(seqs[i])}||{'-'.join(seqs[j])}:{'warm' if setup else 'cold'}",
                        dict(max=64, files={"f": OLD}, setup=setup, threads=[mk(seqs[i], "f"), mk(seqs[j], "f")]), 2, 2000))
    palpha = [["get", "f"], ["get", "g"], ["unload", "f"]]
    pseqs = [[a, b] for a in palpha for b in palpha]
    for i, j in itertools.combinations_with_replacement(range(len(pseqs)), 2):
        out.append((f"pressure:{i}||{j}", dict(max=4, files={"f": OLD, "g": XY}, setup=[["get", "f"]],
                                               threads=[pseqs[i], pseqs[j]]), 2, 4000))
    return out


# --------------------------------------------------------------------------- per-scenario work (runs in a worker process)

_W = {}


def _winit(base):
    import logging
    logging.disable(logging.WARNING)       # klongpy logs "unable to recover memory" in corrupted (hazard) runs
    import threading
    S._Worker.idle = []                    # OS threads do not survive fork
    S._Worker.guard = threading.Lock()     # ... and a lock held by one of them at fork time would stay held
    _W["base"] = os.path.join(base, f"w{os.getpid()}")
    os.makedirs(_W["base"], exist_ok=True)
    try:
        _W["drv"] = Driver("c18")
    except Exception:
        _W["drv"] = None


def check_execution(scn, ex, choices, drv, out):
    """oracle + classification + tie for one run; appends to the result dict `out`"""
    case = dict(kind="schedule", scenario=scn, choices=choices)
    scn = getattr(ex, "scn", scn)          # names resolved for this process
    if scn.get("df"):           # table-merge layer: oracle only (pickled frames are outside the machine)
        fails = oracle_df(ex, scn)
        out["n"] += 1
        out["hist"]["class:df-append-lock"] += 1
        if fails:
            clause, expected, observed = fails[0]
            out["hist"]["fail:conc:safe:" + clause] += 1
            if not any(f[0] == "conc:safe:" + clause for f in out["fails"]):
                out["fails"].append(("conc:safe:" + clause, case, expected, observed, ", ".join(sorted({f[0] for f in fails}))))
        return
    hz = hazards(ex, scn)
    fails = oracle(ex, scn)
    out["n"] += 1
    out["hist"]["steps:" + str(min(len(ex.trace) // 5 * 5, 60))] += 1
    out["hist"]["preemptions:" + str(preemptions(ex.trace, ex.setup_steps))] += 1
    out["hist"]["class:" + (hz[0][1] if hz else "hazard-free")] += 1
    for h in ex.hist:
        out["hist"]["result:" + h["op"][0] + ":" + h["res"][0]] += 1
    if fails:
        clause, expected, observed = fails[0]
        if hz:
            # a known class covers only the consequences the known defect is known to have
            # (wrong values / accounting / the worker's assertion); anything else that goes
            # wrong inside such a window - calls that never return, other exceptions - is new
            extra = [f for f in fails if f[0] not in KNOWN_CONSEQUENCES]
            if extra:
                clause, expected, observed = extra[0]
                key = hz[0][1] + ":" + clause
            else:
                key = hz[0][1]
        else:
            key = "conc:safe:" + clause
        out["hist"]["fail:" + key + ":" + clause] += 1
        if len(out["fails"]) < 40 and not any(f[0] == key for f in out["fails"]):
            out["fails"].append((key, case, expected, observed,
                                 f"{len(fails)} clause(s) fail: " + ", ".join(sorted({f[0] for f in fails}))))
    # ---- tie
    if drv is not None:
        if any(st.get("exc") == "KeyError" for st in ex.trace):
            out["hist"]["tie:skipped-keyerror"] += 1
        else:
            rep = drv.ask(model_line(scn, ex))
            d = compare_model(scn, ex, rep)
            f = fields(rep)
            if d is None and ex.status == "ok":
                if (f.get("safe") == "1") != (not hz):
                    d = f"hazard classification: machine safe={f.get('safe')} harness hazards={hz}"
                elif f.get("quiescent") != "1":
                    d = "machine not quiescent at the end of a complete run"
                elif f.get("safe") == "1" and fails:
                    d = "machine accepts the run as hazard-free but the oracle fails on the real code"
            if d is None:
                d = mid_tie(scn, ex, drv, out)
            if d is not None and len(out["mismatches"]) < 5:
                out["mismatches"].append((case, d[:600]))
            out["hist"]["tie:" + ("agree" if d is None else "DISAGREE")] += 1


def mid_tie(scn, ex, drv, out, limit=3):
    """protected state right after the lock block of a get that found an entry (cache hit), compared
    with the machine run up to that step: a hit on a finished future touches the access list, a hit
    on a load/write still in flight must leave it alone (and never changes the byte total)"""
    n = 0
    for i, st in enumerate(ex.trace):
        if st["label"] != "lock" or st["tid"].startswith("K") or not st.get("mid"):
            continue
        op = op_of_step(ex, scn, i)
        if op is None or op[0] != "get" or op[1] not in (st.get("pending") or []):
            continue
        f = fields(drv.ask(model_line(scn, ex, upto=i)))
        out["hist"]["tie:mid-hit-pending"] += 1
        real_acc = ",".join(sorted(_mn(x) for x in st["mid"]["acc"]))
        if f["_"] != "ok":
            return f"mid-run (step {i}): machine refused the prefix"
        if f.get("acc", "") != real_acc or f.get("mem") != str(st["mid"]["mem"]):
            return (f"mid-run after the hit of {op} on an in-flight future (step {i}): "
                    f"machine acc={f.get('acc', '')!r} mem={f.get('mem')} real acc={real_acc!r} mem={st['mid']['mem']}")
        n += 1
        if n >= limit:
            break
    return None


def work(args):
    import collections
    name, scn, bound, cap = args
    out = dict(name=name, n=0, hist=collections.Counter(), fails=[], mismatches=[], truncated=False, infra=None)
    drv = _W.get("drv")
    for attempt in (0, 1, 2):
        try:
            def on_exec(ex, choices):
                check_execution(scn, ex, choices, drv, out)
            n, more = explore(scn, _W["base"], bound, cap, on_exec)
            out["truncated"] = more
            break
        except common.Infra as e:
            out["infra"] = str(e)
            break
        except Exception:
            # an exception of the harness itself (never of klongpy: those are results), including
            # HarnessGlitch (a step lost in wall time). Retry the scenario from scratch, twice;
            # a third failure is an infrastructure error (exit 2).
            import traceback
            tb = traceback.format_exc()[-1500:]
            if attempt == 2:
                if "HarnessGlitch" in tb or "Infra" in tb:
                    out["infra"] = "worker exception in scenario %s: %s" % (name, tb)
                else:       # the check could not digest what the code did: broken tie with the scenario as case
                    out = dict(name=name, n=0, hist={}, fails=[], truncated=False, infra=None,
                               mismatches=[(dict(kind="schedule", scenario=scn, choices=[]),
                                            "harness could not process the run: " + tb[-600:])])
            else:
                out = dict(name=name, n=0, hist=collections.Counter(), fails=[], mismatches=[], truncated=False,
                           infra=None, retried=tb)
    out["hist"] = dict(out["hist"])
    return out


# --------------------------------------------------------------------------- entry points

def work_witness(args):
    """replay the witness schedule of one known finding (runs in a worker process, so that the
    parent never owns scheduler threads when it forks)"""
    import collections
    fid, key, scn, choices = args
    out = dict(name="witness:" + fid, n=0, hist=collections.Counter(), fails=[], mismatches=[], truncated=False,
               infra=None, witness=(fid, None))
    for attempt in (0, 1, 2):
        try:
            ex = execute(scn, choices, _W["base"], strict=False)
            check_execution(scn, ex, choices, _W.get("drv"), out)
            out["witness"] = (fid, any(f[0] == key for f in out["fails"]))
            break
        except Exception as e:
            if attempt == 2:
                out["infra"] = f"witness {fid}: {type(e).__name__}: {e}"[:1500]
    out["hist"] = dict(out["hist"])
    return out


def _dispatch(job):
    return work_witness(job[1:]) if job[0] == "witness" else work(job[1:])


def _merge(ctx, out):
    for k, v in out["hist"].items():
        ctx.bump(k, v)
    for key, case, expected, observed, what in out["fails"]:
        ctx.oracle_fail(key, case, expected, observed, what)
    for case, d in out["mismatches"]:
        ctx.mismatch("Klong.C18.step vs FileCache under the recorded schedule", case, "machine", d)
    if out.get("infra"):
        raise common.Infra(out["infra"])


def run(ctx):
    import multiprocessing as mp
    quick = ctx.tier == "quick"
    ctx.rule = ("each evaluation = one complete interleaving (schedule) of a scenario on the real FileCache under the "
                "cooperative scheduler, replayed into the Lean machine; scenarios: fixed core list (known-finding witnesses, "
                "writer/writer, writer/reader, eviction, new file, oversize file), all two-thread pairs (thorough), and "
                "seeded random scenarios of 2-3 client threads x 1-2 operations x 1-2 files with optional cache-priming setup; "
                "schedules enumerated depth-first up to the preemption bound; distinct = distinct (scenario, choice list)")
    ctx.assumptions += [
        "step granularity: lock-protected block, task submission, exists/getsize, open-truncate, read, write, fsync, "
        "future completion, future wait are atomic; CPython/OS preemption inside them is not explored",
        "open(...,'rb') has no effect before its read; f.write is one step whose bytes are visible at once",
        "eviction order of recover_memory (heapq over a list that is not re-heapified) is relational: any legal choice",
        "PandasDataFrameCache.update (per-file append lock + retry loop) is explored by the oracle only (few scenarios, "
        "no Lean machine: pickled frames are opaque); concurrent get_dataframe||update falls under the known get-miss||update class",
    ]
    ctx.partial += [
        "lin_partial: proved for schedules in which no update/unload of a file takes the lock while a load of it is in "
        "flight and no unload while a write of it is in flight; lin_full (all schedules) is refuted by four decide-checked "
        "schedules (update during load, read between truncate and write, unload during load, unload during write)",
    ]
    jobs = []
    for e in ctx.findings:
        w = e.get("witness") or {}
        if e.get("status") == "known" and "scenario" in w:
            jobs.append(("witness", e["id"], e["matcher"]["key"], w["scenario"], w["choices"]))
    if quick:
        for name, scn in core_scenarios():
            jobs.append(("explore", name, scn, 2, scn.get("quick_cap", 800)))
        for i in range(28):
            jobs.append(("explore", f"rnd{i}", random_scenario(ctx.rng), 2, 300))
        for name, scn in df_scenarios():
            jobs.append(("explore", name, scn, 2, 500 if "two-files" not in name else 150))
        jobs.sort(key=lambda j: -(j[4] if j[0] == "explore" else 10 ** 9))
    else:
        for name, scn in core_scenarios():
            jobs.append(("explore", name, scn, 3, 30000))
        for name, scn in pair_scenarios():
            jobs.append(("explore", name, scn, 3, 6000))
        for name, scn, bound, cap in seq_scenarios():
            jobs.append(("explore", name, scn, bound, cap))
        for i in range(300):
            jobs.append(("explore", f"rnd{i}", random_scenario(ctx.rng), 2, 2000))
        for name, scn in df_scenarios():
            jobs.append(("explore", name, scn, 2, 1500))
        jobs.sort(key=lambda j: -(j[4] if j[0] == "explore" else 10 ** 9))     # witnesses, then big jobs first
    base = ctx.mkdtemp()
    nproc = max(2, min(8, (os.cpu_count() or 4) // 2))
    ctxm = mp.get_context("fork")
    truncated = 0
    with ctxm.Pool(nproc, initializer=_winit, initargs=(base,)) as pool:
        for out in pool.imap_unordered(_dispatch, jobs, chunksize=1):
            _merge(ctx, out)
            if out.get("witness"):
                ctx.extra.setdefault("witness_replay", {})[out["witness"][0]] = (
                    "reproduced" if out["witness"][1] else "NOT reproduced")
            truncated += 1 if out["truncated"] else 0
            if out.get("retried"):
                ctx.extra.setdefault("worker_retries", []).append(out["retried"][-400:])
            ctx.evaluations += out["n"]
            ctx._distinct.update((out["name"], i) for i in range(out["n"]))
            if len(ctx.samples) < 6 and out["n"]:
                ctx.sample(dict(scenario=out["name"], schedules=out["n"], truncated=out["truncated"]))
    ctx.extra["scenarios"] = len(jobs)
    ctx.extra["scenarios_truncated_by_budget"] = truncated
    ctx.extra["preemption_bound"] = 2 if quick else "3 (core, pairs) / 2 (random)"


def replay(ctx, case):
    c = case.get("case", case)
    scn, choices = c["scenario"], c["choices"]
    import collections
    base = ctx.mkdtemp()
    drv = Driver("c18") if getattr(ctx, "driver_ok", True) else None
    try:
        ex = execute(scn, choices, base, strict=False)
        out = dict(n=0, hist=collections.Counter(), fails=[], mismatches=[])
        check_execution(scn, ex, choices, drv, out)
        _merge(ctx, out)
        ctx.evaluations += 1
        print("replay: scenario", json.dumps(scn))
        print("replay: schedule", [(st["tid"], st["label"]) for st in ex.trace])
        print("replay: history ", [(h["tid"], h["op"], h["inv"], h["resp"], h["res"]) for h in ex.hist])
        print("replay: final   ", dict(mem=ex.mem, entries=ex.entries, disk=ex.disk, status=ex.status))
        scn = getattr(ex, "scn", scn)
        print("replay: hazards ", hazards(ex, scn))
        print("replay: oracle  ", oracle_df(ex, scn) if scn.get("df") else oracle(ex, scn))
        if drv:
            print("replay: machine ", drv.ask(model_line(scn, ex)))
    finally:
        if drv:
            drv.close()
