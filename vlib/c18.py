"""C18 — the file cache is linearizable under concurrent get, update and unload.

Tie + failing-schedule search.  The REAL `klongpy.db.file_cache.FileCache` runs under a
cooperative deterministic scheduler (vlib/c18_sched.py): its lock, its executor and the
module-level `open` / `os` (exists, getsize, fsync) / `time` of `klongpy.db.file_cache` are
replaced by attribute assignment from here, so the interleaving at the granularity of lock
blocks, task submission/completion, future waits and file-system calls is chosen by the
harness.  Schedules are enumerated CHESS-style up to a preemption bound, each is run on the
real class and replayed into the Lean machine `Klong.C18` (kd_c18), and the complete call
history is checked against a sequential register model (Wing-Gong search).

A failing schedule is classified by the first *hazard window* it contains (computed from the
harness's own bookkeeping of the schedule, not from the failure):
    conc:get-miss||update-same-file   update(n) takes the lock while a load of n is in flight
    conc:unload||load-same-file       unload(n) takes the lock while a load of n is in flight
    conc:unload||write-same-file      unload(n) takes the lock while a write of n is in flight
    conc:safe:<clause>                no such window: the theorems of Klong.Props.C18 cover it
"""
import itertools
import json
import os
import shutil

from . import common
from .common import Driver, fields
from . import c18_sched as S

CLAIM = dict(
    text="Lean 4 theorems over the concurrent FileCache machine `Klong.C18` (lock blocks, task submission, each "
         "file-system call, future completion and wait as atomic steps; schedule and eviction choice are inputs): "
         "structural lock invariant for every schedule and any number of threads; writers serialised, no call raises, "
         "every get returns the register value at its lock instant, and at quiescence disk = cache = last successful "
         "update with exact accounting, for every schedule without a load/write of a file in flight while that file is "
         "updated/unloaded; the full statement is refuted by decide on four concrete schedules. Tie: bounded-preemption "
         "enumeration of interleavings on the real class under a cooperative scheduler, each replayed step by step into "
         "the machine, histories checked by a linearizability search against a register.",
    note="trusted: Lean kernel, the cooperative scheduler and interposers (vlib/c18_sched.py), CPython, the step "
         "granularity (real preemption inside CPython/the OS is replaced by instrumented points; a write is one step); "
         "eviction order (heapq) is relational as in C16; PandasDataFrameCache.update's per-file lock is not explored",
    technique="Lean 4 invariant proofs over a small-step concurrent machine + decide counterexamples; stateless "
              "model checking (preemption-bounded schedule enumeration) of the real code; linearizability oracle",
    design="7/C18")

MODULES = ["Klong.Props.C18"]
THEOREMS = [
    "Klong.C18.lock_inv",
    "Klong.C18.writers_serialised",
    "Klong.C18.lin_partial",
    "Klong.C18.not_lin_full",
    "Klong.C18.cex_update_during_load",
    "Klong.C18.cex_read_between_trunc_and_write",
    "Klong.C18.cex_unload_during_load",
    "Klong.C18.cex_unload_during_write",
]

HAZ_UPD_LOAD = "conc:get-miss||update-same-file"
HAZ_UNL_LOAD = "conc:unload||load-same-file"
HAZ_UNL_WRITE = "conc:unload||write-same-file"


# --------------------------------------------------------------------------- one execution

def first_label(op):
    return "exists" if op[0] == "get" else "lock"


class Exec:
    """result of one schedule on the real FileCache"""
    pass


def execute(scn, prefix, base, step_budget=300):
    """run scenario `scn` on the real FileCache following the choice list `prefix`
    (then: keep running the previous thread if it is enabled, else the first enabled one)"""
    import klongpy.db.file_cache as fcm
    root = os.path.join(base, "r")
    shutil.rmtree(root, ignore_errors=True)
    os.makedirs(root)
    for n, hx in scn["files"].items():
        with open(os.path.join(root, n), "wb") as f:
            f.write(bytes.fromhex(hx))
    sched = S.Sched(step_budget=step_budget)
    saved = {k: fcm.__dict__.get(k, None) for k in ("open", "os", "time")}
    had_open = "open" in fcm.__dict__
    ex = Exec()
    ex.hist = []
    fc = None
    try:
        fcm.open = S.make_open(sched, open)
        fcm.os = S.OsProxy(sched, os)
        fcm.time = S.Clock()
        fc = fcm.FileCache(max_memory=scn["max"], root_path=root)
        try:
            fc.executor.shutdown(wait=False)
        except Exception:
            pass
        fc.executor = S.FakeExecutor(sched)
        snap = {}

        def on_acquire():
            snap["before"] = set(fc.file_futures)

        def on_release(et):
            after = set(fc.file_futures)
            sched.note(removed=sorted(snap.get("before", set()) - after),
                       exc=(et.__name__ if et is not None else None))

        fc.file_futures_lock = S.FakeLock(sched, on_acquire, on_release)

        def client(tid, ops):
            def body():
                for k, op in enumerate(ops):
                    sched.first_point(first_label(op))
                    inv = sched.step
                    sched.note(op=[tid, k])
                    try:
                        if op[0] == "get":
                            res = ["data", bytes(fc.get_file(op[1])).hex()]
                        elif op[0] == "update":
                            r = fc.update_file(op[1], bytes.fromhex(op[2]), use_fsync=bool(op[3]))
                            res = ["applied", 1 if r else 0]
                        elif op[0] == "unload":
                            fc.unload_file(op[1])
                            res = ["done"]
                        else:
                            raise ValueError(op)
                    except S.SchedAbort:
                        raise
                    except FileNotFoundError:
                        res = ["notfound"]
                    except MemoryError:
                        res = ["memerr"]
                    except BaseException as e:
                        res = ["raises", type(e).__name__]
                    sched.me().skip = None
                    ex.hist.append(dict(tid=tid, k=k, op=op, inv=inv, resp=sched.step, res=res))
            return body

        def default(i, en, prev):
            return prev if prev in en else en[0]

        status = "ok"
        if scn.get("setup"):
            sched.spawn("S", "client", client("S", scn["setup"]))
            status = sched.run(default)
        ex.setup_steps = len(sched.trace)
        if status == "ok":
            sched.status = None
            for i, ops in enumerate(scn["threads"]):
                sched.spawn(f"T{i}", "client", client(f"T{i}", ops))

            def chooser(i, en, prev):
                j = i - ex.setup_steps
                if j < len(prefix):
                    return prefix[j]
                return default(i, en, prev)
            status = sched.run(chooser)
        ex.status = status
        ex.trace = sched.trace
        ex.crashes = [f"{t.tid}: {t.crash!r}" for t in sched.threads.values() if t.crash is not None]
        # ---- final state
        ex.futures = [dict(fid=f.fid, name=f.name, kind=f.kind, done=f.done(),
                           value=(bytes(f.value).hex() if f.value is not None and f.exc is None else None),
                           exc=(type(f.exc).__name__ if f.exc is not None else None),
                           data=(f.data.hex() if f.data is not None else None))
                      for f in fc.executor.futures]
        ex.mem = fc.current_memory_usage
        ex.entries = {n: dict(writing=bool(info[0]), size=int(info[1]), fid=getattr(info[2], "fid", -1))
                      for n, info in fc.file_futures.items()}
        ex.acc = sorted(fn for _, fn in fc.file_access_times)
        ex.disk = {}
        for n in sorted(os.listdir(root)):
            with open(os.path.join(root, n), "rb") as f:
                ex.disk[n] = f.read().hex()
    finally:
        ex.leaked = sched.shutdown()
        for k, v in saved.items():
            if k == "open" and not had_open:
                fcm.__dict__.pop("open", None)
            else:
                setattr(fcm, k, v)
        shutil.rmtree(root, ignore_errors=True)
    return ex


# --------------------------------------------------------------------------- hazards (schedule classes)

def task_windows(ex):
    """fid -> (name, kind, submit step, step of its final lock block or of its completion)"""
    w = {}
    for i, st in enumerate(ex.trace):
        if "submitted" in st:
            f = ex.futures[st["submitted"]]
            w[f["fid"]] = dict(name=f["name"], kind=f["kind"], start=i, end=None)
    for i, st in enumerate(ex.trace):
        tid = st["tid"]
        if tid.startswith("K"):
            fid = int(tid[1:])
            if fid in w and w[fid]["end"] is None and st["label"] in ("lock", "complete"):
                w[fid]["end"] = i
    return w

def op_of_step(ex, scn, i):
    """the client operation a client's step belongs to"""
    st = ex.trace[i]
    tid = st["tid"]
    if not (tid.startswith("T") or tid == "S"):
        return None
    # the op index is noted on the first step of every op; scan back
    for j in range(i, -1, -1):
        sj = ex.trace[j]
        if sj["tid"] == tid and "op" in sj:
            k = sj["op"][1]
            ops = scn["setup"] if tid == "S" else scn["threads"][int(tid[1:])]
            return ops[k]
    return None


def hazards(ex, scn):
    """list of (step, class) for every hazard window entered, in schedule order"""
    w = task_windows(ex)
    out = []
    for i, st in enumerate(ex.trace):
        if st["label"] != "lock" or st["tid"].startswith("K"):
            continue
        op = op_of_step(ex, scn, i)
        if op is None or op[0] not in ("update", "unload"):
            continue
        for fid, t in sorted(w.items()):
            if t["name"] == op[1] and t["start"] < i and (t["end"] is None or t["end"] > i):
                if op[0] == "update" and t["kind"] == "load":
                    out.append((i, HAZ_UPD_LOAD))
                elif op[0] == "unload" and t["kind"] == "load":
                    out.append((i, HAZ_UNL_LOAD))
                elif op[0] == "unload" and t["kind"] == "write":
                    out.append((i, HAZ_UNL_WRITE))
    return out


# --------------------------------------------------------------------------- linearizability oracle

def _lin_search(ops, init, maxmem, final):
    """Wing-Gong search over one register. ops: dicts(inv, resp, op, res).
    Returns (linearizable?, linearizable with final register value == final?)."""
    n = len(ops)
    best = [False, False]
    seen = set()

    def apply(reg, o):
        """-> list of possible next register values (empty = not consistent here)"""
        kind, res = o["op"][0], o["res"]
        if res[0] == "raises":
            if kind == "update":
                return [reg, o["op"][2]]        # lenient: the raise is reported separately
            return [reg]
        if kind == "get":
            if res[0] == "notfound":
                return [reg] if reg is None else []
            if res[0] == "memerr":
                return [reg] if reg is not None and len(reg) // 2 > maxmem else []
            return [reg] if reg is not None and res[1] == reg and len(reg) // 2 <= maxmem else []
        if kind == "update":
            if res[0] == "applied" and res[1] == 1:
                return [o["op"][2]]
            return [reg]                         # reported failure: no effect
        return [reg]                             # unload

    def go(done, reg):
        if best[1]:
            return
        key = (done, reg)
        if key in seen:
            return
        seen.add(key)
        if done == (1 << n) - 1:
            best[0] = True
            if reg == final:
                best[1] = True
            return
        rem = [i for i in range(n) if not done >> i & 1]
        for i in rem:
            # minimal: no other remaining op returned before this one was invoked
            if any(ops[j]["resp"] < ops[i]["inv"] for j in rem if j != i):
                continue
            for r2 in apply(reg, ops[i]):
                go(done | 1 << i, r2)

    go(0, init)
    return best[0], best[1]


def oracle(ex, scn):
    """the property's own oracle on one complete run. Returns list of (clause, expected, observed)."""
    fails = []
    if ex.crashes:
        raise common.Infra("harness thread crashed: " + "; ".join(ex.crashes))
    if ex.status != "ok":
        fails.append(("no-return:" + ex.status, "every call returns",
                      f"scheduler status {ex.status} after {len(ex.trace)} steps"))
        return fails
    for h in ex.hist:
        if h["res"][0] == "raises":
            fails.append(("raises:" + h["res"][1], "every call returns a value",
                          f"{h['tid']} {h['op']} raised {h['res'][1]}"))
    names = sorted(set(scn["files"]) | {h["op"][1] for h in ex.hist})
    nops = sum(len(t) for t in scn["threads"]) + len(scn.get("setup") or [])
    if len(ex.hist) != nops:
        fails.append(("no-return:missing", f"{nops} responses", f"{len(ex.hist)} responses"))
    for n in names:
        ops = [h for h in ex.hist if h["op"][1] == n]
        init = scn["files"].get(n)
        final = ex.disk.get(n)
        lin, lin_final = _lin_search(ops, init, scn["max"], final)
        if not lin:
            fails.append(("linearizability", f"a linearization of the calls on {n} (initial {init})",
                          [[h["tid"], h["op"], h["inv"], h["resp"], h["res"]] for h in ops]))
        elif not lin_final:
            fails.append(("final-disk", f"file {n} = last successful update in some linearization",
                          f"disk={final} history={[[h['tid'], h['op'], h['res']] for h in ops]}"))
    for f in ex.futures:
        if not f["done"]:
            fails.append(("no-return:task", "every task completes", f"task {f['fid']} {f['kind']} {f['name']} not done"))
    tot = 0
    for n, e in sorted(ex.entries.items()):
        tot += e["size"]
        fut = ex.futures[e["fid"]] if 0 <= e["fid"] < len(ex.futures) else None
        if e["writing"]:
            fails.append(("final-cache", f"entry {n} not writing at quiescence", "writing=True"))
        if fut is None or fut["value"] is None:
            fails.append(("final-cache", f"entry {n} holds contents", f"future {fut}"))
        else:
            if fut["value"] != ex.disk.get(n):
                fails.append(("final-cache", f"cached {n} == disk {ex.disk.get(n)}", f"cached {fut['value']}"))
            if len(fut["value"]) // 2 != e["size"]:
                fails.append(("accounting", f"entry {n} bytes == len(contents)={len(fut['value']) // 2}",
                              f"bytes={e['size']}"))
    if ex.mem != tot:
        fails.append(("accounting", f"current_memory_usage == sum(entries) == {tot}", f"{ex.mem}"))
    return fails


# --------------------------------------------------------------------------- enumeration

def preemptions(trace, start):
    c = 0
    for st in trace[start:]:
        if st["prev"] is not None and st["prev"] != st["tid"] and st["prev"] in st["enabled"]:
            c += 1
    return c


def explore(scn, base, bound, budget, on_exec):
    """stateless DFS over choice prefixes with at most `bound` preemptions; on_exec(ex, choices)"""
    stack = [[]]
    n = 0
    while stack and n < budget:
        prefix = stack.pop()
        ex = execute(scn, prefix, base)
        n += 1
        tr = ex.trace[ex.setup_steps:]
        choices = [st["tid"] for st in tr]
        on_exec(ex, choices)
        if ex.status not in ("ok", "deadlock"):
            continue
        pre = 0
        for i, st in enumerate(tr):
            prev = st["prev"] if i > 0 else None
            if i >= len(prefix):
                for alt in st["enabled"]:
                    if alt == st["tid"]:
                        continue
                    cost = 1 if (prev is not None and prev in st["enabled"] and alt != prev) else 0
                    if pre + cost <= bound:
                        stack.append(choices[:i] + [alt])
            if prev is not None and prev != st["tid"] and prev in st["enabled"]:
                pre += 1
    return n, bool(stack)


# --------------------------------------------------------------------------- tie to the Lean machine

def _cid(scn, tid):
    if tid == "S":
        return "C0"
    if tid.startswith("T"):
        return f"C{int(tid[1:]) + (1 if scn.get('setup') else 0)}"
    return tid


def _enc_op(op):
    if op[0] == "get":
        return f"g:{op[1]}"
    if op[0] == "unload":
        return f"x:{op[1]}"
    return f"u:{op[1]}:{op[2]}:{1 if op[3] else 0}"


def model_line(scn, ex):
    """the `run` request replaying the real run's schedule (and eviction choices) into kd_c18"""
    progs = ([scn["setup"]] if scn.get("setup") else []) + scn["threads"]
    steps = []
    for st in ex.trace:
        ev = []
        if st["tid"].startswith("K") and st["label"] == "lock":
            own = ex.futures[int(st["tid"][1:])]["name"]
            ev = [x for x in st.get("removed", []) if x != own or st.get("exc")]
        steps.append(f"{_cid(scn, st['tid'])}/{st['label']}/{'+'.join(ev)}")
    files = ",".join(f"{n}:{hx}" for n, hx in sorted(scn["files"].items()))
    return (f"run max={scn['max']} files={files} progs={'|'.join(';'.join(_enc_op(o) for o in p) for p in progs)} "
            f"sched={','.join(steps)}")


def _enc_res(res):
    if res[0] == "data":
        return "data:" + res[1]
    if res[0] == "applied":
        return f"applied:{res[1]}"
    if res[0] == "raises":
        return "raises:" + res[1]
    return res[0]


def real_view(scn, ex):
    """what the model reports, computed from the real run (same canonical form)"""
    order = (["S"] if scn.get("setup") else []) + [f"T{i}" for i in range(len(scn["threads"]))]
    en = ";".join(",".join(_cid(scn, t) for t in sorted(st["enabled"], key=lambda x: (x[0] == "K", int(x[1:] or 0) if x != "S" else -1)))
                  for st in ex.trace)
    ents = ",".join(sorted(f"{n}/{1 if e['writing'] else 0}/{e['size']}/{e['fid']}" for n, e in ex.entries.items()))
    disk = ",".join(sorted(f"{n}@{hx}" for n, hx in ex.disk.items()))
    tasks = ",".join(("ok:" + f["value"]) if f["done"] and f["exc"] is None and f["value"] is not None
                     else ("err:" + f["exc"]) if f["done"] and f["exc"] else "pending" for f in ex.futures)
    res = "|".join(";".join(_enc_res(h["res"]) for h in sorted((h for h in ex.hist if h["tid"] == t), key=lambda h: h["k"]))
                   for t in order)
    return dict(en=en, mem=str(ex.mem), entries=ents, acc=",".join(ex.acc), disk=disk, tasks=tasks, res=res)


def compare_model(scn, ex, reply):
    """-> None if the machine and the real run agree, else a short description"""
    f = fields(reply)
    if f["_"] != "ok":
        return f"machine refused the real schedule: {reply[:300]}"
    rv = real_view(scn, ex)
    if scn.get("setup"):        # during the setup phase the other clients have not been started yet
        ens = f.get("en", "").split(";")
        for i in range(min(ex.setup_steps, len(ens))):
            ens[i] = ",".join(w for w in ens[i].split(",") if w == "C0" or w.startswith("K"))
        f["en"] = ";".join(ens)
    for k in ("en", "mem", "entries", "acc", "disk", "tasks", "res"):
        if f.get(k, "") != rv[k]:
            return f"{k}: machine={f.get(k, '')!r} real={rv[k]!r}"
    if ex.status == "ok" and f.get("final", "") != "":
        return f"machine still has enabled steps at the end: {f.get('final')}"
    return None
