"""C17 — a completed key-value set survives a crash; an interrupted one harms no other key.

Tie between klongpy.db (file_cache._write_file / update_file, sys_fn_kvs.KeyValueStorage) and the
Lean crash model `Klong.C17`:

  translator   the statement skeleton of `_write_file` (order of makedirs / open('wb') / write /
               flush / fsync-if-flag / close / directory fsyncs) and the `use_fsync=True` constant of
               `KeyValueStorage.set` are read from the AST on every run and parametrise the model's
               `setOps`.
  (a) trace    `open`, `os` (fsync, makedirs/mkdir, open/close of directories) are interposed in
               module klongpy.db.file_cache by attribute assignment; the system-call level trace of
               every set in a seeded sequence of sets is recorded (the file object is a real
               BufferedWriter over a recording FileIO, so Python-level buffering is observed as the
               kernel sees it) and compared with the model's trace for the same sets, and the
               volatile view of the model is compared with the real directory after every call.
  (b) kernel   `WF .strict recorded = true`, `traceOf skeleton sets = recorded` and
               `WF .strict (traceOf skeleton sets) = true` are checked by the Lean kernel
               (`decide +kernel`) for every recorded sequence; with `crash_safety` this gives the
               property for that run's traces.
  (c) images   for every prefix of the trace and every loss choice of the model (`crash`) the image
               is written to a scratch directory and read by a fresh REAL KeyValueStorage; the
               result is compared with the model's `recover` and the property oracle is evaluated
               directly (completed keys read their last completed value; other keys never fail).
  thorough     a real (forked) writer process is killed with os._exit at every operation boundary.
"""
import ast
import io
import json
import os
import shutil

import numpy as np

from . import common
from .common import Driver, fields

CLAIM = dict(
    text="Lean 4 theorem crash_safety over an explicit POSIX-style persistence model (volatile/durable views of "
         "directories, entries and contents; crash = independent none/all/byte-prefix loss of every unsynced effect; "
         "strict and journalled-dirent variants): for every well-formed trace of any number of sets, every prefix and "
         "every crash image, every key other than the one being written reads its last completed value (or :undefined). "
         "Tied to klongpy.db by the AST skeleton of _write_file, the recorded system-call trace of seeded set sequences "
         "(kernel-checked WF per run), and materialised crash images read back by the real KeyValueStorage.",
    note="trusted: Lean kernel (propext/Classical.choice/Quot.sound), the interposer/recorder and image materialiser, "
         "CPython io.BufferedWriter/pickle, and above all the persistence model itself, which REPLACES the kernel, the "
         "file system and the disk (what a device does with fsync is outside); store root exists durably; keys are not "
         "path prefixes of each other; one writer",
    technique="Lean 4 invariant proof over a crash model + per-run kernel-decided trace obligation + exhaustive crash-image "
              "materialisation against the real store",
    design="7/C17")

MODULES = ["Klong.Props.C17", "Klong.Props.C17Gen"]
THEOREMS = [
    "Klong.C17.crash_safety",
    "Klong.C17.crash_safety_core",
    "Klong.C17.completed_set_is_durable",
    "Klong.C17.WF_prefix",
    "Klong.C17.fixed_write_path_wf",
    "Klong.C17.scratchOf_fixed",
    "Klong.C17.kvs_crash_safe",
    "Klong.C17.rename_without_dir_fsync_loses_completed_overwrite",
    "Klong.C17.rename_with_dir_fsync_wf",
    "Klong.C17.overwrite_can_lose_old_value_of_same_key",
    "Klong.C17.pinned_small_value_not_durable",
    "Klong.C17.pinned_new_key_can_vanish_strict",
]

KEYS = ["a", "b", "c", "p/a", "p/b", "q/r/a", "q/r/b", "q/c",       # prefix-free
        "logs/app", "logs\\app"]   # look-alikes: on POSIX `logs\app` is a flat file of that name in the root
# keys differing only in separator style, for the key -> path injectivity check (pure, no file system)
LOOKALIKES = ["/a", "a//b", "a/b", "p//a", "p\\a", "/p/a", "q/r//a", "q\\r\\a", "logs//app", "/logs/app", "./b", "b/", "a/../b", ".."]
COMP = {}                                                          # path component -> number


def _comp(name):
    if name not in COMP:
        COMP[name] = len(COMP) + 1
    return COMP[name]


for _k in KEYS:
    for _c in _k.split("/"):
        _comp(_c)


def UNCOMP(n):
    for k, v in COMP.items():
        if v == n:
            return k
    raise KeyError(n)


def wpath(rel):
    """'q/r/a' -> '3.4.1' (wire form); '' or '.' -> '-' (the root)"""
    if rel in ("", "."):
        return "-"
    if rel.startswith("OUTSIDE"):
        return "OUTSIDE"
    return ".".join(str(_comp(c)) for c in rel.split("/"))


def lpath(rel):
    if rel in ("", "."):
        return "[]"
    return "[" + ", ".join(str(_comp(c)) for c in rel.split("/")) + "]"


def unwpath(w):
    return "" if w == "-" else "/".join(UNCOMP(int(x)) for x in w.split("."))


# --------------------------------------------------------------------------- translator

class SkeletonError(Exception):
    pass


def _is_name(node, name):
    return isinstance(node, ast.Name) and node.id == name


def _call_name(call):
    """dotted name of a call target, e.g. os.path.join / self._fsync_dir / f.write"""
    parts = []
    f = call.func
    while isinstance(f, ast.Attribute):
        parts.append(f.attr)
        f = f.value
    if isinstance(f, ast.Name):
        parts.append(f.id)
    else:
        return None
    return ".".join(reversed(parts))


PURE_CALLS = {"os.path.join", "os.path.dirname", "self.process_contents", "self.update_file_futures_and_memory", "len"}


def extract_skeleton(repo):
    """walk FileCache._write_file in statement order and emit the model's skeleton tokens"""
    src = (repo / "klongpy/db/file_cache.py").read_text()
    tree = ast.parse(src)
    fn = None
    for cls in tree.body:
        if isinstance(cls, ast.ClassDef) and cls.name == "FileCache":
            for n in cls.body:
                if isinstance(n, ast.FunctionDef) and n.name == "_write_file":
                    fn = n
    if fn is None:
        raise SkeletonError("FileCache._write_file not found")
    params = [a.arg for a in fn.args.args]
    if params != ["self", "file_name", "new_file_contents", "use_fsync"]:
        raise SkeletonError(f"unexpected parameters {params}")
    toks = []
    scan_vars = set()

    def calls_in(node):
        return [n for n in ast.walk(node) if isinstance(n, ast.Call)]

    def pure(node):
        return all(_call_name(c) in PURE_CALLS for c in calls_in(node))

    def stmt(s, cond, fvar):
        q = "?" if cond else ""
        if isinstance(s, ast.Expr) and isinstance(s.value, ast.Constant):
            return
        if isinstance(s, ast.Return):
            if not pure(s):
                raise SkeletonError("return with an effectful call")
            return
        if isinstance(s, ast.Assign):
            names = [_call_name(c) for c in calls_in(s.value)]
            if "self._dirs_gaining_entry" in names:
                # x = self._dirs_gaining_entry(path) [if use_fsync else []]
                if not (len(s.targets) == 1 and isinstance(s.targets[0], ast.Name)):
                    raise SkeletonError("scan target")
                scan_vars.add(s.targets[0].id)
                toks.append("scan")
                return
            if pure(s.value):
                return
            raise SkeletonError(f"line {s.lineno}: assignment with unrecognised call {names}")
        if isinstance(s, ast.Expr) and isinstance(s.value, ast.Call):
            c = s.value
            name = _call_name(c)
            if name == "os.makedirs":
                ok = any(kw.arg == "exist_ok" and isinstance(kw.value, ast.Constant) and kw.value.value is True
                         for kw in c.keywords)
                if not ok or cond:
                    raise SkeletonError("os.makedirs without exist_ok=True / conditional")
                toks.append("makedirs")
                return
            if fvar and name == f"{fvar}.write":
                if len(c.args) == 1 and _is_name(c.args[0], "new_file_contents") and not cond:
                    toks.append("write")
                    return
                raise SkeletonError("write of something other than new_file_contents")
            if fvar and name == f"{fvar}.flush":
                toks.append("flush" + q)
                return
            if name == "os.fsync":
                a = c.args[0] if c.args else None
                if fvar and isinstance(a, ast.Call) and _call_name(a) == f"{fvar}.fileno":
                    toks.append("fsync" + q)
                    return
                raise SkeletonError("os.fsync of something other than the value file")
            if name in PURE_CALLS and pure(c):
                return
            raise SkeletonError(f"line {s.lineno}: unrecognised call {name}")
        if isinstance(s, ast.With):
            if len(s.items) != 1 or cond:
                raise SkeletonError("with shape")
            it = s.items[0]
            c = it.context_expr
            if not (isinstance(c, ast.Call) and _call_name(c) == "open" and len(c.args) == 2
                    and isinstance(c.args[1], ast.Constant) and c.args[1].value == "wb"
                    and isinstance(it.optional_vars, ast.Name) and pure(c.args[0])):
                raise SkeletonError("with is not `open(path, 'wb') as f`")
            toks.append("open")
            for b in s.body:
                stmt(b, cond, it.optional_vars.id)
            toks.append("close")
            return
        if isinstance(s, ast.If):
            if not _is_name(s.test, "use_fsync") or s.orelse or cond:
                raise SkeletonError(f"line {s.lineno}: if other than `if use_fsync:`")
            for b in s.body:
                stmt(b, True, fvar)
            return
        if isinstance(s, ast.For):
            if (_is_name(s.iter, next(iter(scan_vars), "")) and isinstance(s.target, ast.Name) and len(s.body) == 1
                    and isinstance(s.body[0], ast.Expr) and isinstance(s.body[0].value, ast.Call)
                    and _call_name(s.body[0].value) == "self._fsync_dir"
                    and len(s.body[0].value.args) == 1 and _is_name(s.body[0].value.args[0], s.target.id)
                    and not s.orelse and fvar is None):
                toks.append("fsyncnew" + q)
                return
            raise SkeletonError(f"line {s.lineno}: unrecognised for loop")
        raise SkeletonError(f"line {s.lineno}: unrecognised statement {type(s).__name__}")

    for s in fn.body:
        stmt(s, False, None)

    # `scan`: only components that do not exist yet; `scanall`: the whole chain up to the directory holding the root
    if "scan" in toks:
        dge = None
        for cls in tree.body:
            if isinstance(cls, ast.ClassDef) and cls.name == "FileCache":
                for n in cls.body:
                    if isinstance(n, ast.FunctionDef) and n.name == "_dirs_gaining_entry":
                        dge = n
        if dge is None:
            raise SkeletonError("_dirs_gaining_entry not found")
        args = [a.arg for a in dge.args.args]
        src_dge = ast.unparse(dge)
        if args == ["path"] and "root_path" not in src_dge and "while not os.path.exists(path)" in src_dge:
            pass
        elif args == ["self", "path"] and "self.root_path" in src_dge and "while path != root" in src_dge:
            toks[toks.index("scan")] = "scanall"
        else:
            raise SkeletonError("_dirs_gaining_entry has an unrecognised shape")

    # update_file must wait for the worker: `future.result()` as a statement after the lock block
    waits = False
    for cls in tree.body:
        if isinstance(cls, ast.ClassDef) and cls.name == "FileCache":
            for n in cls.body:
                if isinstance(n, ast.FunctionDef) and n.name == "update_file":
                    for s in n.body:
                        if (isinstance(s, ast.Expr) and isinstance(s.value, ast.Call)
                                and _call_name(s.value) == "future.result"):
                            waits = True
    # the flag the store passes
    flag = None
    ksrc = ast.parse((repo / "klongpy/db/sys_fn_kvs.py").read_text())
    for cls in ksrc.body:
        if isinstance(cls, ast.ClassDef) and cls.name == "KeyValueStorage":
            for n in cls.body:
                if isinstance(n, ast.FunctionDef) and n.name == "set":
                    for c in calls_in(n):
                        if getattr(c.func, "attr", "") == "update_file":
                            flag = False          # default of update_file
                            for kw in c.keywords:
                                if kw.arg == "use_fsync":
                                    flag = bool(ast.literal_eval(kw.value))
    return toks, flag, waits


# --------------------------------------------------------------------------- recorder

class _Kill(BaseException):
    pass


class Recorder:
    """system-call level trace of what klongpy.db.file_cache does under `root`"""

    def __init__(self, root, bufsize=None, kill_at=None, snapshot=True, fault_at=None, park_at=None):
        import threading
        self.fault_at = fault_at     # raise one transient OSError instead of performing op number fault_at
        self.fault_fired = False
        self.park_at = park_at       # the thread about to perform op number park_at waits until released
        self.parked = threading.Event()
        self.resume = threading.Event()
        self.park_done = False
        self.park_timeout = False
        self.root = os.path.realpath(root)
        self.bufsize = bufsize
        self.ops = []            # wire strings
        self.snaps = []          # real directory after each op
        self.kill_at = kill_at   # child process: os._exit before performing op number kill_at
        self.snapshot = snapshot
        self.fd_file = {}
        self.fd_dir = {}
        self.default_bufsize = None

    def rel(self, path):
        p = os.path.realpath(path)
        if p == self.root:
            return ""
        if not p.startswith(self.root + os.sep):
            return "OUTSIDE"
        return os.path.relpath(p, self.root)

    # every operation: boundary first (kill point), then perform, then record + snapshot
    def boundary(self, faultable=True):
        n = len(self.ops)
        if self.kill_at is not None and n == self.kill_at:
            os._exit(17)
        if not faultable:
            return
        if self.park_at is not None and n >= self.park_at and not self.park_done:
            self.park_done = True
            self.parked.set()
            if not self.resume.wait(30):
                self.park_timeout = True
        if self.fault_at is not None and n >= self.fault_at and not self.fault_fired:
            import errno
            self.fault_fired = True
            raise OSError(errno.EIO, "injected transient I/O error (verification harness)")

    def done(self, op):
        self.ops.append(op)
        if self.snapshot:
            self.snaps.append(listing(self.root))

    def marker(self, op):
        self.boundary(faultable=False)
        self.done(op)

    def install(self):
        import klongpy.db.file_cache as fcm
        rec = self
        real_open = io.open
        real_os = os

        class RecFileIO(io.FileIO):
            def write(self, b):
                rec.boundary()
                data = bytes(b)
                n = super().write(b)
                rec.done(f"write:{wpath(self._rel)}:{data[:n].hex()}")
                return n

            def close(self):
                if not self.closed:
                    rec.boundary(faultable=False)
                    fd = self.fileno()
                    super().close()
                    rec.fd_file.pop(fd, None)
                    rec.done(f"close:{wpath(self._rel)}")
                else:
                    super().close()

        def fake_open(path, mode="r", *a, **kw):
            if mode != "wb" or a or kw:
                return real_open(path, mode, *a, **kw)
            rec.boundary()
            raw = RecFileIO(path, "w")
            raw._rel = rec.rel(path)
            rec.fd_file[raw.fileno()] = raw._rel
            rec.done(f"creat:{wpath(raw._rel)}")
            bs = rec.bufsize
            if bs is None:          # what io.open does (CPython 3.12)
                bs = io.DEFAULT_BUFFER_SIZE
                try:
                    blk = real_os.fstat(raw.fileno()).st_blksize
                    if blk > 1:
                        bs = blk
                except (OSError, AttributeError):
                    pass
                rec.default_bufsize = bs
            return io.BufferedWriter(raw, bs)

        class FakeOs:
            def __getattr__(self, name):
                return getattr(real_os, name)

            @staticmethod
            def fsync(fd):
                rec.boundary()
                real_os.fsync(fd)
                if fd in rec.fd_dir:
                    rec.done(f"fsyncdir:{wpath(rec.fd_dir[fd])}")
                elif fd in rec.fd_file:
                    rec.done(f"fsync:{wpath(rec.fd_file[fd])}")
                else:
                    rec.done(f"fsync:UNKNOWN-FD")

            @staticmethod
            def makedirs(name, mode=0o777, exist_ok=False):
                # the real os.makedirs, with its per-directory mkdir calls recorded
                real_mkdir = real_os.mkdir

                def rec_mkdir(p, *a, **kw):
                    rec.boundary()
                    real_mkdir(p, *a, **kw)
                    rec.done(f"mkdir:{wpath(rec.rel(p))}")
                real_os.mkdir = rec_mkdir
                try:
                    return real_os.makedirs(name, mode, exist_ok=exist_ok)
                finally:
                    real_os.mkdir = real_mkdir

            @staticmethod
            def mkdir(p, *a, **kw):
                rec.boundary()
                real_os.mkdir(p, *a, **kw)
                rec.done(f"mkdir:{wpath(rec.rel(p))}")

            @staticmethod
            def open(path, flags, *a, **kw):
                fd = real_os.open(path, flags, *a, **kw)
                if real_os.path.isdir(path):
                    rec.fd_dir[fd] = rec.rel(path)
                else:
                    rec.done(f"osopen:{wpath(rec.rel(path))}")     # not modelled: shows up as a trace mismatch
                    rec.fd_file[fd] = rec.rel(path)
                return fd

            @staticmethod
            def close(fd):
                rec.fd_dir.pop(fd, None)
                rec.fd_file.pop(fd, None)
                return real_os.close(fd)

            @staticmethod
            def replace(src, dst, *a, **kw):
                rec.boundary()
                real_os.replace(src, dst, *a, **kw)
                rec.done(f"rename:{wpath(rec.rel(src))}:{wpath(rec.rel(dst))}")

            @staticmethod
            def rename(src, dst, *a, **kw):
                rec.boundary()
                real_os.rename(src, dst, *a, **kw)
                rec.done(f"rename:{wpath(rec.rel(src))}:{wpath(rec.rel(dst))}")

            @staticmethod
            def unlink(path, *a, **kw):
                rec.boundary()
                real_os.unlink(path, *a, **kw)
                rec.done(f"unlink:{wpath(rec.rel(path))}")

            remove = unlink

            @staticmethod
            def _other(name):
                def f(*a, **kw):
                    rec.done(f"{name}:UNMODELLED")
                    return getattr(real_os, name)(*a, **kw)
                return f

        fos = FakeOs()
        for nm in ("rmdir", "truncate", "ftruncate", "link", "symlink",
                   "write", "fdatasync", "sync"):
            setattr(fos, nm, FakeOs._other(nm))
        self.fos = fos
        self._saved = (fcm.__dict__.get("open", None), fcm.os)
        fcm.open = fake_open
        fcm.os = fos
        self.fcm = fcm
        # the store module itself (KeyValueStorage.__init__ may touch the file system when a store is opened)
        import klongpy.db.sys_fn_kvs as kvm
        self.kvm = kvm
        self._saved_kvm = (kvm.__dict__.get("os", None), kvm.__dict__.get("open", None))
        kvm.os = fos
        kvm.open = fake_open

    def uninstall(self):
        saved_open, saved_os = self._saved
        if saved_open is None:
            self.fcm.__dict__.pop("open", None)
        else:
            self.fcm.open = saved_open
        self.fcm.os = saved_os
        kos, kopen = self._saved_kvm
        for name, val in (("os", kos), ("open", kopen)):
            if val is None:
                self.kvm.__dict__.pop(name, None)
            else:
                setattr(self.kvm, name, val)


def listing(root):
    """canonical volatile view of a real directory: (sorted dirs, sorted file@hex), as the model prints them"""
    ds, fs = [], []
    for dp, dn, fn in os.walk(root):
        for d in dn:
            ds.append(wpath(os.path.relpath(os.path.join(dp, d), root)))
        for f in fn:
            full = os.path.join(dp, f)
            with io.open(full, "rb") as fh:
                fs.append(f"{wpath(os.path.relpath(full, root))}@{fh.read().hex()}")
    return ",".join(sorted(ds)), ",".join(sorted(fs))


# --------------------------------------------------------------------------- values

def canon(v):
    import klongpy.core as core
    if v is core.KLONG_UNDEFINED or type(v).__name__ == "KGUndefined":
        return "U"
    if isinstance(v, np.ndarray):
        return ["nd"] + [canon(x) for x in v.tolist()]
    if isinstance(v, (list, tuple)):
        return [canon(x) for x in v]
    if isinstance(v, (bool, np.bool_, np.integer)):
        return int(v)
    if isinstance(v, np.floating):
        return float(v)
    return v


def gen_value(rng):
    r = rng.random()
    if r < 0.25:
        return rng.choice([0, 1, -3, 17, 2 ** 40])
    if r < 0.35:
        return rng.choice([0.5, -2.5])
    if r < 0.6:
        return rng.choice(["", "a", "abc", 'say "hi"', "hello foo"])
    if r < 0.85:
        return [rng.randrange(-5, 100) for _ in range(rng.randrange(0, 5))]
    if r < 0.95:
        return [1, [2, "x"], 2.5]
    return "x" * rng.choice([40, 70])


def expand(v):
    """large values travel as {"repeat": s, "n": n} in cases/replays"""
    if isinstance(v, dict) and "repeat" in v:
        return v["repeat"] * v["n"]
    return v


def _short(x, n=120):
    t = x if isinstance(x, str) else repr(x)
    return t if len(t) <= n else f"{t[:60]}...({len(t)} chars)...{t[-20:]}"


def gen_big_value(rng):
    """a string whose PICKLE length sits at / just past a buffer or window boundary"""
    from klongpy.db.helpers import serialize_obj
    over = len(serialize_obj("x" * 1000)) - 1000
    unit = rng.choice([4096, 8192, 65536, 65536, 65536, 131072, 196608])
    extra = rng.choice([0, 1, 1, 5, 100, 300, rng.randrange(1, 4096), rng.randrange(1, 4096), 4095, 4096, 8191, 20000])
    return {"repeat": "x", "n": max(300, unit + extra - over)}


def read_store(root, keys):
    """what a fresh REAL KeyValueStorage reads for every key: (kind, canonical value | exception name, raw bytes)"""
    from klongpy.db.sys_fn_kvs import KeyValueStorage
    store = KeyValueStorage(root)
    out = {}
    try:
        for k in keys:
            try:
                v = store.get(k)
                c = canon(v)
                out[k] = ("undef", None) if c == "U" else ("val", c)
            except Exception as e:                     # noqa: the oracle classifies every failure
                out[k] = ("raises", type(e).__name__)
            try:
                raw = store.cache.get_file(k)
                out[k] += (bytes(raw).hex(),)
            except FileNotFoundError:
                out[k] += ("missing",)
            except Exception as e:                     # noqa
                out[k] += ("raises:" + type(e).__name__,)
    finally:
        store.cache.executor.shutdown(wait=True)
    return out


def materialise(base, img):
    """write a model image 'dirs=..;files=..' (reachable part) to a fresh directory"""
    shutil.rmtree(base, ignore_errors=True)
    os.makedirs(base)
    dirs, files = img
    for d in sorted(dirs, key=lambda x: x.count("/")):
        os.mkdir(os.path.join(base, d))
    for f, hx in files:
        with io.open(os.path.join(base, f), "wb") as fh:
            fh.write(bytes.fromhex(hx))


def parse_image(s):
    """'dirs=1,1.2;files=1.2.3@0a0b;rec=...' -> ((dirs, files), rec)"""
    parts = dict(p.split("=", 1) for p in s.split(";"))
    dirs = [unwpath(x) for x in parts["dirs"].split(",") if x]
    files = []
    for x in parts["files"].split(","):
        if x:
            p, hx = x.split("@")
            files.append((unwpath(p), hx))
    rec = {}
    for x in parts.get("rec", "").split(","):
        if x:
            p, hx = x.split("@")
            rec[unwpath(p)] = hx
    return (dirs, files), rec


def ghost(ops):
    """completed sets (last value per key, as pickled hex), the keys in progress and the dirty keys (their set was
    abandoned — process kill or exception — and no set of them has completed since), from the markers
    begin:<key>:<value> / ret (or ret:<key> when sets overlap) / kill"""
    curs, done = {}, {}
    HISTORY.clear()
    DIRTY.clear()
    INPROG.clear()
    for o in ops:
        if o.startswith("begin:"):
            _, k, v = o.split(":")
            curs[unwpath(k)] = v
        elif (o == "ret" or o.startswith("ret:")) and curs:
            k = unwpath(o.split(":")[1]) if ":" in o else list(curs)[-1]
            if k in curs:
                v = curs.pop(k)
                HISTORY.setdefault(k, []).append(v)
                done[k] = v
                DIRTY.discard(k)
        elif o == "kill":
            DIRTY.update(curs)
            curs.clear()
    INPROG.update(curs)
    return (list(curs)[-1] if curs else None), done


INPROG = set()    # filled by ghost()
DIRTY = set()     # filled by ghost()
HISTORY = {}      # key -> all completed values (pickled hex), oldest first; filled by ghost()



# --------------------------------------------------------------------------- independent Python crash simulator
# (strict variant).  Used as the image source when the Lean model did not build, and as a cross-check of the
# model's `crash` enumeration otherwise.

def _anc(p):
    parts = p.split("/")
    return ["/".join(parts[:i]) for i in range(1, len(parts))]


def _par(p):
    return p.rsplit("/", 1)[0] if "/" in p else ""


def _py_choices(st, f):
    """what path f may show after a crash: its alternatives, or what it names now"""
    cur = (sorted(set(_contents(st["dcont"].get(f, b""), st["pend"].get(f, [])))) if f in st["vfiles"] else [None])
    return list(st["alt"].get(f, [])) + cur


def py_state(ops):
    st = dict(vdirs=[], vfiles={}, ddirs=set(), alt={}, dcont={}, pend={})
    for o in ops:
        p = o.split(":")
        a = unwpath(p[1]) if len(p) > 1 and p[0] != "begin" else None
        if p[0] == "mkdir":
            st["vdirs"].append(a)
        elif p[0] == "creat":
            if a in st["vfiles"]:
                st["pend"].setdefault(a, []).append(("trunc",))
            else:
                st["alt"][a] = _py_choices(st, a)
                st["dcont"][a] = b""
                st["pend"][a] = []
            st["vfiles"][a] = b""
        elif p[0] == "write":
            data = bytes.fromhex(p[2])
            st["pend"].setdefault(a, []).append(("write", len(st["vfiles"].get(a, b"")), data))
            st["vfiles"][a] = st["vfiles"].get(a, b"") + data
        elif p[0] == "fsync":
            st["dcont"][a] = st["vfiles"].get(a, b"")
            st["pend"][a] = []
        elif p[0] == "fsyncdir":
            st["ddirs"] |= {d for d in st["vdirs"] if _par(d) == a}
            st["alt"] = {f: x for f, x in st["alt"].items() if _par(f) != a}
        elif p[0] == "rename":
            b = unwpath(p[2])
            ca, cb = _py_choices(st, a), _py_choices(st, b)
            st["vfiles"][b] = st["vfiles"].pop(a, b"")
            st["dcont"][b] = st["dcont"].pop(a, b"")
            st["pend"][b] = st["pend"].pop(a, [])
            st["alt"][a] = ca
            st["alt"][b] = cb
        elif p[0] == "unlink":
            ca = _py_choices(st, a)
            st["vfiles"].pop(a, None)
            st["dcont"].pop(a, None)
            st["pend"].pop(a, None)
            st["alt"][a] = ca
    return st


def _contents(c, effs):
    if not effs:
        return [c]
    e, rest = effs[0], effs[1:]
    out = _contents(c, rest)
    if e[0] == "trunc":
        out += _contents(b"", rest)
    else:
        _, off, data = e
        for j in range(1, len(data) + 1):
            d = data[:j]
            c2 = c[:off] + b"\0" * (off - len(c)) + d + c[off + len(d):]
            out += _contents(c2, rest)
    return out


def py_images(ops, limit=20000):
    """set of reachable crash images 'dirs=..;files=..' (None if more than `limit` raw combinations)"""
    import itertools
    st = py_state(ops)
    opt = [d for d in st["vdirs"] if d not in st["ddirs"]]
    per_file = []
    total = 2 ** len(opt)
    for f in list(st["vfiles"]) + [f for f in st["alt"] if f not in st["vfiles"]]:
        ch = []
        for c in _py_choices(st, f):
            if c not in ch:
                ch.append(c)
        per_file.append((f, ch))
        total *= len(ch)
    if total > limit:
        return None
    out = set()
    for r in range(len(opt) + 1):
        for sub in itertools.combinations(opt, r):
            D = set(sub) | st["ddirs"]
            reach = lambda p: all(x in D for x in _anc(p))
            ds = ",".join(sorted(wpath(d) for d in D if reach(d)))
            for combo in itertools.product(*[ch for _, ch in per_file]):
                fs = ",".join(sorted(f"{wpath(f)}@{c.hex()}" for (f, _), c in zip(per_file, combo)
                                     if c is not None and reach(f)))
                out.add(f"dirs={ds};files={fs}")
    return out


# --------------------------------------------------------------------------- one sequence

def _apply_eff(c, e):
    if e[0] == "trunc":
        return b""
    _, off, d = e
    return c[:off] + b"\0" * (off - len(c)) + d + c[off + len(d):]


def py_sample_images(ops, rng, n):
    """crash images drawn from the same space as py_images without enumerating it (for traces with large
    writes, whose byte-prefix choices alone run into the 10^5s): the two extremes (every unsynced effect lost /
    kept), 'only the last pending write of every file lost / cut', and n random draws"""
    st = py_state(ops)
    opt = [d for d in st["vdirs"] if d not in st["ddirs"]]
    paths = list(st["vfiles"]) + [f for f in st["alt"] if f not in st["vfiles"]]
    out = []
    for mode in ["lost", "kept", "drop-last", "cut-last"] + ["rand"] * n:
        if mode == "lost":
            D = set(st["ddirs"])
        elif mode == "rand":
            D = set(st["ddirs"]) | {d for d in opt if rng.random() < 0.5}
        else:
            D = set(st["ddirs"]) | set(opt)
        reach = lambda p: all(x in D for x in _anc(p))
        files = []
        for f in paths:
            alts = st["alt"].get(f, [])
            effs = st["pend"].get(f, [])
            c = st["dcont"].get(f, b"") if f in st["vfiles"] else None
            if mode == "lost":
                c = alts[0] if alts else c
            elif mode == "rand" and alts and rng.random() < len(alts) / (len(alts) + 1.0):
                c = rng.choice(alts)
            elif c is not None:
                for i, e in enumerate(effs):
                    last = i == len(effs) - 1
                    if mode == "kept" or (mode in ("drop-last", "cut-last") and not last):
                        c = _apply_eff(c, e)
                    elif mode == "drop-last":
                        pass
                    elif mode == "cut-last":
                        if e[0] == "write" and len(e[2]) > 1:
                            c = _apply_eff(c, ("write", e[1], e[2][:rng.randrange(1, len(e[2]))]))
                    else:
                        r = rng.random()
                        if r < 0.34:
                            pass
                        elif r < 0.67 or e[0] == "trunc" or len(e[2]) < 2:
                            c = _apply_eff(c, e)
                        else:
                            c = _apply_eff(c, ("write", e[1], e[2][:rng.randrange(1, len(e[2]))]))
            if c is not None and reach(f):
                files.append(f"{wpath(f)}@{c.hex()}")
        ds = ",".join(sorted(wpath(d) for d in D if reach(d)))
        img = f"dirs={ds};files={','.join(sorted(files))}"
        if img not in out:
            out.append(img)
    return out


GET = "<get>"


def full(R, k):
    return f"{R}/{k}" if R else k


REOPEN = "<reopen>"
PRE = "s0"        # first component of a store root that exists (durably) before the store is opened


def precreate(rec, root, R):
    """an existing, durable directory below the base (made by the harness through the recorder, so that it is part
    of the trace): the store root, or the directory a fresh store root is created in"""
    s0 = os.path.join(root, PRE)
    if R.split("/")[0] == PRE and not os.path.isdir(s0):
        rec.fos.mkdir(s0)
        fd = os.open(root, os.O_RDONLY)
        rec.fd_dir[fd] = ""
        try:
            rec.fos.fsync(fd)
        finally:
            rec.fd_dir.pop(fd, None)
            os.close(fd)


def real_run(ctx, sets, bufsize, kill_at=None, root=None, snapshot=True, R="", fault_at=None):
    """run the actions on the real store under the recorder; `root` is the (existing) base directory the trace is
    relative to, the store lives at root/R (R may name directories that do not exist yet) and is opened INSIDE
    the recorded region.  Actions: (key, value) = a set; (key, GET) = a get (no marker, result ignored);
    (REOPEN, None) = drop the store object and open a new one.  With fault_at, one transient OSError is raised
    instead of the file-system operation number fault_at; a set that raises after the fault is recorded as
    `kill` (the set is abandoned and promises nothing) and the run goes on.
    Returns (recorder, unexpected exception or None)"""
    from klongpy.db.sys_fn_kvs import KeyValueStorage
    from klongpy.db.helpers import serialize_obj
    rec = Recorder(root, bufsize, kill_at=kill_at, snapshot=snapshot, fault_at=fault_at)
    rec.install()
    store = None
    err = None
    where = os.path.join(root, R) if R else root
    try:
        precreate(rec, root, R)
        store = KeyValueStorage(where)
        for k, v in sets:
            if k == REOPEN:
                store.cache.executor.shutdown(wait=True)
                store = KeyValueStorage(where)
                continue
            if v == GET:
                try:
                    store.get(k)
                except Exception:                       # noqa: an interrupted key may be unreadable
                    pass
                continue
            v = expand(v)
            rec.marker(f"begin:{wpath(full(R, k))}:{serialize_obj(v).hex()}")
            try:
                store.set(k, v)
            except Exception as e:                      # noqa
                if not rec.fault_fired:
                    raise
                rec.raised = getattr(rec, "raised", 0) + 1
                rec.marker("kill")                      # the set raised: abandoned, nothing promised
                continue
            rec.marker("ret")
    except Exception as e:                             # noqa
        err = e
    finally:
        if store is not None:
            store.cache.executor.shutdown(wait=True)
        rec.uninstall()
    if kill_at is not None:
        rec.boundary()          # kill after the last operation
    return rec, err


def known_calls(ctx):
    return getattr(ctx, "_c17_known_calls", 0)


def ofail(ctx, key, *a, **kw):
    """ctx.oracle_fail, counting the failures that match a known finding (runs that hit one are not sent to the
    kernel: their WF obligation is known to be false)"""
    if ctx.known(key) is not None:
        ctx._c17_known_calls = known_calls(ctx) + 1
    return ctx.oracle_fail(key, *a, **kw)


def check_images(ctx, drv, ops_prefix, sets_json, bufsize, scratch, cap, label, big=False, R="", extra=None):
    """(c): crash images of the model after this prefix, materialised and read by the real store"""
    if len(ctx.oracle_failures) - getattr(ctx, "_c17_base", 0) >= 6 or len(ctx.oracle_failures) >= 50:
        # failing crash points of this sequence are already in hand; do not enumerate the (exploding)
        # image space of the rest of the sequence
        ctx.bump("prefixes-skipped-after-failures")
        return 0
    # keys read back on every image: the fixed universe plus every key this history has touched
    keys = list(KEYS)
    for o in ops_prefix:
        if o.startswith("begin:"):
            kk = unwpath(o.split(":")[1])
            kk = kk[len(R) + 1:] if R and kk.startswith(R + "/") else kk
            if kk not in keys:
                keys.append(kk)
    if big:
        # large writes: the image space is sampled by the Python simulator (same space as the model's `crash`)
        items = py_sample_images(ops_prefix, ctx.rng, 8)
        drv = None
        ctx.bump("prefixes-with-sampled-images-large-values")
    elif drv is not None:
        n = int(drv.ask("crashcount").split("=")[1])
        if n <= cap:
            idx = list(range(n))
        else:
            idx = sorted(set([0, n - 1] + [ctx.rng.randrange(n) for _ in range(cap)]))
            ctx.bump("prefixes-with-sampled-images")
        keyw = ",".join(wpath(full(R, k)) for k in keys)
        reply = drv.ask(f"images idx={','.join(map(str, idx))} keys={keyw}")
        if not reply.startswith("imgs="):
            raise common.Infra("driver: " + reply[:200])
        items = reply[5:].split("|")
        if n <= cap:
            # cross-check the model's enumeration against the independent Python simulator
            mine = py_images(ops_prefix)
            theirs = set(i.split(";rec=")[0] for i in items)
            if mine is not None and mine != theirs:
                ctx.mismatch("Klong.C17.crash vs independent Python crash enumeration",
                             dict(kind="crash-enum", sets=sets_json, bufsize=bufsize, prefix=len(ops_prefix)),
                             sorted(theirs - mine)[:5], sorted(mine - theirs)[:5])
    else:
        mine = py_images(ops_prefix, limit=cap * 50)
        if mine is None:
            ctx.bump("prefixes-skipped-too-many-images-without-model")
            return 0
        items = sorted(mine)
        if len(items) > cap:
            items = ctx.rng.sample(items, cap)
    seen = set()
    cur, done = ghost(ops_prefix)
    cls = (":" + extra["class"]) if extra and extra.get("class") else ""
    if extra and extra.get("parked_key"):
        cls_of = lambda k: cls + ("-parked" if k == extra["parked_key"] else "-running")
    elif extra and extra.get("class") == "after-fault-same-store":
        # the retried set itself (it returned, so it must be durable) vs. another key set later on the same store
        cls_of = lambda k: cls + ("-retried-key" if k == extra.get("target_key") else "-other-key")
    else:
        cls_of = lambda k: cls
    from klongpy.db.helpers import deserialize_obj
    for item in items:
        imgkey = item.split(";rec=")[0]
        if imgkey in seen:
            continue
        seen.add(imgkey)
        img, rec = parse_image(item)
        if drv is None:
            rec = None
        base = os.path.join(scratch, "img")
        materialise(base, img)
        got = read_store(os.path.join(base, R) if R else base, keys)
        case = dict(extra or {}, kind=(extra or {}).get("kind", "crash-point"), sets=sets_json, bufsize=bufsize,
                    root=R, prefix=len(ops_prefix),
                    last_op=_short(ops_prefix[-1], 200) if ops_prefix else None, image=_short(imgkey, 400),
                    in_progress=cur)
        ctx.count((tuple(ops_prefix), imgkey))
        ctx.bump("images")
        for k0 in keys:
            kind, val, raw = got[k0]
            k = full(R, k0)
            # ---- tie: model recover vs the bytes the real cache reads
            if rec is not None and rec.get(k, "missing") != raw:
                ctx.mismatch("Klong.C17.recover vs FileCache.get_file on a crash image", dict(case, key=k),
                             rec.get(k), raw)
            # ---- property oracle (needs no model: completed sets come from the begin/ret markers)
            if k in DIRTY and k not in INPROG:
                ctx.bump("dirty-key-skipped")      # its set was killed and no set of it has completed since
                continue
            if k in INPROG:
                old = done.get(k)
                new = [o for o in ops_prefix if o.startswith("begin:" + wpath(k) + ":")][-1].split(":")[2]
                ctx.bump("in-progress-key:" + ("raises" if kind == "raises" else "undefined" if kind == "undef"
                                               else "new" if raw == new else "old" if raw == old else "other"))
                continue
            if k in done:
                want = canon(deserialize_obj(bytes.fromhex(done[k])))
                wants = _short(want) if isinstance(want, str) else want
                if kind == "undef":
                    ofail(ctx, "kvs:crash:completed-key-missing" + cls_of(k), dict(case, key=k), wants, ":undefined",
                                    "a set that had returned is lost by a crash (its directory entry was never synced)")
                elif raw in HISTORY.get(k, [])[:-1] and raw != done[k]:
                    ofail(ctx, "kvs:crash:completed-key-reads-old-value" + cls_of(k), dict(case, key=k), wants, _short(f"{kind}:{val}"),
                                    "a set that had returned is undone by a crash: the store reads the PREVIOUS value "
                                    "(something the set relied on — a rename, or bytes left by a killed writer — "
                                    "was never synced)")
                elif kind == "raises" or val != want:
                    ofail(ctx, "kvs:crash:completed-key-corrupt" + cls_of(k), dict(case, key=k), wants,
                                    f"{_short(f'{kind}:{val}')} raw={raw[:80]} ({len(raw) // 2} bytes)",
                                    "a completed key reads back wrong on a crash image (its data was not synced, or "
                                    "the set in progress wrote to this key's file)"
                                    + (f"; set in progress: {cur!r}" if cur else ""))
            else:
                if kind != "undef":
                    ofail(ctx, "kvs:crash:other-key-fails" + cls_of(k), dict(case, key=k), ":undefined", f"{kind}:{val}",
                                    "a key that was never set must read :undefined on every crash image")
    ctx.bump(f"prefix-ends-in:{ops_prefix[-1].split(':')[0] if ops_prefix else 'empty'}")
    return len(seen)


def sk_for(sk, R):
    """the extracted skeleton, with the store root's depth for the whole-chain variant of _dirs_gaining_entry"""
    if sk is None:
        return None
    depth = len(R.split("/")) if R else 0
    return [f"scanall:{depth}" if t == "scanall" else t for t in sk]


def explore(ctx, drv, ops, snaps, actions, sets_json, bufsize, sk, flag, eff_buf, cap, label, top, big=False, R="",
            extra=None, images_from=0):
    """walk a recorded history (ops, with the real directory snapshot after each) through the model: every set is
    compared with the model's setOps, the volatile view with the snapshot, and after every operation the crash
    images are materialised and read by the real store.  Returns the model's WF verdict (None without driver)."""
    from klongpy.db.helpers import serialize_obj
    case0 = dict(extra or {}, kind=(extra or {}).get("kind", "set-sequence"), sets=sets_json, bufsize=bufsize, root=R)
    shorten = lambda l: [_short(o, 200) for o in l]
    kw = dict(big=big, R=R, extra=extra)
    if drv is None:
        for j in range(images_from, len(ops) + 1):
            check_images(ctx, None, ops[:j], sets_json, bufsize, top, cap, label, **kw)
        return None
    drv.ask("new variant=strict")
    if images_from == 0:
        check_images(ctx, drv, [], sets_json, bufsize, top, cap, label, **kw)      # before anything
    todo = [(k, v) for k, v in actions if v != GET]
    wf = True
    opening = True
    prelude = 2 if ops[:2] == [f"mkdir:{wpath(PRE)}", "fsyncdir:-"] else 0
    for i, o in enumerate(ops):
        if o.startswith("begin:"):
            opening = False
            k, v = todo.pop(0) if todo else (None, None)
            seg_end = i
            while seg_end < len(ops) and ops[seg_end] not in ("ret", "kill"):
                seg_end += 1
            rops = ops[i:seg_end + 1]
            if sk is not None and k is not None and rops[-1] == "ret":
                val = serialize_obj(expand(v)).hex()
                m = drv.ask(f"setops sk={','.join(sk_for(sk, R))} flag={1 if flag else 0} buf={eff_buf} k={wpath(full(R, k))} v={val}")
                mops = m[4:].split(";") if m.startswith("ops=") else [m]
                if mops != rops:
                    ctx.mismatch("Klong.C17.setOps(skeleton) vs recorded system-call trace of KeyValueStorage.set",
                                 dict(case0, set_key=k), shorten(mops), shorten(rops))
        elif opening and o != "kill" and i >= prelude:
            # FileCache/KeyValueStorage.__init__ are modelled as doing nothing to the file system
            ctx.mismatch("store open performs file-system operations (the model's open has none)",
                         dict(case0, op=_short(o, 200)), "no operation before the first set", _short(o, 200))
        if o == "kill":
            opening = True      # a new process opens the store again
        r = drv.ask("op " + o)
        if not r.startswith("ok "):
            ctx.mismatch("recorded operation outside the model", dict(case0, op=_short(o, 200)),
                         "an operation of the model", _short(o, 200))
            return False
        f = fields(r)
        wf = wf and f["good"] == "1"
        ctx.bump("wf-ops" if f["good"] == "1" else "non-wf-ops")
        # volatile view of the model vs the real directory after this call (after a kill: nothing was lost)
        if snaps is not None and snaps[i] is not None and (f["vdirs"], f["vfiles"]) != snaps[i]:
            ctx.mismatch("Klong.C17.Fs.step volatile view vs real directory", dict(case0, prefix=i + 1, op=_short(o, 200)),
                         shorten([f["vdirs"], f["vfiles"]]), shorten(snaps[i]))
        if i + 1 >= images_from:
            check_images(ctx, drv, ops[:i + 1], sets_json, bufsize, top, cap, label, **kw)
    return wf


def run_sequence(ctx, drv, sets, bufsize, sk, flag, cap, label="seq", R=""):
    """one seeded sequence of sets on a store at base/R (R = directories that do not exist yet when the store is
    opened): record, compare with the model, enumerate crash images"""
    from klongpy.db.helpers import serialize_obj
    top = ctx.mkdtemp()
    root = os.path.join(top, "base")
    os.makedirs(root)
    sets_json = [[k, v] for k, v in sets]
    ctx._c17_base = len(ctx.oracle_failures)
    known0 = known_calls(ctx)
    big = any(len(serialize_obj(expand(v))) > 3000 for _, v in sets if v != GET)
    try:
        rec, err = real_run(ctx, sets, bufsize, root=root, R=R)
        case0 = dict(kind="set-sequence", sets=sets_json, bufsize=bufsize, root=R)
        if err is not None:
            ctx.oracle_fail(f"kvs:set:raises:{type(err).__name__}", case0, "set succeeds", repr(err))
            return None
        eff_buf = bufsize if bufsize is not None else (rec.default_bufsize or io.DEFAULT_BUFFER_SIZE)
        ops = rec.ops
        wf = explore(ctx, drv, ops, rec.snaps, sets, sets_json, bufsize, sk, flag, eff_buf, cap, label, top, big=big, R=R)
        if wf is not None:
            ctx.bump("sequences-wf" if wf else "sequences-not-wf")
        fresh = [c for c in R.split("/") if c and c != PRE]
        if fresh:
            ctx.bump(f"fresh-root-depth:{len(fresh)}")
        if big:
            ctx.bump("sequences-with-large-values")
            if wf is False:
                # large traces are not sent to the kernel; the compiled model's WF verdict is reported as a broken tie
                ctx.mismatch("Klong.C17.WF (compiled model) of the recorded trace of a large-value sequence", case0,
                             "WF", "not WF")
        return dict(ops=ops, sets=[(full(R, k), v) for k, v in sets if v != GET], buf=eff_buf, wf=wf, big=big,
                    sk=sk_for(sk, R), known=known_calls(ctx) > known0)
    finally:
        shutil.rmtree(top, ignore_errors=True)


def kill_history(ctx, drv, sets1, phase2, bufsize, sk, flag, cap, boundaries=None, R="", npoints=None):
    """two-crash histories: a real (forked) writer runs sets1 and is killed (os._exit, nothing that reached the
    kernel is lost) at a boundary inside its LAST set; a new store on the same directory then performs phase2
    (gets and sets); crash images (power loss) are explored after every operation of the whole history."""
    top = ctx.mkdtemp()
    runs = []
    try:
        ref = os.path.join(top, "ref")
        os.makedirs(ref)
        rec0, err = real_run(ctx, sets1, bufsize, root=ref, R=R)
        if err is not None:
            ctx.oracle_fail(f"kvs:set:raises:{type(err).__name__}", dict(kind="kill-history", sets=sets1), "set succeeds", repr(err))
            return runs
        ops1, snaps1 = rec0.ops, rec0.snaps
        eff_buf = bufsize if bufsize is not None else (rec0.default_bufsize or io.DEFAULT_BUFFER_SIZE)
        last_begin = max(i for i, o in enumerate(ops1) if o.startswith("begin:"))
        bs = list(range(last_begin + 1, len(ops1)))
        if boundaries is not None:
            bs = [b for b in bs if b in boundaries]
        elif npoints is not None:
            bs = spread(bs, npoints)
        for b in bs:
            ctx._c17_base = len(ctx.oracle_failures)
            base = os.path.join(top, f"h{b}")
            os.makedirs(base)
            pid = os.fork()
            if pid == 0:
                try:
                    real_run(ctx, sets1, bufsize, kill_at=b, root=base, snapshot=False, R=R)
                finally:
                    os._exit(18)
            _, status = os.waitpid(pid, 0)
            extra = dict(kind="kill-history", sets1=[[k, v] for k, v in sets1], phase2=[[k, v] for k, v in phase2],
                         killed_before=_short(ops1[b], 120), boundary=b, **{"class": "after-kill"})
            known0 = known_calls(ctx)
            if os.waitstatus_to_exitcode(status) != 17:
                ctx.mismatch("process-kill child did not reach the boundary", extra, 17, os.waitstatus_to_exitcode(status))
                continue
            snap_kill = listing(base)
            rec2, err2 = real_run(ctx, phase2, bufsize, root=base, R=R)
            if err2 is not None:
                ctx.oracle_fail(f"kvs:set-after-kill:raises:{type(err2).__name__}", extra, "set succeeds", repr(err2))
                continue
            ops = ops1[:b] + ["kill"] + rec2.ops
            snaps = snaps1[:b] + [snap_kill] + rec2.snaps
            actions = list(sets1) + list(phase2)
            wf = explore(ctx, drv, ops, snaps, actions, extra["sets1"] + [["<kill>", b]] + extra["phase2"], bufsize, sk, flag,
                         eff_buf, cap, "kill-history", top, R=R, extra=extra, images_from=b + 1)
            ctx.bump("kill-histories")
            ctx.bump("kill-histories-wf" if wf else "kill-histories-not-wf")
            runs.append(dict(ops=ops, sets=None, buf=eff_buf, wf=wf, big=False, known=known_calls(ctx) > known0))
            shutil.rmtree(base, ignore_errors=True)
        return runs
    finally:
        shutil.rmtree(top, ignore_errors=True)


def spread(points, n):
    """at most n of the points, evenly spread and including the first and the last (all of them if n is None)"""
    if n is None or len(points) <= n:
        return list(points)
    idx = sorted({round(i * (len(points) - 1) / (n - 1)) for i in range(n)})
    return [points[i] for i in idx]


def fault_history(ctx, drv, sets0, target, follow, bufsize, sk, flag, cap, R="", only=None, npoints=None):
    """error paths: the set `target` (last of sets0 + [target]) gets ONE transient OSError at each of its
    file-system operations in turn; the same set is then retried — on the same store object, and on a new store
    object — followed by `follow`; crash images are explored from the fault on.  A set that raised promises
    nothing; a set that RETURNED must be durable."""
    top = ctx.mkdtemp()
    runs = []
    try:
        ref = os.path.join(top, "ref")
        os.makedirs(ref)
        rec0, err = real_run(ctx, sets0 + [target], bufsize, root=ref, R=R)
        if err is not None:
            ctx.oracle_fail(f"kvs:set:raises:{type(err).__name__}", dict(kind="fault-history", sets=sets0 + [target]),
                            "set succeeds", repr(err))
            return runs
        ops0 = rec0.ops
        eff_buf = bufsize if bufsize is not None else (rec0.default_bufsize or io.DEFAULT_BUFFER_SIZE)
        last_begin = max(i for i, o in enumerate(ops0) if o.startswith("begin:"))
        points = [i for i in range(last_begin + 1, len(ops0)) if ops0[i].split(":")[0] not in ("close", "ret", "begin")]
        for b in (points if only is not None else spread(points, npoints)):
            for mode in ("same-store", "new-store"):
                if only is not None and (b, mode) != tuple(only):
                    continue
                ctx._c17_base = len(ctx.oracle_failures)
                known0 = known_calls(ctx)
                base = os.path.join(top, f"f{b}{mode[0]}")
                os.makedirs(base)
                retry = [target] if mode == "same-store" else [(REOPEN, None), target]
                actions = sets0 + [target] + retry + follow
                extra = dict(kind="fault-history", sets0=[[k, v] for k, v in sets0], target=list(target),
                             follow=[[k, v] for k, v in follow], fault_before=_short(ops0[b], 120), boundary=b, mode=mode,
                             target_key=full(R, target[0]),
                             **{"class": "after-fault-" + mode})
                rec, err = real_run(ctx, actions, bufsize, root=base, R=R, fault_at=b)
                if err is not None or not rec.fault_fired:
                    ctx.oracle_fail(f"kvs:fault-history:raises:{type(err).__name__}", extra,
                                    "only the injected error is raised, once", repr(err))
                    continue
                wf = explore(ctx, drv, rec.ops, rec.snaps, [(k, v) for k, v in actions if k != REOPEN],
                             [[k, v] for k, v in actions], bufsize, sk, flag, eff_buf, cap, "fault-history", top, R=R,
                             extra=extra, images_from=b + 1)
                ctx.bump("fault-histories")
                ctx.bump(f"fault-retry-{mode}:" + ("returned" if getattr(rec, "raised", 0) < 2 else "raised-again"))
                runs.append(dict(ops=rec.ops, sets=None, buf=eff_buf, wf=wf, big=False,
                                 known=known_calls(ctx) > known0))
                shutil.rmtree(base, ignore_errors=True)
        return runs
    finally:
        shutil.rmtree(top, ignore_errors=True)


def schedule_history(ctx, sets0, A, B, bufsize, cap, R="", only=None, npoints=None):
    """two-thread schedules at file-system-call granularity: after sets0, set A runs in its own thread and is
    parked just before each of its file-system operations in turn while set B (another key) runs to completion
    in the main thread; then A is released.  Crash images (Python simulator — the Lean machine is the
    single-writer one) are read back after B returned and after both returned: a set that has returned is
    durable whatever the other thread was doing."""
    import threading
    from klongpy.db.sys_fn_kvs import KeyValueStorage
    from klongpy.db.helpers import serialize_obj
    top = ctx.mkdtemp()
    try:
        ref = os.path.join(top, "ref")
        os.makedirs(ref)
        rec0, err = real_run(ctx, sets0 + [A], bufsize, root=ref, R=R, snapshot=False)
        if err is not None:
            return
        ops0 = rec0.ops
        last_begin = max(i for i, o in enumerate(ops0) if o.startswith("begin:"))
        points = [i for i in range(last_begin + 1, len(ops0)) if ops0[i].split(":")[0] not in ("close", "ret", "begin")]
        for b in (points if only is not None else spread(points, npoints)):
            if only is not None and b != only:
                continue
            ctx._c17_base = len(ctx.oracle_failures)
            base = os.path.join(top, f"s{b}")
            os.makedirs(base)
            extra = dict(kind="schedule", sets0=[[k, v] for k, v in sets0], A=list(A), B=list(B),
                         parked_before=_short(ops0[b], 120), boundary=b, parked_key=full(R, A[0]),
                         **{"class": "concurrent"})
            rec = Recorder(base, bufsize, snapshot=False, park_at=b)
            rec.install()
            store = None
            errs = []
            try:
                precreate(rec, base, R)
                store = KeyValueStorage(os.path.join(base, R) if R else base)
                for k, v in sets0:
                    rec.marker(f"begin:{wpath(full(R, k))}:{serialize_obj(expand(v)).hex()}")
                    store.set(k, expand(v))
                    rec.marker(f"ret:{wpath(full(R, k))}")

                def run_a():
                    try:
                        rec.marker(f"begin:{wpath(full(R, A[0]))}:{serialize_obj(expand(A[1])).hex()}")
                        store.set(A[0], expand(A[1]))
                        rec.marker(f"ret:{wpath(full(R, A[0]))}")
                    except Exception as e:              # noqa
                        errs.append(e)
                ta = threading.Thread(target=run_a, daemon=True)
                ta.start()
                waited = 0.0
                while not rec.parked.wait(0.05) and ta.is_alive() and waited < 30:
                    waited += 0.05
                if not rec.parked.is_set():
                    errs.append(TimeoutError("set A never reached the parking point"))
                try:
                    rec.marker(f"begin:{wpath(full(R, B[0]))}:{serialize_obj(expand(B[1])).hex()}")
                    store.set(B[0], expand(B[1]))
                    rec.marker(f"ret:{wpath(full(R, B[0]))}")
                except Exception as e:                  # noqa
                    errs.append(e)
                after_b = len(rec.ops)
                rec.resume.set()
                ta.join(30)
                if ta.is_alive() or rec.park_timeout:
                    errs.append(TimeoutError("set A did not finish after being released"))
            finally:
                rec.resume.set()
                if store is not None:
                    store.cache.executor.shutdown(wait=True)
                rec.uninstall()
            if errs:
                ctx.oracle_fail(f"kvs:schedule:raises:{type(errs[0]).__name__}", extra,
                                "both concurrent sets of different keys return", repr(errs[0]))
                continue
            sets_json = extra["sets0"] + [["<A>"] + extra["A"], ["<B while A parked>"] + extra["B"]]
            for upto in (after_b, len(rec.ops)):
                check_images(ctx, None, rec.ops[:upto], sets_json, bufsize, top, cap, "schedule", R=R, extra=extra)
            ctx.bump("schedules")
            shutil.rmtree(base, ignore_errors=True)
    finally:
        shutil.rmtree(top, ignore_errors=True)


# --------------------------------------------------------------------------- kernel obligations

def lean_bytes(hx):
    return "[" + ", ".join(str(b) for b in bytes.fromhex(hx)) + "]"


def lean_op(o):
    p = o.split(":")
    unp = lambda w: "[]" if w == "-" else "[" + ", ".join(w.split(".")) + "]"
    if p[0] == "begin":
        return f".begin {unp(p[1])} {lean_bytes(p[2])}"
    if p[0] == "write":
        return f".write {unp(p[1])} {lean_bytes(p[2])}"
    if p[0] == "ret":
        return ".ret"
    if p[0] == "kill":
        return ".kill"
    if p[0] == "rename" and len(p) == 3 and all(x.replace(".", "").replace("-", "0").isdigit() for x in p[1:]):
        return f".rename {unp(p[1])} {unp(p[2])}"
    name = dict(mkdir="mkdir", creat="creatTrunc", fsync="fsyncFile", fsyncdir="fsyncDir", close="close", unlink="unlink").get(p[0])
    if name is None or len(p) != 2 or not all(x.isdigit() for x in p[1].replace("-", "0").split(".")):
        return None
    return f".{name} {unp(p[1])}"


SK_LEAN = {"scan": ".scanNew none", "makedirs": ".makedirs", "open": ".openWb", "write": ".write", "flush": ".flush false",
           "flush?": ".flush true", "fsync": ".fsync false", "fsync?": ".fsync true", "close": ".close",
           "fsyncnew": ".fsyncNew false", "fsyncnew?": ".fsyncNew true"}


def kernel_obligations(ctx, runs, sk, flag):
    """(b): per-run decidable obligations, checked by the Lean kernel"""
    from klongpy.db.helpers import serialize_obj
    lines = ["import Klong.Props.C17Gen", "open Klong.C17", "set_option maxRecDepth 100000", ""]
    names = {}
    def sk_lean(toks):
        return "[" + ", ".join(f".scanNew (some {t.split(':')[1]})" if t.startswith("scanall:") else SK_LEAN[t]
                               for t in toks) + "]"
    fl = "true" if flag else "false"
    if sk is not None:
        # the extracted skeleton is one `fixed_write_path_wf` / `kvs_crash_safe` are proved for
        kind = "some 0" if "scanall" in sk else "none"
        names[len(lines) + 1] = "extracted skeleton of _write_file = skFixedOf _ and use_fsync = true (scope of kvs_crash_safe)"
        lines.append(f"example : (({sk_lean(sk_for(sk, ''))} : List Sk), {fl}) = (skFixedOf ({kind}), true) := by decide")
    allkeys = sorted({k for r in runs if r.get("sets") for k, _ in r["sets"]})
    names[len(lines) + 1] = "ValidKeys (keys used by this run) (hypothesis of kvs_crash_safe)"
    lines.append(f"example : ValidKeys [{', '.join(lpath(k) for k in allkeys)}] := by decide")
    for i, r in enumerate(runs):
        lops = [lean_op(o) for o in r["ops"]]
        model = None
        if r.get("sk") is not None and r.get("sets") is not None and None not in lops:
            skl = sk_lean(r["sk"])
            sets = "[" + ", ".join(f"({lpath(k)}, {lean_bytes(serialize_obj(expand(v)).hex())})" for k, v in r["sets"]) + "]"
            npre = next((j for j, o in enumerate(r["ops"]) if o.startswith("begin:")), 0)
            pre = "[" + ", ".join(lops[:npre]) + "]"
            model = f"(({pre} : List Op) ++ traceOf .strict {skl} {fl} {r['buf']} (run .strict init {pre}) {sets})"
        if None in lops:
            ctx.obligation(f"run{i}: recorded trace is expressible in the model", False,
                           str([o for o, l in zip(r["ops"], lops) if l is None][:3]))
            continue
        rec = "[" + ", ".join(lops) + "]"
        for nm, stmt in (("WF .strict (recorded trace)", f"WF .strict ({rec} : List Op) = true"),
                         ("traceOf skeleton sets = recorded trace", f"{model} = ({rec} : List Op)"),
                         ("WF .strict (traceOf skeleton sets)", f"WF .strict ({model}) = true"),
                         ("crash_safety instantiated at the recorded trace",
                          f"∀ pre suf, ({rec} : List Op) = pre ++ suf → ∀ c ∈ crashAfter .strict pre, "
                          f"∀ k, inProgress pre ≠ some k → k ∉ scratchOf pre → k ∉ dirtyOf pre → "
                          f"recover c k = lastCompleted pre k")):
            if model is None and "traceOf" in nm:
                continue
            names[len(lines) + 1] = f"run{i}: {nm}"
            if nm.startswith("crash_safety"):
                lines.append(f"example : {stmt} := fun pre suf h => crash_safety_core .strict _ pre suf h (by decide +kernel)")
            else:
                lines.append(f"example : {stmt} := by decide +kernel")
    ok, out = common.lean_run("\n".join(lines) + "\n")
    bad = {}
    for ln in out.split("\n"):
        m = __import__("re").match(r".*?\.lean:(\d+):\d+: error", ln)
        if m:
            bad[int(m.group(1))] = ln[:300]
    if not ok and not bad:
        bad = {k: out[-300:] for k in names}
    for lineno, nm in sorted(names.items()):
        hit = [v for k, v in bad.items() if k == lineno]
        ctx.obligation(nm, not hit, "kernel rejected: " + (hit[0] if hit else ""))
    # informational: the same under the journalled-dirent variant
    ctx.extra["kernel_obligation_file_lines"] = len(lines)


# --------------------------------------------------------------------------- process kill (thorough)

def kill_runs(ctx, drv, sets, bufsize, label):
    """kill a real (forked) writer at every operation boundary; read the directory with a fresh store"""
    from klongpy.db.helpers import deserialize_obj
    top = ctx.mkdtemp()
    try:
        root0 = os.path.join(top, "ref")
        os.makedirs(root0)
        rec0, err = real_run(ctx, sets, bufsize, root=root0, snapshot=False)
        if err is not None:
            return
        ops = rec0.ops
        sets_json = [[k, v] for k, v in sets]
        for b in range(len(ops) + 1):
            root = os.path.join(top, f"k{b}")
            os.makedirs(root)
            pid = os.fork()
            if pid == 0:
                try:
                    real_run(ctx, sets, bufsize, kill_at=b, root=root, snapshot=False)
                finally:
                    os._exit(18)
            _, status = os.waitpid(pid, 0)
            code = os.waitstatus_to_exitcode(status)
            case = dict(kind="process-kill", sets=sets_json, bufsize=bufsize, boundary=b,
                        next_op=ops[b] if b < len(ops) else None)
            if code != 17:
                ctx.mismatch("process-kill child did not reach the boundary", case, 17, code)
                continue
            cur, done = ghost(ops[:b])
            got = read_store(root, KEYS)
            ctx.count(("kill", tuple(ops[:b])))
            ctx.bump("process-kills")
            for k in KEYS:
                kind, val, raw = got[k]
                if k == cur:
                    continue
                if k in done:
                    want = canon(deserialize_obj(bytes.fromhex(done[k])))
                    if kind != "val" or val != want:
                        ctx.oracle_fail("kvs:kill:completed-key-lost", dict(case, key=k), want, f"{kind}:{val}")
                elif kind != "undef":
                    ctx.oracle_fail("kvs:kill:other-key-fails", dict(case, key=k), ":undefined", f"{kind}:{val}")
            if drv is not None and not any(o.startswith(("rename:", "unlink:")) for o in ops):
                drv.ask("new variant=strict")
                for o in ops[:b]:
                    drv.ask("op " + o)
                f = drv.ask("kill keys=")
                img = f.split("img=")[1].split(";rec=")[0]
                d, fl = listing(root)
                real = f"dirs={d};files={fl}"
                if img != real:
                    ctx.mismatch("Klong.C17.volatileImage vs directory left by a killed writer", case, img, real)
            shutil.rmtree(root, ignore_errors=True)
    finally:
        shutil.rmtree(top, ignore_errors=True)


# --------------------------------------------------------------------------- entry

def check_keypaths(ctx):
    """key -> file correspondence.  The model identifies a key with its own relative path, so distinct keys are
    distinct files inside the root.  A key the store refuses (helpers.key_to_file_path raises) is not a key: for
    those, set AND get must both refuse and nothing may be written.  For accepted keys the real mapping
    (key_to_file_path joined to the root as FileCache does; pure, no file system) must stay inside the root and
    keep distinct keys apart."""
    from klongpy.db.helpers import key_to_file_path
    from klongpy.db.sys_fn_kvs import KeyValueStorage
    root = "/verif-store-root"
    where = {}
    refused = []
    for k in KEYS + LOOKALIKES:
        ctx.count(("keypath", k))
        try:
            rel = key_to_file_path(k)
        except Exception:                              # noqa: the store refuses this key
            refused.append(k)
            continue
        p = os.path.normpath(os.path.join(root, rel))
        if not p.startswith(root + os.sep):
            ctx.oracle_fail("kvs:keypath:escapes-root", dict(kind="key-path", key=k), "a file inside the store root", p,
                            "the key resolves outside the store's root directory")
            continue
        where.setdefault(p, []).append(k)
    for p, ks in sorted(where.items()):
        for i in range(len(ks)):
            for j in range(i + 1, len(ks)):
                a, b = ks[i], ks[j]
                both = a + b
                cls = ("backslash" if "\\" in both else "leading-slash" if a.startswith("/") or b.startswith("/")
                       else "doubled-slash" if "//" in both else "dot-or-trailing-slash")
                ctx.oracle_fail(f"kvs:keypath:alias-{cls}", dict(kind="key-path", keys=[a, b]),
                                "distinct keys live in distinct files", f"both map to {os.path.relpath(p, root)}",
                                "a set of one key opens (truncates) the other key's file: a crash during it harms a key "
                                "that was not being written")
    # refused keys: set and get both refuse, no system call is made, the directory stays empty.  (Safe: the
    # mapping has just refused the key, and set/get consult it before touching the file system; the recorder
    # would show any call, inside or outside the root.)
    if refused:
        top = ctx.mkdtemp()
        root2 = os.path.join(top, "store")
        os.makedirs(root2)
        rec = Recorder(root2, None, snapshot=False)
        rec.install()
        store = KeyValueStorage(root2)
        try:
            for k in refused:
                out = {}
                for name, call in (("set", lambda: store.set(k, 1)), ("get", lambda: store.get(k))):
                    try:
                        call()
                        out[name] = "accepted"
                    except Exception as e:              # noqa
                        out[name] = "refused:" + type(e).__name__
                case = dict(kind="refused-key", key=k)
                if out["set"] == "accepted" or out["get"] == "accepted":
                    ctx.oracle_fail("kvs:keypath:refusal-not-uniform", case, "set and get both refuse the key", out,
                                    "key_to_file_path refuses the key but the store accepts it in set or get")
                if rec.ops or listing(root2) != ("", ""):
                    ctx.oracle_fail("kvs:keypath:refused-key-written", case, "no file-system call, empty store",
                                    dict(ops=rec.ops[:5], listing=listing(root2)))
                    break
                ctx.bump("refused-keys-checked")
        finally:
            store.cache.executor.shutdown(wait=True)
            rec.uninstall()
            shutil.rmtree(top, ignore_errors=True)
    ctx.extra["refused_keys"] = refused
    ctx.bump("keypaths-checked", len(KEYS + LOOKALIKES))


def gen_sets(rng, n, keys):
    return [(rng.choice(keys), gen_value(rng)) for _ in range(n)]


def setup(ctx):
    try:
        sk, flag, waits = extract_skeleton(common.REPO)
    except (SkeletonError, SyntaxError, OSError) as e:
        ctx.obligation("translator: skeleton of FileCache._write_file", False, f"{type(e).__name__}: {e}")
        sk, flag, waits = None, None, None
    else:
        ctx.obligation("translator: skeleton of FileCache._write_file", True)
        ctx.obligation("translator: update_file waits for the write future before returning", bool(waits),
                       "no `future.result()` statement in FileCache.update_file")
        ctx.obligation("translator: KeyValueStorage.set passes use_fsync=True", flag is True, f"use_fsync={flag}")
    ctx.extra["write_file_skeleton"] = sk
    ctx.extra["kvs_use_fsync"] = flag
    ctx.rule = ("seeded sequences of KeyValueStorage.set over flat and nested prefix-free keys (new keys, overwrites, "
                "new directories), io buffer = the file system's block size and 16 bytes; for every prefix of the "
                "recorded system-call trace every crash image of the model (all loss choices; sampled above the cap) "
                "is materialised and read by a fresh real KeyValueStorage. distinct = distinct (trace prefix, image); "
                "all count as non-trivial")
    ctx.assumptions += [
        "the persistence model replaces kernel, file system and disk: fsync(fd) makes the file's data durable; "
        "fsync(dirfd) makes the entries of that directory durable; under `strict` nothing else is durable",
        "the store's root directory exists durably before the first set",
        "no key is a path prefix of another key; a single writer (concurrency is C18)",
        "a raw write() of a small value is not split by the kernel (byte-prefix loss IS modelled)",
        "pickle is deterministic for the generated values",
    ]
    return sk, flag


def run(ctx):
    quick = ctx.tier == "quick"
    sk, flag = setup(ctx)
    check_keypaths(ctx)
    drv = Driver("c17") if getattr(ctx, "driver_ok", True) else None
    model_sk = sk
    cap = 80 if quick else 1500
    runs = []
    try:
        cdir = common.CORPUS / "C17"
        plans = []
        c_root = {}
        if cdir.exists():
            for p in sorted(cdir.glob("*.json")):
                c = json.loads(p.read_text())
                if c.get("root"):
                    c_root[len(plans)] = c["root"]
                plans.append(([(k, v) for k, v in c["sets"]], c.get("bufsize")))
        nseq = 6 if quick else 40
        for s in range(nseq):
            keys = ctx.rng.choice([KEYS, KEYS[:3], KEYS[3:8], ["a", "q/r/a", "q/r/b"], ["logs/app", "logs\\app", "a"]])
            n = ctx.rng.randrange(2, 6 if quick else 9)
            plans.append((gen_sets(ctx.rng, n, keys), 16 if s % 3 == 2 else None))
        # sibling directories one of whose names is a proper string prefix of the other's (2024 / 2024-01, pp / pp2,
        # and a directory next to a FILE whose name it extends), set in both orders on one store object
        for s in range(2 if quick else 8):
            short, long_ = ctx.rng.choice([("d2024", "d2024-01"), ("pp", "pp2"), ("q/r", "q/r1"), ("a", "ab")])
            ks, kl = (short if short == "a" else short + "/t"), long_ + "/t"
            first, second = (kl, ks) if s % 2 == 0 else (ks, kl)
            sets = [(first, gen_value(ctx.rng))] + gen_sets(ctx.rng, ctx.rng.randrange(0, 2), ["b", "p/a"]) + \
                   [(second, gen_value(ctx.rng)), (ctx.rng.choice([first, second, long_ + "/u"]), gen_value(ctx.rng))]
            plans.append((sets, 16 if s % 3 == 2 else None))
        # values around io-buffer / 64 KiB boundaries (crash images sampled, see py_sample_images)
        for s in range(2 if quick else 12):
            keys = ctx.rng.choice([["a", "p/a"], ["b", "q/r/a", "a"]])
            sets = gen_sets(ctx.rng, ctx.rng.randrange(1, 3), keys)
            sets.insert(ctx.rng.randrange(len(sets) + 1), (ctx.rng.choice(keys), gen_big_value(ctx.rng)))
            if s % 2:
                sets.append((ctx.rng.choice(keys), gen_big_value(ctx.rng)))
            plans.append((sets, None))
        ROOTS = ["r1", PRE + "/r1/r2", "r1/r2/store"]          # store roots whose chain does not exist when the store is opened
        for i, (sets, bufsize) in enumerate(plans):
            R = c_root.get(i, PRE)
            r = run_sequence(ctx, drv, sets, bufsize, model_sk, bool(flag), cap, R=R)
            if r is not None:
                runs.append(r)
                if len(ctx.samples) < 4:
                    ctx.sample(dict(sets=[[k, v] for k, v in sets], bufsize=bufsize, root=R, trace=r["ops"][:12]))
        # fresh store roots (depth 1-3 of missing directories): the open of the store is part of the trace
        for d, R in enumerate(ROOTS if quick else ROOTS * 3):
            keys = ctx.rng.choice([["a", "p/a"], ["a", "b", "q/r/a"], KEYS[:5]])
            sets = gen_sets(ctx.rng, ctx.rng.randrange(1, 4), keys)
            r = run_sequence(ctx, drv, sets, 16 if d % 2 else None, model_sk, bool(flag), cap, R=R)
            if r is not None:
                runs.append(r)
        # histories chaining a process kill (no loss) and a later power loss: a completed set of k, a second set
        # of k killed inside, then a NEW store: get k, set k to the same value (and another key)
        for h in range(2 if quick else 8):
            keys = ctx.rng.choice([["a", "b"], ["p/a", "a"], ["q/r/a", "b"]])
            k = keys[0]
            v1, v2 = gen_value(ctx.rng), gen_value(ctx.rng)
            sets1 = gen_sets(ctx.rng, ctx.rng.randrange(0, 2), keys) + [(k, v1), (k, v2)]
            phase2 = [(k, GET), (k, v2)] + gen_sets(ctx.rng, ctx.rng.randrange(0, 2), keys[1:])
            if h % 2:
                # the killed set creates a NEW key (new file, possibly new directories)
                k = ctx.rng.choice(["n/x/a", "n/a", "fresh"])
                sets1 = gen_sets(ctx.rng, ctx.rng.randrange(0, 2), keys) + [(k, v2)]
                phase2 = [(k, v2)] + gen_sets(ctx.rng, 1, ["n/x/b", "n/b"])
            runs += kill_history(ctx, drv, sets1, phase2, 16 if h % 2 else None, model_sk, bool(flag), cap,
                                 R=ctx.rng.choice([PRE, "r1", PRE + "/r1"]), npoints=4 if quick and h % 2 else None)
        # error paths: one transient OSError at each file-system operation of a set of a new key, then a retry
        for h in range(1 if quick else 4):
            k = ctx.rng.choice(["n/x/a", "n/a", "fresh", "p/new"])
            sets0 = gen_sets(ctx.rng, ctx.rng.randrange(0, 2), ["a", "p/a"])
            follow = gen_sets(ctx.rng, ctx.rng.randrange(0, 2), ["n/x/b", "a"])
            runs += fault_history(ctx, drv, sets0, (k, gen_value(ctx.rng)), follow, 16 if h % 2 else None, model_sk,
                                  bool(flag), cap, R=ctx.rng.choice([PRE, "r1", PRE + "/r1"]), npoints=4 if quick else None)
        # two-thread schedules: set A (new key) parked before each of its file-system calls while set B completes
        for h in range(2 if quick else 8):
            A = (ctx.rng.choice(["n/x/a", "n/a", "p/new"]), gen_value(ctx.rng))
            sets0 = [("a", gen_value(ctx.rng)), ("p/a", gen_value(ctx.rng))]
            B = [("a", gen_value(ctx.rng)), ("p/a", gen_value(ctx.rng)), (os.path.dirname(A[0]) + "/b", gen_value(ctx.rng)),
                 ("other/b", gen_value(ctx.rng))][(h + ctx.rng.randrange(2)) % 4]
            schedule_history(ctx, sets0, A, B, None, cap, R=ctx.rng.choice([PRE, "r1", PRE + "/r1"]),
                             npoints=4 if quick else None)
        small = [r for r in runs if not r.get("big") and not r.get("known")]
        ctx.bump("runs-not-sent-to-kernel-known-finding", len([r for r in runs if r.get("known")]))
        if small:
            regular = [r for r in small if r.get("sets") is not None]
            composite = [r for r in small if r.get("sets") is None]
            kernel_obligations(ctx, regular[:12 if quick else 16] + composite[:4 if quick else 8], sk, bool(flag))
        if not quick:
            for i in range(4):
                keys = ctx.rng.choice([KEYS, ["a", "q/r/a", "q/r/b", "p/a"]])
                kill_runs(ctx, drv, gen_sets(ctx.rng, ctx.rng.randrange(2, 6), keys), 16 if i % 2 else None, "kill")
    finally:
        if drv:
            drv.close()


def replay(ctx, case):
    c = case.get("case", case)
    sk, flag = setup(ctx)
    drv = Driver("c17") if getattr(ctx, "driver_ok", True) else None
    try:
        if c.get("kind") == "fault-history":
            rs = fault_history(ctx, drv, [(k, v) for k, v in c["sets0"]], tuple(c["target"]),
                               [(k, v) for k, v in c["follow"]], c.get("bufsize"), sk, bool(flag), 100000,
                               R=c.get("root", ""), only=(c["boundary"], c["mode"]))
            if rs:
                kernel_obligations(ctx, [r for r in rs if not r.get("known")] or rs, sk, bool(flag))
        elif c.get("kind") == "schedule":
            schedule_history(ctx, [(k, v) for k, v in c["sets0"]], tuple(c["A"]), tuple(c["B"]), c.get("bufsize"), 100000,
                             R=c.get("root", ""), only=c["boundary"])
        elif c.get("kind") == "kill-history":
            rs = kill_history(ctx, drv, [(k, v) for k, v in c["sets1"]], [(k, v) for k, v in c["phase2"]],
                              c.get("bufsize"), sk, bool(flag), 100000, boundaries=[c["boundary"]], R=c.get("root", ""))
            if rs:
                kernel_obligations(ctx, rs, sk, bool(flag))
        elif c.get("kind") == "process-kill":
            kill_runs(ctx, drv, [(k, v) for k, v in c["sets"]], c.get("bufsize"), "replay")
        else:
            sets = [(k, v) for k, v in c["sets"]]
            r = run_sequence(ctx, drv, sets, c.get("bufsize"), sk, bool(flag), 100000, "replay", R=c.get("root", ""))
            if r is not None and not r.get("big"):
                kernel_obligations(ctx, [r], sk, bool(flag))
    finally:
        if drv:
            drv.close()
    print("replay:", "oracle failures:", json.dumps(ctx.oracle_failures[:5], default=str)[:3000])
    print("replay:", "mismatches:", json.dumps(ctx.mismatches[:3], default=str)[:2000], "broken:", ctx.broken[:3])
