"""Rewrites the `commit` of every status=fixed finding to the hash the fix has on /repo's main
(fixes are made on per-property branches and cherry-picked).  python3 -m vlib.sync_fix_hashes"""
import glob
import json
import subprocess
from pathlib import Path

ROOT = Path(__file__).resolve().parent.parent


def git(*a):
    return subprocess.run(["git", "-C", "/repo", *a], capture_output=True, text=True).stdout


def main():
    main_log = [l.split(" ", 1) for l in git("log", "main", "--format=%h %s").splitlines() if " " in l]
    by_subject = {s: h for h, s in reversed(main_log)}
    main_hashes = {h for h, _ in main_log}
    changed = 0
    for f in [ROOT / "KNOWN_FINDINGS.json"] + [Path(p) for p in sorted(glob.glob(str(ROOT / "findings.d/*.json")))]:
        d = json.loads(f.read_text())
        for e in d.get("findings", []):
            if e.get("status") != "fixed" or not e.get("commit"):
                continue
            c = e["commit"][:7]
            if c in main_hashes:
                continue
            subj = git("log", "-1", "--format=%s", e["commit"]).strip()
            new = by_subject.get(subj)
            if not new:
                print(f"!! {f.name} {e['id']}: fix {c} ({subj!r}) is not on main")
                continue
            e["what_fails"] = e.get("what_fails", "").replace(e["commit"], new).replace(c, new)
            e["commit"] = new
            changed += 1
        f.write_text(json.dumps(d, indent=1))
    print("updated", changed, "entries")


if __name__ == "__main__":
    main()
