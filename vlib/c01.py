"""C01 — primitive verbs return what the reference prescribes.

Every (verb, operand) / (verb, pair) is evaluated as source text by the real interpreter and
by the Lean driver (`Ref` = the manual transcribed, `Impl` = the Python control flow modelled).
Oracle: wherever `Ref` is defined the real result must equal it (kinds exact, reals within
tolerance).  Correspondence: wherever `Impl` is modelled the real result must equal `Impl`.
"""
import ast

from . import common
from . import universe as U
from .common import Driver

CLAIM = dict(
    text="Lean 4 theorems: for every atomic dyad/monad the numpy-classified implementation model equals the "
         "reference's atom-to-list extension on operands of any nesting depth (outside the explicit decidable "
         "rank-mismatch class); Take, Drop, Rotate, Reverse, Split, Enumerate, First, Size: implementation model "
         "(Python slicing / tile / concatenate / roll arithmetic) = reference for every vector length and every "
         "integer count. Model tied to klongpy by evaluating verbs x universe through the real interpreter; the "
         "dispatch tables are regenerated from the source on every run. Every other verb of the reference (Cut, Join, "
         "Index, Find, Match, Atom, List, Not, Expand, Floor, Transpose, Grade, Range, Group, Shape, Reshape, Amend, "
         "Amend-in-Depth, Index-in-Depth, Divide, Reciprocal, Power, Char, Undefined, Format, Format2, Form) has a reference "
         "function, an implementation model and an implementation = reference theorem on the modelled operand classes "
         "(C01Ext1-4); outside those classes the reference oracle alone compares. Every application is also evaluated with "
         "computed atoms and with operands held in variables, which must be unchanged afterwards.",
    note="trusted: Lean kernel, numpy's element-wise ufunc semantics and slicing (modelled), the reference transcription "
         "(validated against the docstring examples), canonicaliser; reals tied by tolerance only; int64 overflow excluded",
    technique="Lean 4 impl=reference proofs per verb (induction over nested values / list index arithmetic), "
              "translator for dispatch tables, differential correspondence over a closed operand universe",
    design="7/C01")

MODULES = ["Klong.Props.C01", "Klong.Props.C01Struct", "Klong.Props.C01Ext1", "Klong.Props.C01Ext2", "Klong.Props.C01Ext3", "Klong.Props.C01Ext4"]
THEOREMS = [
    "Klong.C01.atomic_dyad_correct",
    "Klong.C01.atomic_monad_correct",
    "Klong.C01.dyad_in_model_correct",
    "Klong.C01.dispatch_covers_reference",
]
THEOREMS += [
    "Klong.C01.drop_correct",
    "Klong.C01.reverse_correct",
    "Klong.C01.rotate_correct",
    "Klong.C01.take_correct",
    "Klong.C01.split_correct",
    "Klong.C01.split_pinned_wrong",
]

THEOREMS += ["Klong.C01.Ext1.cut_correct", "Klong.C01.Ext1.cutSegs_correct", "Klong.C01.Ext1.join_correct", "Klong.C01.Ext1.index_correct", "Klong.C01.Ext1.find_str_correct", "Klong.C01.Ext1.finditer_correct", "Klong.C01.Ext1.find_list_correct", "Klong.C01.Ext1.match_correct", "Klong.C01.Ext1.kgEqual_correct", "Klong.C01.Ext1.first_correct", "Klong.C01.Ext1.size_correct", "Klong.C01.Ext1.enumerate_correct", "Klong.C01.Ext1.atom_correct", "Klong.C01.Ext1.list_correct", "Klong.C01.Ext1.not_correct", "Klong.C01.Ext1.index_negative_witness", "Klong.C01.Ext1.index_degenerate_witness", "Klong.C01.Ext1.index_mixed_witness", "Klong.C01.Ext1.join_mixed_witness", "Klong.C01.Ext1.join_raises_witness", "Klong.C01.Ext1.match_charstr_witness", "Klong.C01.Ext1.cut_outside_witness", "Klong.C01.Ext1.examples_witness"]
THEOREMS += ["Klong.C01.Ext2.expand_correct", "Klong.C01.Ext2.floor_correct", "Klong.C01.Ext2.transpose_correct", "Klong.C01.Ext2.grade_sorts", "Klong.C01.Ext2.grade_stable", "Klong.C01.Ext2.grade_unique", "Klong.C01.Ext2.grade_correct", "Klong.C01.Ext2.range_str_correct", "Klong.C01.Ext2.range_ints_correct", "Klong.C01.Ext2.range_rows_correct", "Klong.C01.Ext2.range_obj_correct", "Klong.C01.Ext2.range_kinds_kept", "Klong.C01.Ext2.range_chr_str_collision", "Klong.C01.Ext2.implGroupKeys_eq", "Klong.C01.Ext2.group_str_correct", "Klong.C01.Ext2.group_ints_correct", "Klong.C01.Ext2.group_spec", "Klong.C01.Ext2.shapeA_ref", "Klong.C01.Ext2.shape_correct", "Klong.C01.Ext2.shape_atom_correct", "Klong.C01.Ext2.shape_deviation", "Klong.C01.Ext2.npReshape_window", "Klong.C01.Ext2.reshape_correct"]

THEOREMS += ["Klong.C01.Ext3.amend_list_correct", "Klong.C01.Ext3.amend_str_correct", "Klong.C01.Ext3.amend_in_depth_correct", "Klong.C01.Ext3.amend_in_depth_any_correct", "Klong.C01.Ext3.amend_in_depth_vec_correct", "Klong.C01.Ext3.aidRec_slow", "Klong.C01.Ext3.multiSet_nat", "Klong.C01.Ext3.shape_agree", "Klong.C01.Ext3.index_in_depth_correct", "Klong.C01.Ext3.divide_correct", "Klong.C01.Ext3.power_correct", "Klong.C01.Ext3.scalarPow_value", "Klong.C01.Ext3.reciprocal_correct", "Klong.C01.Ext3.char_correct", "Klong.C01.Ext3.undefined_correct", "Klong.C01.Ext3.format_correct", "Klong.C01.Ext3.pyInt_parseInt", "Klong.C01.Ext3.pyInt_noDigit", "Klong.C01.Ext3.form_atom_correct", "Klong.C01.Ext3.amend_examples_witness", "Klong.C01.Ext3.amend_members_witness", "Klong.C01.Ext3.amend_grow_witness", "Klong.C01.Ext3.amend_kind_witness", "Klong.C01.Ext3.amend_outside_witness", "Klong.C01.Ext3.depth_examples_witness", "Klong.C01.Ext3.depth_value_witness", "Klong.C01.Ext3.depth_repack_witness", "Klong.C01.Ext3.arith_witness", "Klong.C01.Ext3.power_nested_witness", "Klong.C01.Ext3.char_witness", "Klong.C01.Ext3.format_witness", "Klong.C01.Ext3.form_witness", "Klong.C01.Ext3.form_list_witness", "Klong.C01.Ext3.undefined_witness"]

THEOREMS += ["Klong.C01.Ext4.format2_int_atom", "Klong.C01.Ext4.format2_real_atom", "Klong.C01.Ext4.format2_atom_correct", "Klong.C01.Ext4.implF2_eq", "Klong.C01.Ext4.format2_correct", "Klong.C01.Ext4.format2_length_witness", "Klong.C01.Ext4.floorInt_spec", "Klong.C01.Ext4.floor_real_correct", "Klong.C01.Ext4.cmp_agree", "Klong.C01.Ext4.cmpL_agree", "Klong.C01.Ext4.isort_congr", "Klong.C01.Ext4.gradeBy_agree", "Klong.C01.Ext4.grade_nested_correct", "Klong.C01.Ext4.refGrade_perm", "Klong.C01.Ext4.format2_examples_witness", "Klong.C01.Ext4.format2_outside_witness", "Klong.C01.Ext4.format2_extension_witness", "Klong.C01.Ext4.floor_witness", "Klong.C01.Ext4.grade_witness"]

ATOMIC_DYADS = ["+", "-", "*", "&", "|", "<", ">", "=", "!", ":%", "%", "^"]
STRUCT_DYADS = ["#", "_", ":+", ":#", ":_", "~", ",", "@", "?", ":^"]
MONADS = ["-", "|", "*", "#", "!", "&", "?", "=", "@", ",", "^", "+", "~", "_", "%", ":#", ":_", "$"]

# verbs of the reference and the Python function the dispatch table must name for them
EXPECT_DYADS = {"+": "eval_dyad_add", "-": "eval_dyad_subtract", "*": "eval_dyad_multiply",
                "&": "eval_dyad_minimum", "|": "eval_dyad_maximum", "<": "eval_dyad_less",
                ">": "eval_dyad_more", "=": "eval_dyad_equal", "!": "eval_dyad_remainder",
                ":%": "eval_dyad_integer_divide", "#": "eval_dyad_take", "_": "eval_dyad_drop",
                ":+": "eval_dyad_rotate", ":#": "eval_dyad_split", ":_": "eval_dyad_cut",
                "~": "eval_dyad_match", "%": "eval_dyad_divide", "^": "eval_dyad_power",
                ",": "eval_dyad_join", "@": "eval_dyad_at_index", "?": "eval_dyad_find",
                ":=": "eval_dyad_amend", ":-": "eval_dyad_amend_in_depth", ":^": "eval_dyad_reshape",
                ":@": "eval_dyad_index_in_depth", "$": "eval_dyad_format2", ":$": "eval_dyad_form"}
EXPECT_MONADS = {"-": "eval_monad_negate", "|": "eval_monad_reverse", "*": "eval_monad_first",
                 "#": "eval_monad_size", "!": "eval_monad_enumerate", "&": "eval_monad_expand_where",
                 "?": "eval_monad_range", "=": "eval_monad_groupby", "@": "eval_monad_atom",
                 ",": "eval_monad_list", "<": "eval_monad_grade_up", ">": "eval_monad_grade_down",
                 "^": "eval_monad_shape", "+": "eval_monad_transpose", "_": "eval_monad_floor",
                 "%": "eval_monad_reciprocal", "~": "eval_monad_not", "$": "eval_monad_format",
                 ":#": "eval_monad_char", ":_": "eval_monad_undefined"}


# --------------------------------------------------------------------------- translator

def _first_sig_line(doc):
    for line in (doc or "").split("\n"):
        t = line.strip()
        if t:
            return t
    return ""


def extract(ctx):
    """regenerate Klong/Generated/C01Dispatch.lean: verb -> function, from the docstrings that
    create_monad_functions / create_dyad_functions use to build the dispatch tables"""
    def table(path, prefix, monadic):
        tree = ast.parse((common.REPO / path).read_text())
        out = {}
        for node in tree.body:
            if isinstance(node, ast.FunctionDef) and node.name.startswith(prefix):
                sig = _first_sig_line(ast.get_docstring(node))
                head = sig.split()[0] if sig else ""
                if monadic:
                    verb = head[:-1] if head.endswith("a") else None
                else:
                    verb = head[1:-1] if head.startswith("a") and head.endswith("b") else None
                if verb:
                    out[verb] = node.name
        return out
    monads = table("klongpy/monads.py", "eval_monad_", True)
    dyads = table("klongpy/dyads.py", "eval_dyad_", False)
    if len(monads) < 15 or len(dyads) < 20:
        raise RuntimeError(f"dispatch extraction found too few verbs: {len(monads)} monads, {len(dyads)} dyads")

    def lit(d):
        return "[" + ", ".join(f'("{k}", "{v}")' for k, v in sorted(d.items())) + "]"
    src = ("/- GENERATED by vlib/c01.py extract() from klongpy/monads.py and klongpy/dyads.py — do not edit -/\n"
           "namespace Klong.C01.Generated\n\n"
           f"def monadTable : List (String × String) := {lit(monads)}\n\n"
           f"def dyadTable : List (String × String) := {lit(dyads)}\n\n"
           "end Klong.C01.Generated\n")
    p = common.LEAN / "Klong" / "Generated" / "C01Dispatch.lean"
    if not p.exists() or p.read_text() != src:
        p.write_text(src)
    ctx.extra["dispatch"] = dict(monads=len(monads), dyads=len(dyads))


# --------------------------------------------------------------------------- classes

def num_shape(v):
    t = v[0]
    if t in "ir":
        return ()
    if t != 'L':
        return None
    if not v[1]:
        return (0,)
    s0 = num_shape(v[1][0])
    if s0 is None:
        return None
    for x in v[1][1:]:
        if num_shape(x) != s0:
            return None
    return (len(v[1]),) + s0


def rank_mismatch(a, b):
    sa, sb = num_shape(a), num_shape(b)
    return sa is not None and sb is not None and sa != sb and sa != () and sb != ()


def any_rank_mismatch(a, b):
    if a[0] != 'L' or b[0] != 'L':
        return False
    if rank_mismatch(a, b):
        return True
    if num_shape(a) is None or num_shape(b) is None:
        return any(rank_mismatch(x, y) or any_rank_mismatch(x, y) for x, y in zip(a[1], b[1]))
    return False


def shape_class(v):
    t = v[0]
    if t in "ircyU":
        return {"i": "int", "r": "real", "c": "chr", "y": "sym", "U": "undef"}[t]
    if t == 's':
        return "str0" if not v[1] else "str"
    if t == 'L':
        if not v[1]:
            return "empty"
        s = num_shape(v)
        if s is not None:
            return f"num-rank{len(s)}"
        kinds = {x[0] for x in v[1]}
        if kinds <= {'c'}:
            return "chars"
        if kinds <= {'s'}:
            return "strs"
        if 'L' in kinds:
            return "nested"
        return "mixed"
    return t


# --------------------------------------------------------------------------- evaluation

def real_eval(klong, text):
    try:
        return U.canon(klong(text))
    except RecursionError:
        return ('E', "RecursionError")
    except Exception as e:
        return ('E', type(e).__name__)


def parse_reply(r):
    # ref=<wire|none> impl=<ok:wire|err|unmodelled>
    i = r.index(" impl=")
    ref = r[4:i]
    impl = r[i + 6:]
    return (None if ref == "none" else U.from_wire(ref)), impl


def gen_cases(ctx):
    """(arity, verb, a, b) over the closed universe"""
    rng = ctx.rng
    quick = ctx.tier == "quick"
    cases = []
    nums = [v for v in U.OPERANDS if U.depth(v) == 0 and v[0] in "ir" or v[0] == 'L']
    atoms_cmp = [v for v in U.ATOMS if v[0] in "cy"] + U.STRS
    for verb in ATOMIC_DYADS:
        pool = nums if verb in ("+", "-", "*", "&", "|", "!", ":%", "%", "^") else nums + atoms_cmp
        if verb in ("!", ":%"):
            pool = [v for v in pool if U.int_only(v)]
        for a in pool:
            for b in pool:
                cases.append(("D", verb, a, b))
    seqs = U.LISTS + U.STRS
    counts = [U.I(n) for n in U.COUNTS]
    for verb in ("#", "_", ":+"):
        for a in counts:
            for b in seqs + [U.I(5), U.C("a")]:
                cases.append(("D", verb, a, b))
    count_lists = [U.from_py(x) for x in ([1, 2], [2, 3, 5], [1, 1], [3, 3], [2, 2, 2], [1], [0], [])]
    for a in [U.I(n) for n in range(1, 8)] + [U.I(17)] + count_lists:
        for b in seqs:
            cases.append(("D", ":#", a, b))
    for a in [U.I(n) for n in range(0, 8)] + [U.from_py(x) for x in ([1, 2], [0, 3], [2, 2], [1, 3, 4], [])]:
        for b in seqs:
            cases.append(("D", ":_", a, b))
    big = [U.I(100000), U.I(100001), U.I(99999), U.L(U.I(100000), U.Y("a")), U.L(U.I(100001), U.Y("a")),
           U.from_py([100000, 1]), U.from_py([100001, 1]), U.C("a"), U.S("a")]
    for a in U.OPERANDS[::3] + big:
        for b in U.OPERANDS[::3] + big:
            cases.append(("D", "~", a, b))
    for a in big:
        for b in big[:3]:
            cases.append(("D", "?", a, b))
    for a in U.OPERANDS[::2]:
        for b in U.OPERANDS[::2]:
            cases.append(("D", ",", a, b))
    idxs = [U.I(n) for n in (0, 1, 2, 4)] + [U.from_py(x) for x in ([0], [1, 0], [0, 0, 0], [2, 1], [3, 7, 2])]
    for a in seqs:
        for b in idxs:
            cases.append(("D", "@", a, b))
        for b in U.ATOMS[::2] + [U.S("l"), U.S("yy"), U.S(""), U.S("ab"), U.S("o f")]:
            cases.append(("D", "?", a, b))
    shapes = [U.I(n) for n in (1, 2, 3, 5)] + [U.from_py(x) for x in ([3], [2, 2], [3, 3], [2, 3], [2, 2, 2], [1, 4])]
    for a in shapes:
        for b in U.LISTS + [U.I(1), U.Y("x"), U.R(0.5)]:
            cases.append(("D", ":^", a, b))
    for verb in MONADS:
        for a in U.OPERANDS + counts:
            cases.append(("M", verb, a, None))
    # ---- operands suggested by the extension models (negative / overshooting indices and cuts,
    # collision lists for Range/Group, grades, deeper shapes, more reshape shapes and sources)
    P = U.from_py
    for a in seqs:
        for b in [U.I(-1), U.I(-2), U.I(9), P([]), P([0, -1]), P([-9]), U.R(0.5)]:
            cases.append(("D", "@", a, b))
        for b in [U.I(-1), U.I(-2), U.I(9), P([3, 1]), P([1, -1])]:
            cases.append(("D", ":_", b, a))
    cases.append(("D", "@", U.L(U.I(1), U.S("a"), U.R(0.5)), P([0, 2])))
    join_extra = [P([[1, 2], [3, 4]]), P([[[5, 6], [7, 8]]]), P([[1, 2]]), P([[[3, 4], [5, 6]]]), P([[0.5, 1.5]]),
                  U.I(1), U.R(0.5), U.L(U.C("a")), U.L(U.C("b"), U.C("c"))]
    for a in join_extra:
        for b in join_extra:
            cases.append(("D", ",", a, b))
    syms = lambda n: ('L', [U.Y("s%d" % (i % 7)) for i in range(n)])
    for a, b in [(U.S("a1b"), U.I(1)), (U.S("abc"), U.Y("b")), (P([1, [2], 3]), P([2])), (P([0.5, 1.0]), U.I(1)),
                 (syms(127), U.Y("s3")), (syms(128), U.Y("s3")), (syms(129), U.Y("s3"))]:
        cases.append(("D", "?", a, b))
    for a, b in [(syms(128), syms(128)), (syms(129), syms(129)), (U.L(U.L(), U.S("")), U.L(U.S(""), U.L()))]:
        cases.append(("D", "~", a, b))
    for verb in ("<", ">"):
        for a in [U.S("hello, world"), U.S("foobar"), U.S("mississippi"), P([5, -3, 2, 7]), P([100, -100, 0]),
                  P([(i * 7) % 24 for i in range(24)]), P([1, 2, 3, 4, 5]), P([[1], [2], [3]])]:
            cases.append(("M", verb, a, None))
    collide = [U.L(U.S("a"), U.C("a")), U.L(U.I(1), U.S("1")), U.L(U.Y("a"), U.S("a")), U.L(U.Y("a"), U.Y("b"), U.Y("a")),
               U.L(U.C("a"), U.C("b"), U.C("a")), U.L(U.S("ab"), U.S("cd"), U.S("ab")),
               U.L(U.I(10), U.S("x"), U.I(10), U.C("x")), P([[1, 2], [3, 4], [1, 2]]), P([[3, 4], [1, 2], [3, 4], [1, 2]])]
    for a in collide:
        cases.append(("M", "?", a, None))
        cases.append(("M", "=", a, None))
    for a in [P([[[1, 2]], [[3, 4]]]), U.L(P([1, 2]), U.S("ab")), U.L(U.S("ab"), P([1, 2])), U.L(U.S("a"), U.S("b")),
              U.L(U.L(U.C("a"), U.C("b")), U.S("ab")), U.L(U.L(U.S("ab"), U.S("cd")), U.L(U.S("ef"), U.S("gh")))]:
        cases.append(("M", "^", a, None))
    for a in [P([2, 1, 3]), P([4, 2]), P([7]), P([3, 1, 1]), P([1]), U.I(7), U.I(17)]:
        for b in [P([1, 2, 3]), P([1]), U.I(5), U.R(0.5), U.C("a"), U.S("ab"), P([0.5, 1.5, 2.5, 3.5])]:
            cases.append(("D", ":^", a, b))
    for a in [U.S("abc"), U.L(U.L(), U.I(1)), U.Y("a"), U.I(-3)]:
        for verb in ("~", "#", "!"):
            cases.append(("M", verb, a, None))
    # ---- Match / Find must see the nesting structure: a list against itself wrapped, reshaped or flattened
    def wraps(v):
        out = [('L', [v])]
        if v[0] == 'L' and v[1]:
            out.append(('L', [('L', [x]) for x in v[1]]))            # column
            if all(x[0] == 'L' for x in v[1]):
                out.append(('L', [y for x in v[1] for y in x[1]]))   # one level flattened
        return out
    structural = [v for v in U.LISTS if v[0] == 'L'] + [P([1.5, 2.5]), P([[1.5, 2.5]]), P([[1.0, 2.0], [3.0, 4.0]]),
                                                          P([0.5]), P([[0.5]]), P([1.0, 2.0]), P([])]
    # a list against a proper prefix of itself, in both orders (strings, symbols, nested and ragged members too)
    prefixable = [v for v in U.LISTS if v[0] == 'L' and len(v[1]) >= 2] + [
        U.L(U.S("a"), U.S("b"), U.S("c")), U.L(U.Y("a"), U.Y("b"), U.Y("c")), P([1, [2], 3]), P([[1], [2, 3], [4]]),
        U.L(U.C("x"), U.C("y"), U.C("z")), U.L(U.I(1), U.S("a"), U.Y("b"))]
    for v in prefixable:
        for cut in (1, len(v[1]) - 1):
            w = ('L', v[1][:cut])
            cases.append(("D", "~", v, w))
            cases.append(("D", "~", w, v))
            cases.append(("D", "?", ('L', [v, w]), w))
            cases.append(("D", "?", ('L', [w, v]), v))
    for v in structural:
        for w in wraps(v):
            cases.append(("D", "~", v, w))
            cases.append(("D", "~", w, v))
            cases.append(("D", "?", ('L', [w, v]), v))
            cases.append(("D", "?", ('L', [v, w, v]), w))
    # ---- extension 3: Amend, Amend-in-Depth, Index-in-Depth, Divide/Power edges, Char, Format, Form
    from . import c01_ext3_cases
    cases += c01_ext3_cases.extra_cases(U, seqs)
    # ---- extension 4: Format2, Floor of large values, Grade of nested lists
    from . import c01_ext4_cases
    cases += c01_ext4_cases.extra_cases(U, seqs)
    if quick:
        # all monads; per dyadic verb: every case whose operands are atoms, strings or flat lists of at most 3
        # members (the core, the same on every seed), plus a seeded sample of the rest up to 900 per verb
        def small(v):
            return v is None or v[0] != 'L' or (len(v[1]) <= 3 and all(x[0] != 'L' for x in v[1]))
        keep, rest = [], {}
        for c in cases:
            if c[0] == "M" or (small(c[2]) and small(c[3])):
                keep.append(c)
            else:
                rest.setdefault(c[1], []).append(c)
        per_verb = {}
        for c in keep:
            per_verb[c[1]] = per_verb.get(c[1], 0) + (c[0] == "D")
        for verb, cs in rest.items():
            rng.shuffle(cs)
            keep += cs[:max(0, 900 - per_verb.get(verb, 0))]
        cases = keep
    return cases


def case_text(c):
    ar, verb, a, b = c
    if ar == "M":
        return f"{verb}({U.klit(a, False)})" if a[0] not in "ir" else f"{verb}{U.klit(a)}"
    return f"({U.klit(a, False)}){verb}({U.klit(b, False)})"


def computed_text(c):
    """the same application with its numeric atom operands COMPUTED (n+0: a numpy scalar) instead of
    read from a literal (a Python number); None when no operand is a numeric atom"""
    ar, verb, a, b = c

    def lit(v):
        if v[0] == 'i':
            return f"({U.klit(v)}+0)"
        if v[0] == 'r':
            return f"({U.klit(v)}+0.0)"
        return "(" + U.klit(v, False) + ")"
    if not any(o is not None and o[0] in "ir" for o in (a, b)):
        return None
    return f"{verb}{lit(a)}" if ar == "M" else f"{lit(a)}{verb}{lit(b)}"


def np_shape(v):
    """shape of the array numpy builds for the nest (object arrays included): a dimension is
    added as long as ALL members at that depth are lists of one common length"""
    shape = []
    frontier = [v]
    while frontier and all(x[0] == 'L' for x in frontier) and len({len(x[1]) for x in frontier}) == 1:
        n = len(frontier[0][1])
        shape.append(n)
        if n == 0:
            break
        frontier = [y for x in frontier for y in x[1]]
    return tuple(shape)


def contains(v, pred):
    return pred(v) or (v[0] == 'L' and any(contains(x, pred) for x in v[1]))


def mixed_numeric_array(v):
    """a regular nest of numbers holding both integers and reals: numpy stores it as one float
    array, so the integer kind of some members is lost"""
    if v[0] != 'L':
        return False
    if num_shape(v) is not None:
        kinds = set()

        def leaves(x):
            if x[0] == 'L':
                for y in x[1]:
                    leaves(y)
            else:
                kinds.add(x[0])
        leaves(v)
        if kinds == {'i', 'r'}:
            return True
    return any(mixed_numeric_array(x) for x in v[1])


def classify_failure(c, ref, real):
    """stable key for a failing call site: the specific known classes first (each a decidable
    predicate on verb and operands), otherwise verb + operand shape classes"""
    ar, verb, a, b = c
    ops = [a] if b is None else [a, b]
    if ar == "D" and verb in ATOMIC_DYADS:
        if any_rank_mismatch(a, b):
            return "atomic:rank-mismatch"
        sa, sb = np_shape(a), np_shape(b)
        if sa != sb and sa != () and sb != ():
            return "atomic:numpy-shape-mismatch"
        if any(num_shape(o) is None and len(np_shape(o)) >= 2 for o in ops):
            return "atomic:object-array-rank2"
        if verb in ("<", ">") and any(contains(o, lambda x: x == ('L', [])) for o in ops) \
                and any(contains(o, lambda x: x[0] in "scy") for o in ops):
            return "compare:text-vs-empty-list"
    if ar == "M" and verb == "=" and a[0] == 'L' and (
            any(x[0] == 'L' for x in a[1]) or len({x[0] for x in a[1]}) > 1):
        return "group:nested-or-mixed-elements"
    if ar == "D" and verb == "," and any(num_shape(o) is None and len(np_shape(o)) >= 2 for o in ops):
        return "join:object-array-rank2"
    if ar == "D" and verb == ":^" and any(o[0] == 'y' for o in ops):
        return "reshape:symbol-atom"
    if ar == "D" and verb == "," and real[0] == 'E' and all(o[0] == 'L' for o in ops) \
            and len({len(np_shape(o)) for o in ops}) > 1:
        return "join:numpy-repack-raises"
    if (any(U.has_mixed_numeric_level(o) for o in ops) or mixed_numeric_array(ref)) \
            and real[0] != 'E' and U.veq(ref, real, kinds=False):
        return "mixed-numeric-level"
    if verb == "$" and any(U.has_mixed_numeric_level(o) for o in ops) and real[0] != 'E':
        return "mixed-numeric-level"      # the integers of the level are formatted as the reals they were stored as
    if ar == "D" and verb in (":=", ":-") and real[0] != 'E' and U.veq(ref, real, kinds=False):
        return "amend:integer-into-real-array"
    if ar == "D" and verb in (":=", ":-") and b[0] == 'L' and b[1] and b[1][0][0] == 'L' and real[0] != 'E':
        return "amend:repack-broadcast"
    return f"{ar}{verb}:" + ":".join(shape_class(o) for o in ops)


# manual examples that contradict the manual's own text (kept out of the comparison, with the reason)
ERRATA = {
    "!1": "the text says 0..a-1, i.e. [0]; the example shows [1]",
    "1:+[[1 2] [4 5] [5 6]]": "the text says n:+M rotates the rows; the example shows the matrix unchanged",
    ":#64": "code point 64 is @ (A is 65); the example shows 0cA",
    "[2]:^[[1 2 3]]": "contradicts 'elements are taken from b in sequential order'; Ref leaves nested sources undefined",
}


def run_reference_corpus(ctx, drv):
    """validate the transcription `Ref`: every `lhs --> rhs` example in the docstrings of the modelled
    verbs (read with the real lexer, never evaluated) must be reproduced by the Lean reference"""
    import ast as _ast
    from klongpy import KlongInterpreter
    from klongpy.parser import kg_read
    klong = KlongInterpreter()
    verbs_m = {v: k for k, v in EXPECT_MONADS.items()}
    verbs_d = {v: k for k, v in EXPECT_DYADS.items()}
    stats = dict(examples=0, parsed=0, ref_defined=0, agree=0, errata=0, disagree=[])

    def lit(text, i):
        try:
            j, v = kg_read(text, i, read_neg=True, module=None)
        except Exception:
            return None
        from klongpy.core import KGOp, KGSym
        if isinstance(v, KGOp) or v is None:
            return None
        c = U.canon(v)
        if "'X'" in repr(c) or "'D'" in repr(c):
            return None              # dictionaries / calls: outside the C01 value universe
        return j, c
    for path, pre, table in (("klongpy/monads.py", "eval_monad_", verbs_m), ("klongpy/dyads.py", "eval_dyad_", verbs_d)):
        tree = _ast.parse((common.REPO / path).read_text())
        for node in tree.body:
            if not (isinstance(node, _ast.FunctionDef) and node.name in table):
                continue
            verb = table[node.name]
            for line in (_ast.get_docstring(node) or "").split("\n"):
                if "-->" not in line:
                    continue
                lhs, rhs = line.replace("Examples:", "").replace("Example:", "").split("-->", 1)
                lhs, rhs = lhs.strip(), rhs.strip().rstrip(".")
                stats["examples"] += 1
                if rhs.count("[") != rhs.count("]") or lhs.count("[") != lhs.count("]"):
                    continue            # an example laid out over several lines
                want = lit(rhs, 0)
                if want is None or rhs[want[0]:].strip():
                    continue
                if pre == "eval_monad_":
                    if not lhs.startswith(verb):
                        continue
                    a = lit(lhs, len(verb))
                    if a is None or lhs[a[0]:].strip():
                        continue
                    line_req = f"M {verb} {U.to_wire(a[1])}"
                else:
                    a = lit(lhs, 0)
                    if a is None or not lhs[a[0]:].startswith(verb):
                        continue
                    b = lit(lhs, a[0] + len(verb))
                    if b is None or lhs[b[0]:].strip():
                        continue
                    line_req = f"D {verb} {U.to_wire(a[1])} {U.to_wire(b[1])}"
                stats["parsed"] += 1
                ref, _ = parse_reply(drv.ask(line_req))
                if ref is None:
                    continue
                stats["ref_defined"] += 1
                if lhs in ERRATA:
                    stats["errata"] += 1
                elif U.veq(ref, want[1], kinds=not (mixed_numeric_array(ref) or U.has_mixed_numeric_level(ref))):
                    stats["agree"] += 1
                else:
                    stats["disagree"].append(dict(example=line.strip(), ref=U.show(ref), manual=U.show(want[1])))
    ctx.extra["reference_corpus"] = stats
    # a disagreement is a defect of the transcription (trusted base), not of klongpy
    ctx.obligation("reference transcription reproduces the manual's examples",
                   not stats["disagree"], str(stats["disagree"][:5]))


def run_reshape_half(ctx, klong):
    """Reshape: "when the value -1 appears in the shape, it denotes half the size of the source vector".  Oracle by
    substitution: a:^b with -1 in a equals the same Reshape with (#b):%2 written out; the shape is held in a
    variable and used again with a source of another size (it must not be changed by the verb)"""
    shapes = [[-1, 2], [2, -1], [-1], [-1, 3], [3, -1], [2, -1, 2], [-1, -1]]
    sources = [list(range(10)), list(range(6)), list(range(8)), [1.5, 2.5, 3.5, 4.5], list(range(12)), [7, 8]]
    P = U.from_py
    for sh in shapes:
        klong(f"c01vs::{U.klit(P(sh), False)}")
        for src in sources:
            half = len(src) // 2
            if half == 0:
                continue
            want_sh = [half if d == -1 else d for d in sh]
            lit = U.klit(P(src), False)
            want = real_eval(klong, f"{U.klit(P(want_sh), False)}:^{lit}")
            for form in (f"c01vs:^{lit}", f"{U.klit(P(sh), False)}:^{lit}"):
                got = real_eval(klong, form)
                ctx.count(("reshape-half", tuple(sh), tuple(src), form[:5]), nontrivial=True)
                ctx.bump("reshape:half-size-cases")
                if want[0] == 'E' or got[0] == 'E' or not U.veq(want, got):
                    ctx.oracle_fail("reshape:half-size", dict(text=f"c01vs::{U.klit(P(sh), False)};{form}", earlier_sources="see rule"),
                                    U.show(want) if want[0] != 'E' else f"raises {want[1]}",
                                    U.show(got) if got[0] != 'E' else f"raises {got[1]}",
                                    "-1 in the shape must denote half the size of THIS source")
            now = U.canon(klong("c01vs"))
            if now != P(sh):
                ctx.oracle_fail("operand-changed:D:^", dict(text=f"c01vs::{U.klit(P(sh), False)};c01vs:^{lit};c01vs"),
                                U.show(P(sh)), U.show(now), "Reshape changed the value of its shape operand")
                klong(f"c01vs::{U.klit(P(sh), False)}")


def run(ctx):
    from klongpy import KlongInterpreter
    klong = KlongInterpreter()
    drv = Driver("c01") if getattr(ctx, "driver_ok", True) else None
    ctx.rule = ("every modelled verb x operands (operand pairs for dyads) of the closed universe of DESIGN §6, evaluated "
                "as source text; quick: all monads + a seeded sample of dyad pairs, thorough: all. distinct = distinct "
                "(verb, operands); non-trivial = the reference defines a result")
    ctx.assumptions += ["|n| < 2^31 (no int64 wrap-around)", "reals compared within 1e-9 relative, kinds exactly",
                        "Grade on ties / Power kinds / Match tolerance: see DESIGN C01 spec decisions"]
    cases = gen_cases(ctx)
    try:
        if drv:
            run_reference_corpus(ctx, drv)
        lines = []
        for c in cases:
            ar, verb, a, b = c
            lines.append(f"{ar} {verb} {U.to_wire(a)}" + (f" {U.to_wire(b)}" if b is not None else ""))
        replies = drv.ask_many(lines) if drv else [None] * len(cases)
        per_verb = {}
        nvariants = 0
        nbound = 0
        for c, rep in zip(cases, replies):
            ar, verb, a, b = c
            text = case_text(c)
            real = real_eval(klong, text)
            ref, impl = parse_reply(rep) if rep else (None, "unmodelled")
            st = per_verb.setdefault(ar + verb, dict(cases=0, ref_defined=0, impl_modelled=0))
            st["cases"] += 1
            ctx.count((ar, verb, a, b), nontrivial=ref is not None)
            if ref is not None:
                st["ref_defined"] += 1
                if real[0] == 'E' or not U.veq(ref, real):
                    key = classify_failure(c, ref, real)
                    ctx.oracle_fail(key, dict(text=text), U.show(ref),
                                    U.show(real) if real[0] != 'E' else f"raises {real[1]}",
                                    f"{'dyad' if ar == 'D' else 'monad'} {verb}: reference value differs")
                    ctx.bump("oracle-deviation:" + key)
                    continue
            if impl.startswith("ok:"):
                st["impl_modelled"] += 1
                iv = U.from_wire(impl[3:])
                if real[0] == 'E' or not U.veq(iv, real):
                    # operands the interpreter stores differently from their literal (mixed int/real level)
                    ops = [a] if b is None else [a, b]
                    if any(U.has_mixed_numeric_level(o) for o in ops):
                        ctx.bump("impl-skip:mixed-numeric-level")
                        continue
                    ctx.mismatch(f"Klong.C01.impl {ar} {verb} vs interpreter", dict(text=text), U.show(iv),
                                 U.show(real) if real[0] != 'E' else f"raises {real[1]}")
            elif impl == "err" and ref is None and real[0] != 'E':
                ctx.bump("impl-err-but-real-returns")   # outside the reference: it may accept more
            # the same application with computed (numpy scalar) atoms must give the same value
            ctext = computed_text(c) if ref is not None and real[0] != 'E' else None
            atoms_only = all(o is None or o[0] != 'L' for o in (a, b))
            if ctext is not None and (ar == "M" or atoms_only or nvariants % 4 == 0 or ctx.tier != "quick"):
                real2 = real_eval(klong, ctext)
                ctx.bump("computed-atom-variants")
                if real2[0] == 'E' or not U.veq(ref, real2):
                    ctx.oracle_fail("computed-atom:" + f"{ar}{verb}:" + ":".join(shape_class(o) for o in ([a] if b is None else [a, b])),
                                    dict(text=ctext), U.show(ref), U.show(real2) if real2[0] != 'E' else f"raises {real2[1]}",
                                    f"{verb}: operands computed as n+0 give another value than the literals")
            if ctext is not None:
                nvariants += 1
            # the same application with its operands BOUND to variables (the expression compiler's path for the
            # atomic verbs), in all three mixes of variable / literal; a verb must not change its operands
            if ref is not None and real[0] != 'E' and (atoms_only or nbound % 3 == 0 or ctx.tier != "quick"):
                la, lb = "(" + U.klit(a, False) + ")", (None if b is None else "(" + U.klit(b, False) + ")")
                klong(f"c01va::{la}")
                if lb is not None:
                    klong(f"c01vb::{lb}")
                before = (U.canon(klong("c01va")), U.canon(klong("c01vb")) if lb is not None else None)
                forms = [f"{verb}c01va"] if ar == "M" else [f"c01va{verb}c01vb", f"c01va{verb}{lb}", f"{la}{verb}c01vb"]
                for form in forms:
                    real3 = real_eval(klong, form)
                    ctx.bump("bound-operand-variants")
                    if real3[0] == 'E' or not U.veq(real, real3):
                        ctx.oracle_fail("bound-operand:" + f"{ar}{verb}:" + ":".join(shape_class(o) for o in ([a] if b is None else [a, b])),
                                        dict(text=f"c01va::{la};" + (f"c01vb::{lb};" if lb else "") + form), U.show(real),
                                        U.show(real3) if real3[0] != 'E' else f"raises {real3[1]}",
                                        f"{verb}: operands held in variables give another value than the same literals")
                        break
                after = (U.canon(klong("c01va")), U.canon(klong("c01vb")) if lb is not None else None)
                if after != before:
                    ctx.oracle_fail("operand-changed:" + f"{ar}{verb}", dict(text=f"c01va::{la};" + (f"c01vb::{lb};" if lb else "") + forms[0]),
                                    U.show(before[0]) + (" ; " + U.show(before[1]) if before[1] else ""),
                                    U.show(after[0]) + (" ; " + U.show(after[1]) if after[1] else ""),
                                    f"{verb} changed the value of an operand variable")
            nbound += 1
            if len(ctx.samples) < 6 and ref is not None and st["ref_defined"] % 97 == 1:
                ctx.sample(dict(text=text, ref=U.show(ref), real=U.show(real) if real[0] != 'E' else real[1]))
        ctx.extra["per_verb"] = per_verb
        run_reshape_half(ctx, klong)
    finally:
        if drv:
            drv.close()


def replay(ctx, case):
    from klongpy import KlongInterpreter
    klong = KlongInterpreter()
    text = case.get("case", {}).get("text")
    print("replay:", text, "->", real_eval(klong, text), "expected", case.get("expected"))
    run(ctx)
