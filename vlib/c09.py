"""C09 — the interpreter is a faithful dictionary of Python values and functions.

Correspondence: instrumented Python callables of all 32 signatures (arity 0..3 over x,y,z in
any order, with and without a leading `klong`) x argument tuples x call forms (direct,
projection, each, over, @) x calling contexts (top level, inside a Klong function whose x,y,z
are bound, arguments referring to the enclosing x,y,z, a global named y) on the REAL
KlongInterpreter, and seeded histories of klong[name]=v / name::{...} / name::f(a;) /
del klong[name] / klong[name] / klong[name](*args) / klong('name(a;b;c)'), against the Lean
model `Klong.C09` (kd_c09).  Values travel as interned tokens: the model never inspects a
value, the real code is run with the real values.

Oracle (needs no model): the recorded call log of the instrumented callables vs the
separately evaluated arguments; the return value vs the application's value;
klong[name](*args) vs klong('name(a;b;c)') run side by side; read-back identity of data.
"""
import functools
import itertools
import json

import numpy as np

from . import common
from .common import Driver

CLAIM = dict(
    text="Lean 4 theorems over the interop model: for every signature whose parameters are distinct names among "
         "x,y,z in any order (optionally after klong), every context stack and every argument tuple, each call form "
         "(direct, projection, each, over, @) invokes the callable exactly once per application with exactly the "
         "evaluated arguments in positional order and yields its return value (writer log); the store is a finite "
         "map with wrap-on-set / unwrap-on-get through every history; the Python-side wrapper of a Klong function "
         "equals the Klong call in every state, follows redefinition, rejects a wrong argument count and survives "
         "deletion. Model tied to klongpy by differential correspondence over all 32 signatures x forms x contexts "
         "and over seeded redefinition/deletion histories.",
    note="trusted: Lean kernel (axioms propext/Classical.choice/Quot.sound), correspondence harness and its "
         "canonicaliser, CPython (inspect.signature, positional binding of a call), numpy. Values are opaque to the "
         "model; Klong function bodies are uninterpreted (a recorder callable observes them on the real side); "
         "argument EXPRESSION evaluation, nested projections (C03) and modules are outside the model.",
    technique="Lean 4 decision-logic theorems with a writer log + finite-map refinement, hand-written model, "
              "differential correspondence + independent call-log oracle",
    design="7/C09")

MODULES = ["Klong.Props.C09"]
THEOREMS = [
    "Klong.C09.callable_gets_args_in_order",
    "Klong.C09.callable_gets_args_in_order_partial",
    "Klong.C09.byName_fails_on_lambda_y",
    "Klong.C09.byName_leaks_enclosing_frame",
    "Klong.C09.byName_fails_on_lambda_x_z",
    "Klong.C09.arity_valid",
    "Klong.C09.at_gets_args_in_order",
    "Klong.C09.projection_gets_args_in_order",
    "Klong.C09.each_calls_once_per_member",
    "Klong.C09.over_folds_single_calls",
    "Klong.C09.overSpec_log",
    "Klong.C09.seq_calls_once_per_tuple",
    "Klong.C09.each_pair_calls_once_per_pair",
    "Klong.C09.each_left_calls_once_per_member",
    "Klong.C09.each_right_calls_once_per_member",
    "Klong.C09.each2_calls_once_per_position",
    "Klong.C09.scan_folds_single_calls",
    "Klong.C09.scanSpec_log",
    "Klong.C09.over_neutral_folds_single_calls",
    "Klong.C09.store_roundtrip",
    "Klong.C09.store_set_other",
    "Klong.C09.store_last_write_wins",
    "Klong.C09.store_del_global",
    "Klong.C09.stored_callable_roundtrip",
    "Klong.C09.wrapper_eq_klong_call",
    "Klong.C09.wrapper_follows_redefinition",
    "Klong.C09.wrapper_rejects_wrong_arity",
    "Klong.C09.wrapper_rejects_wrong_arity_general",
    "Klong.C09.wrapper_survives_deletion",
]

# --------------------------------------------------------------------------- universes

SIGS = []
for _n in range(4):
    for _p in itertools.permutations("xyz", _n):
        SIGS.append(tuple(_p))
        SIGS.append(("klong",) + tuple(_p))
assert len(SIGS) == 32


def sig_wire(sig):
    return ",".join("k" if p == "klong" else p for p in sig)


def sig_arity(sig):
    return len([p for p in sig if p != "klong"])


def sig_class(sig):
    names = sorted(p for p in sig if p != "klong")
    return "prefix" if names == ["x", "y", "z"][:len(names)] else "nonprefix"


def universe():
    """(python value, klong literal or None, usable as a member of a list literal)"""
    from klongpy.core import KGChar, KGSym
    return [
        (0, "0", True), (1, "1", True), (-1, "-1", False), (7, "7", True), (100, "100", True),
        (0.5, "0.5", True), (-2.5, "-2.5", False),
        ("", '""', True), ("a", '"a"', True), ("abc", '"abc"', True), ('say "hi"', '"say ""hi"""', True),
        (KGChar("a"), "0ca", True),
        (KGSym("qq"), ":qq", True),
        (np.array([1, 2, 3]), "[1 2 3]", True),
        (np.array([1.5, 2.5]), "[1.5 2.5]", True),
        (np.array([[1, 2], [3, 4]]), "[[1 2] [3 4]]", True),
        ([1, 2, 3], None, False),                       # a Python list (var mode only)
        ([1, [2, 3]], "[1 [2 3]]", True),               # ragged Python list
        (["a", "bc"], '["a" "bc"]', True),
        ([[1, 2], [3]], "[[1 2] [3]]", True),
        ({1: 2}, ":{[1 2]}", False), ({}, ":{}", False),
        (np.array([]), "[]", True),
        ([], None, False),                              # an empty Python list (var mode only)
        (1.0, "1.0", False), (0.0, "0.0", False),       # == 1 / 0 in Python, different Klong values
    ]


N_U = 26
# pairs that compare == in Python but are different Klong values (integer/real, character/string)
TWINS = {1: 24, 24: 1, 0: 25, 25: 0, 8: 11, 11: 8}
EMPTY_IDX = [7, 22, 21, 23]         # "", [], :{}, Python []
ATOM_IDX = list(range(0, 13)) + [20, 21, 24, 25]            # values f@a passes as ONE argument (not lists)
LISTVAL_IDX = [13, 14, 15, 17, 18, 19, 22]          # list-valued literals (2+ members, ragged, strings, empty)
LIT_IDX = None      # filled lazily: indices with a literal
LIST_IDX = None     # indices usable inside a list literal


def _init_idx():
    global LIT_IDX, LIST_IDX
    if LIT_IDX is None:
        u = universe()
        assert len(u) == N_U
        LIT_IDX = [i for i, e in enumerate(u) if e[1] is not None]
        LIST_IDX = [i for i, e in enumerate(u) if e[2]]


def canon(v):
    """canonical JSON-able form: kinds kept apart, containers as lists"""
    from klongpy.core import KGChar, KGSym, KGFn, KGLambda
    if v is None:
        return ["N"]
    if isinstance(v, (KGFn, KGLambda)):
        return ["F"]
    if type(v).__name__ == "KGUndefined":
        return ["U"]
    if isinstance(v, np.ndarray):
        if v.ndim == 0:
            return canon(v.item())
        return ["L"] + [canon(x) for x in v]
    if isinstance(v, (list, tuple)):
        return ["L"] + [canon(x) for x in v]
    if isinstance(v, dict):
        return ["D"] + sorted(([canon(k), canon(x)] for k, x in v.items()), key=lambda p: json.dumps(p))
    if isinstance(v, KGSym):
        return ["y", str(v)]
    if isinstance(v, KGChar):
        return ["c", str(v)]
    if isinstance(v, (str, np.str_)):
        return ["s", str(v)]
    if isinstance(v, (bool, np.bool_)):
        return ["i", int(v)]
    if isinstance(v, (int, np.integer)):
        return ["i", int(v)]
    if isinstance(v, (float, np.floating)):
        return ["r", repr(float(v))]
    if callable(v):
        return ["P"]
    return ["O", type(v).__name__, repr(v)]


class Interner:
    """canonical value <-> token (token 0 is never a real value)"""

    def __init__(self):
        self.ids = {"<missing>": 0}

    def tok(self, v):
        k = json.dumps(canon(v), sort_keys=True)
        if k not in self.ids:
            self.ids[k] = len(self.ids)
        return self.ids[k]

    def toks(self, vs):
        return ",".join(str(self.tok(v)) for v in vs)


def err_name(e):
    from klongpy.core import KlongException
    if isinstance(e, RuntimeError) and "Klong function called with" in str(e):
        return "err:arity"
    if isinstance(e, KeyError):
        return "err:keyerror"
    if isinstance(e, KlongException) and str(e).startswith("undefined"):
        return "err:undefined"
    return f"err:{type(e).__name__}"


# How the stored callable is built.  Everything except "plain" deliberately SHARES code objects
# between callables of different signatures / identities within the process, the way real
# programs do (one decorator, one factory, one class), so that anything klongpy remembers per
# code object, per class or per name instead of per callable shows up.
CKINDS = ["plain", "wraps", "closure", "partial", "method", "instance"]


def _shared_traced(fn):
    """ONE ordinary signature-preserving decorator for every decorated callable of the process"""
    @functools.wraps(fn)
    def wrapper(*args):
        return fn(*args)
    return wrapper


_FACTORIES = {}


def _factory(sig, shape):
    """factory(_rec, cid) -> callable; cached, so its products share their code objects"""
    key = (tuple(sig), shape)
    if key not in _FACTORIES:
        names = [p for p in sig if p != "klong"]
        call = (f"_rec(cid, {'klong' in sig}, {'klong' if 'klong' in sig else 'None'}, "
                f"({''.join(n + ', ' for n in names)}))")
        if shape == "fn":
            src = (f"def _factory(_rec, cid):\n    def _f({', '.join(sig)}):\n        return {call}\n    return _f\n")
        elif shape == "tagged":
            src = (f"def _factory(_rec, cid):\n    def _f({', '.join(('_tag',) + tuple(sig))}):\n        return {call}\n"
                   f"    return _f\n")
        elif shape == "method":
            src = (f"def _factory(_rec, cid):\n    class _C:\n        def m({', '.join(('self',) + tuple(sig))}):\n"
                   f"            return {call}\n    return _C().m\n")
        else:
            src = (f"def _factory(_rec, cid):\n    class _C:\n        def __call__({', '.join(('self',) + tuple(sig))}):\n"
                   f"            return {call}\n    return _C()\n")
        d = {}
        exec(src, d)
        _FACTORIES[key] = d["_factory"]
    return _FACTORIES[key]


class World:
    """instrumented callables of one case / history, on one real interpreter"""

    def __init__(self, rets):
        from klongpy import KlongInterpreter
        self.klong = KlongInterpreter()
        self.rets = rets
        self.log = []       # (cid, klong_ok, args tuple)
        self.rlog = []      # recorder of Klong function bodies

    def _rec(self, cid, wants_klong, k, args):
        i = len(self.log)
        self.log.append((cid, bool(wants_klong and k is self.klong), tuple(args)))
        return self.rets[i] if i < len(self.rets) else None

    def make(self, sig, cid, ckind="plain"):
        if ckind == "closure":
            return _factory(sig, "fn")(self._rec, cid)
        if ckind == "wraps":
            return _shared_traced(_factory(sig, "fn")(self._rec, cid))
        if ckind == "partial":
            return functools.partial(_factory(sig, "tagged")(self._rec, cid), "tag")
        if ckind == "method":
            return _factory(sig, "method")(self._rec, cid)
        if ckind == "instance":
            return _factory(sig, "instance")(self._rec, cid)
        names = [p for p in sig if p != "klong"]
        src = (f"def _f({', '.join(sig)}):\n"
               f"    return _rec({cid}, {'klong' in sig}, {'klong' if 'klong' in sig else 'None'}, "
               f"({''.join(n + ', ' for n in names)}))\n")
        d = {"_rec": self._rec}
        exec(src, d)
        return d["_f"]

    def import_fn(self, ctx, names, cid, ndefaults=0):
        """a module function with arbitrary parameter names, brought in through .py("file")"""
        d = ctx.mkdtemp()
        World._modn = getattr(World, "_modn", 0) + 1
        path = f"{d}/c09m_{World._modn}.py"
        plain = [n for n in names if n != "klong"]
        with open(path, "w") as fh:
            # defaulted trailing parameters must keep their defaults: they only show up in the log if they do not
            dfl = [f"dflt{i}" for i in range(ndefaults)]
            params = list(names) + [f"{q}='__dflt__'" for q in dfl]
            fh.write(f"def f({', '.join(params)}):\n"
                     f"    return _rec({cid}, {'klong' in names}, {'klong' if 'klong' in names else 'None'}, "
                     f"({''.join(n + ', ' for n in plain)}) + tuple(v for v in ({''.join(q + ', ' for q in dfl)}) if v != '__dflt__'))\n")
        if getattr(World, "_modn", 0) % 2:
            self.klong(f'.pyf("{path}";"f")')
        else:
            self.klong(f'.py("{path}")')
        from klongpy.core import KGSym
        e = self.klong._context[KGSym("f")]
        getattr(e, "a", e).fn.__globals__["_rec"] = self._rec        # stored as a bare KGLambda

    def install_recorder(self):
        def r(x):
            self.rlog.append(x)
            return x

        def kerr():
            raise KeyError("boom")

        def rk1(x):
            self.rlog.extend([x])
            return x

        def rk2(x, y):
            self.rlog.extend([x, y])
            return x

        def rk3(x, y, z):
            self.rlog.extend([x, y, z])
            return x
        self.klong["r"] = r
        self.klong["kerr"] = kerr
        self.klong["rk1"], self.klong["rk2"], self.klong["rk3"] = rk1, rk2, rk3
        self.klong["idf"] = lambda x: x

    def thin_recorder(self, arity, body):
        """the named callable a thin-wrapper body calls: records [body, args...], returns body"""
        ps = list("xyz"[:arity])
        d = {"_rl": self.rlog}
        exec(f"def _t({', '.join(ps)}):\n    _rl.extend([{', '.join([str(body)] + ps)}])\n    return {body}\n", d)
        self.klong[f"t{body}"] = d["_t"]

    def show_log(self, it, start):
        return ";".join(f"{cid}/{1 if k else 0}/{'.'.join(str(it.tok(a)) for a in args)}"
                        for cid, k, args in self.log[start:])


def klit(u, i):
    return u[i][1]


# --------------------------------------------------------------------------- part 1: call forms

FORMS = {0: ["direct", "at"], 1: ["direct", "each", "at"], 2: ["direct", "proj", "over", "at"],
         3: ["direct", "proj", "at"]}
CONTEXTS = ["top", "nested", "ref", "globaly", "asarg", "wrapped"]     # wrapped: inside a Klong function called through klong['wf'](...)


def _pick(rng, pool):
    """a value index, biased towards the empties ("" / [] / :{}) that the pool allows"""
    e = [i for i in EMPTY_IDX if i in pool]
    return rng.choice(e) if e and rng.random() < 0.2 else rng.choice(pool)


def gen_pycall(rng, sig, form, where):
    _init_idx()
    ar = sig_arity(sig)
    case = dict(kind="pycall", sig=list(sig), form=form, where=where)
    ALL = list(range(N_U))
    if form == "at" and ar == 1 and rng.random() < 0.5:
        # f@a with an ATOM a (a string however short, a number, a dictionary): a is the one argument
        case["atom"] = True
        src = "ref" if where == "ref" else rng.choice(["var", "lit"])
        case["src"] = src
        lit_atoms = [i for i in ATOM_IDX if i in LIT_IDX]
        case["args"] = [rng.randrange(3)] if src == "ref" else [_pick(rng, lit_atoms if src == "lit" else ATOM_IDX)]
        case["rets"] = [-(1 + rng.randrange(N_U)) if rng.random() < 0.5 else 2000 + i for i in range(4)]
    elif form in ("each", "over", "at"):
        if form == "at":
            n = ar
        else:
            n = rng.choice([0, 1, 2, 3, 4, 5])
        case["elems"] = [_pick(rng, LIST_IDX) for _ in range(n)]
        case["rets"] = [1000 + rng.randrange(50) * 7 + i for i in range(8)]     # ints
        case["src"] = "lit"
    else:
        src = "ref" if where == "ref" else rng.choice(["var", "lit"])
        case["src"] = src
        if src == "ref":
            case["args"] = [rng.randrange(3) for _ in range(ar)]                 # which of x,y,z of the caller
        elif src == "lit":
            case["args"] = [_pick(rng, LIT_IDX) for _ in range(ar)]
        else:
            case["args"] = [_pick(rng, ALL) for _ in range(ar)]
        case["rets"] = [-(1 + rng.randrange(N_U)) if rng.random() < 0.5 else 2000 + i for i in range(4)]
        if form == "proj":
            while True:
                mask = [rng.random() < 0.5 for _ in range(ar)]
                if any(mask) and not all(mask):
                    break
            case["mask"] = mask
            if src == "var":
                case["src"] = "lit"
                case["args"] = [_pick(rng, LIT_IDX) for _ in range(ar)]
            if case["src"] == "lit" and rng.random() < 0.45:
                # a LIST-valued fixed argument positioned before an open slot: f([1 2];), f(1;[4 5 6];), f([];;)
                h = rng.randrange(1, ar)
                j = rng.randrange(h)
                mask[h] = False
                mask[j] = True
                case["args"][j] = rng.choice(LISTVAL_IDX)
    if where == "asarg":
        if (form in ("direct", "proj") and ar > 2) or (form == "proj" and ar != 2):
            case["where"] = where = "top"           # x holds the callable: only y, z are left for arguments
        elif form == "proj":
            case["mask"] = [True, False]
    case["frame"] = [rng.choice([901, 902, 903, 17, 0]) for _ in range(3)] if where in ("nested", "ref", "wrapped") else []
    if case["frame"] and rng.random() < 0.5 and where != "wrapped":
        # the enclosing function's x,y,z are universe values (empties included), not just integers
        pool = [i for i in ATOM_IDX if i in LIT_IDX] if case.get("atom") else LIT_IDX
        case["frame_u"] = [_pick(rng, pool) for _ in range(3)]
    # how the callable is built, and other callables of OTHER signatures built the same way and
    # stored in the same interpreter before / after it
    case["ckind"] = rng.choice(CKINDS)
    case["decoys"] = [[list(rng.choice(SIGS)), rng.choice(["before", "after"]),
                       case["ckind"] if rng.random() < 0.7 else rng.choice(CKINDS)]
                      for _ in range(rng.choice([0, 1, 2, 3]))]
    return case


def _ret_values(case, u):
    out = []
    for r in case["rets"]:
        out.append(u[-r - 1][0] if r < 0 else r)
    return out


def run_pycall(ctx, drv, case):
    """one application of an instrumented callable: real code, model, oracle"""
    u = universe()
    it = Interner()
    sig = tuple(case["sig"])
    form, where, src = case["form"], case["where"], case["src"]
    ar = sig_arity(sig)
    w = World(_ret_values(case, u))
    klong = w.klong
    ckind = case.get("ckind", "plain")
    decoys = case.get("decoys", [])
    for j, (dsig, pos, dk) in enumerate(decoys):
        if pos == "before":
            klong[f"d{j}"] = w.make(tuple(dsig), 2 + j, dk)
    if case.get("imported") is not None:
        w.import_fn(ctx, case["imported"], 1, case.get("imported_defaults", 0))
    else:
        klong["f"] = w.make(sig, 1, ckind)
    for j, (dsig, pos, dk) in enumerate(decoys):
        if pos == "after":
            klong[f"d{j}"] = w.make(tuple(dsig), 2 + j, dk)
    frame = case["frame"]
    frame_txt = [str(v) for v in frame]
    if where == "globaly":
        klong["y"] = 555
    # ---- build the program text and the expected (separately evaluated) arguments
    try:
        if case.get("frame_u"):
            frame_txt = [klit(u, i) for i in case["frame_u"]]
            frame = [klong(t) for t in frame_txt]
        if form in ("each", "over", "at") and not case.get("atom"):
            ltxt = "[" + " ".join(klit(u, i) for i in case["elems"]) + "]"
            evaluated = klong(ltxt)
            elems = [x for x in evaluated]
            body = {"each": f"f'{ltxt}", "over": f"f/{ltxt}", "at": f"f@{ltxt}"}[form]
            exp_args = elems
        else:
            if src == "ref":
                texts = ["xyz"[i] for i in case["args"]]
                exp_args = [frame[i] for i in case["args"]]
            elif src == "lit":
                texts = [klit(u, i) for i in case["args"]]
                exp_args = [klong(t) for t in texts]
            else:
                texts = []
                exp_args = []
                for j, i in enumerate(case["args"]):
                    klong[f"a{j}"] = u[i][0]
                    texts.append(f"a{j}")
                    exp_args.append(u[i][0])
            if form == "direct":
                body = "f(" + ";".join(texts) + ")"
            elif form == "at":
                body = "f@" + texts[0]
            else:
                mask = case["mask"]
                fixed = ";".join(t if m else "" for t, m in zip(texts, mask))
                rest = ";".join(t for t, m in zip(texts, mask) if not m)
                body = f"g::f({fixed});g({rest})"
        prog = body if not frame else "{x;y;z;" + body + "}(" + ";".join(frame_txt) + ")"
        if where == "asarg":
            if form in ("each", "over", "at") and not case.get("atom"):
                prog = "{x%sy}(f;%s)" % ({"each": "'", "over": "/", "at": "@"}[form], ltxt)
            elif form == "at":
                prog = "{x@y}(f;%s)" % texts[0]
            elif form == "direct":
                prog = "{x(%s)}(%s)" % (";".join("yz"[:ar]), ";".join(["f"] + texts))
            else:
                prog = "{[g];g::x(y;);g(z)}(f;%s)" % ";".join(texts)
    except Exception as e:  # evaluating a literal / storing an argument failed
        ctx.oracle_fail(f"construct:pycall:{type(e).__name__}", case, "literals evaluate, arguments can be stored",
                        f"{type(e).__name__}: {e}", "the program's operands could not even be prepared")
        return case
    case = dict(case, program=prog)
    # ---- real run
    w.log.clear()
    try:
        if where == "wrapped":
            # the application sits in the body of a Klong function that Python calls through the wrapper
            klong("wf::{x;y;z;" + body + "}")
            case["program"] = "wf::{x;y;z;" + body + "}; klong['wf'](" + ", ".join(frame_txt) + ")"
            result = klong["wf"](*frame)
        else:
            result = klong(prog)
        raised = None
    except Exception as e:
        result, raised = None, e
    # ---- oracle (no model)
    key = f"pycall:{form}:{sig_class(sig)}" if case.get("imported") is None else "import:positional"
    if ckind != "plain" or decoys:
        key += f":{ckind}"
    rets = w.rets
    if form in ("direct", "proj", "at"):
        exp_log = [(1, "klong" in sig, [canon(a) for a in exp_args])]
        exp_res = canon(rets[0])
    elif form == "each":
        exp_log = [(1, "klong" in sig, [canon(e)]) for e in exp_args]
        exp_res = ["L"] + [canon(rets[i]) for i in range(len(exp_args))] if exp_args else canon(evaluated)
    else:
        exp_log = []
        if len(exp_args) == 0:
            exp_res = canon(evaluated)
        else:
            acc = exp_args[0]
            for i, e in enumerate(exp_args[1:]):
                exp_log.append((1, "klong" in sig, [canon(acc), canon(e)]))
                acc = rets[i]
            exp_res = canon(acc)
    obs_log = [(cid, k, [canon(a) for a in args]) for cid, k, args in w.log]
    if raised is not None:
        ctx.oracle_fail(key, case, dict(calls=exp_log, value=exp_res),
                        f"raises {type(raised).__name__}: {raised}; calls={obs_log}",
                        "the application must call the callable and return its value")
    elif obs_log != exp_log:
        ctx.oracle_fail(key, case, dict(calls=exp_log), dict(calls=obs_log),
                        "callable must be invoked exactly once per application with the evaluated arguments in order")
    elif canon(result) != exp_res:
        ctx.oracle_fail(key, case, dict(value=exp_res), dict(value=canon(result)),
                        "the callable's return value must be the value of the application")
    # ---- model
    if drv is not None:
        ret_toks = it.toks(rets)
        drv.ask(f"new mode=positional rets={ret_toks}")
        if where == "globaly":
            drv.ask(f"set name=y kind=data v={it.tok(555)}")
        for j, (dsig, pos, dk) in enumerate(decoys):
            if pos == "before":
                drv.ask(f"set name=d{j} kind=py id={2 + j} sig={sig_wire(dsig)}")
        drv.ask(f"set name=f kind=py id=1 sig={sig_wire(sig)}")
        for j, (dsig, pos, dk) in enumerate(decoys):
            if pos == "after":
                drv.ask(f"set name=d{j} kind=py id={2 + j} sig={sig_wire(dsig)}")
        if form == "proj":
            mask = case["mask"]
            slots = ",".join(str(it.tok(a)) if m else "_" for a, m in zip(exp_args, mask))
            margs = it.toks([a for a, m in zip(exp_args, mask) if not m])
        else:
            slots, margs = "", it.toks(exp_args)
        model = drv.ask(f"pycall form={form} name=f args={margs} frame={it.toks(frame)} slots={slots}")
        if raised is not None:
            impl = err_name(raised) + " log=" + w.show_log(it, 0)
        else:
            listy = (isinstance(result, np.ndarray) and result.ndim > 0) or isinstance(result, (list, tuple))
            if (form == "each" or (form == "over" and len(exp_args) == 0)) and listy:
                impl_out = "list:" + it.toks([x for x in result])
            else:
                impl_out = "val:" + str(it.tok(result))
            impl = impl_out + " log=" + w.show_log(it, 0)
        if model != impl:
            ctx.mismatch(f"Klong.C09.{form}Py vs _eval_fn/KGLambda.__call__", case, model, impl)
    ctx.count(("pycall", tuple(sig), form, where, src, tuple(case.get("args", case.get("elems", []))), ckind,
               json.dumps(decoys)))
    ctx.bump("form:" + form)
    ctx.bump("where:" + where)
    ctx.bump("arity:" + str(ar))
    ctx.bump("sigclass:" + sig_class(sig))
    ctx.bump("ckind:" + ckind)
    if case.get("atom"):
        ctx.bump("at:atom-argument")
    if any(i in EMPTY_IDX for i in list(case.get("args", [])) + list(case.get("elems", []))) and src != "ref":
        ctx.bump("argument:empty")
    if form == "proj" and src == "lit":
        m = case["mask"]
        if any(m[j] and case["args"][j] in LISTVAL_IDX and not all(m[j + 1:]) for j in range(len(m))):
            ctx.bump("proj:list-slot-before-hole")
    return case


# --------------------------------------------------------------------------- part 1b: adverbs over repeats

# adverb call forms: (arity of f, needs a left operand: None / "atom" / "list")
ADVERBS = {"each": (1, None), "over": (2, None), "scan": (2, None), "eachpair": (2, None),
           "eachleft": (2, "atom"), "eachright": (2, "atom"), "each2": (2, "list"),
           "overn": (2, "atom"), "scann": (2, "atom")}
ADVERB_TEXT = {"each": "f'{b}", "over": "f/{b}", "scan": "f\\{b}", "eachpair": "f:'{b}",
               "eachleft": "{a} f:\\{b}", "eachright": "{a} f:/{b}", "each2": "{a} f'{b}",
               "overn": "{a} f/{b}", "scann": "{a} f\\{b}"}
ATOM_LITS = ["5", "0", "0cq", "0ca", '"ab"', "[1 2]"]
SCALAR_LITS = ["5", "0", "7", "0cq", "0ca", ":qq", "0.5"]
ATOM_FORMS = ("each", "each2", "overn", "scann")
LIST_POOLS = [["7"], ["1", "2"], ['"a"', '"bc"'], ["0ca", "0cb"], ["[1 2]", "[3]"], ["7", '"a"', "0cx"]]   # no reals: a scan result mixing a real member with integer returns is coerced by kg_asarray (C01 territory)


def gen_operand(rng, allow_empty=True):
    """a string or list literal, short alphabet so that members REPEAT"""
    n = rng.choice([0, 1, 2, 2, 3, 3, 4, 5, 6] if allow_empty else [1, 2, 3, 3, 4, 5])
    if rng.random() < 0.55:
        alpha = rng.choice(["l", "ab", "abc", "helo", "zz"])
        return '"' + "".join(rng.choice(alpha) for _ in range(n)) + '"'
    pool = rng.choice(LIST_POOLS)
    return "[" + " ".join(rng.choice(pool) for _ in range(n)) + "]"


def gen_adverb(rng, form, sig, where):
    need = ADVERBS[form][1]
    case = dict(kind="adverb", form=form, sig=list(sig), where=where,
                b=gen_operand(rng, allow_empty=(form != "each2")))
    if need == "atom":
        case["a"] = rng.choice(ATOM_LITS)
    elif need == "list":
        case["a"] = gen_operand(rng, allow_empty=False)
    if form in ATOM_FORMS and rng.random() < 0.35:
        # ATOM operands: f'a is f(a); a f'b with two atoms is f(a;b); a f/b and a f\b with an atom b apply f once
        case["atoms"] = True
        case["b"] = rng.choice(SCALAR_LITS)
        if need:
            case["a"] = rng.choice([x for x in SCALAR_LITS if x != case["b"]])
        case["via_params"] = rng.random() < 0.4       # {x f'y}(a;b): the operands are the caller's parameters
        if form == "scann":
            # [a, f(a;b)] with a real a and an integer return is coerced to reals by kg_asarray (C01 territory)
            case["a"] = "7" if case["a"] == "0.5" else case["a"]
            case["b"] = "0" if case["b"] == "0.5" else case["b"]
    base = 1000 + rng.randrange(500)
    case["rets"] = [base + i for i in range(12)]          # the return value depends on the call count
    case["frame"] = [rng.choice([901, 902, 903, 17, 0]) for _ in range(3)] if where == "nested" else []
    case["ckind"] = rng.choice(CKINDS)
    return case


def _norm(v):
    """the members of a string are characters, however the implementation represents them"""
    from klongpy.core import KGChar
    if isinstance(v, (str, np.str_)) and len(v) == 1:
        return KGChar(str(v))
    return v


def _members(v):
    return [_norm(x) for x in v] if isinstance(v, (str, list, tuple, np.ndarray)) and np.ndim(v) != 0 or isinstance(v, str) else [_norm(v)]


def run_adverb(ctx, drv, case):
    """an adverb applied to a recording callable over a string / list with repeated members"""
    it = Interner()
    sig = tuple(case["sig"])
    form, where = case["form"], case["where"]
    w = World(list(case["rets"]))
    klong = w.klong
    klong["f"] = w.make(sig, 1, case.get("ckind", "plain"))
    frame = case["frame"]
    try:
        atoms = bool(case.get("atoms"))
        bs = [_norm(klong(case["b"]))] if atoms else _members(klong(case["b"]))
        need = ADVERBS[form][1]
        a_val = klong(case["a"]) if need else None
        a_list = ([_norm(a_val)] if atoms else _members(a_val)) if need == "list" else None
        a_atom = _norm(a_val) if need == "atom" else None
        if atoms and case.get("via_params"):
            body = ADVERB_TEXT[form].format(a="x", b="y" if need else "x")
            prog = "{" + body + "}(" + (case["a"] + ";" if need else "") + case["b"] + ")"
        else:
            body = ADVERB_TEXT[form].format(a=case.get("a", ""), b=case["b"])
            prog = body if not frame else "{x;y;z;" + body + "}(" + ";".join(str(v) for v in frame) + ")"
    except Exception as e:
        ctx.oracle_fail(f"construct:adverb:{type(e).__name__}", case, "literals evaluate",
                        f"{type(e).__name__}: {e}", "the program's operands could not even be prepared")
        return case
    case = dict(case, program=prog)
    w.log.clear()
    try:
        result = klong(prog)
        raised = None
    except Exception as e:
        result, raised = None, e
    # ---- oracle: the documented expansion, one application per member / pair / step, in order
    rets = w.rets
    fold = form in ("over", "scan", "overn", "scann")
    if fold:
        if form in ("over", "scan"):
            start, rest = (bs[0], bs[1:]) if bs else (None, [])
        else:
            start, rest = a_atom, bs
        calls, accs, acc = [], [], start
        for i, e in enumerate(rest):
            calls.append([acc, e])
            acc = rets[i]
            accs.append(acc)
        if form == "over":
            shape, exp = ("list", []) if not bs else ("val", acc)
        elif form == "overn":
            shape, exp = "val", acc
        elif form == "scan":
            shape, exp = "list", ([] if not bs else [start] + accs)
        else:
            shape, exp = ("val", a_atom) if not bs else ("list", [start] + accs)
    else:
        if form == "each":
            calls = [[e] for e in bs]
        elif form == "eachpair":
            calls = [[x, y] for x, y in zip(bs, bs[1:])] if len(bs) > 1 else []
        elif form == "eachleft":
            calls = [[a_atom, e] for e in bs]
        elif form == "eachright":
            calls = [[e, a_atom] for e in bs]
        else:
            calls = [[x, y] for x, y in zip(a_list, bs)]
        shape = "list"
        exp = list(bs) if form == "eachpair" and len(bs) <= 1 else [rets[i] for i in range(len(calls))]
        if atoms:
            shape, exp = "val", rets[0]         # f'a --> f(a);  a f'b --> f(a;b) for atoms
    exp_log = [(1, "klong" in sig, [canon(_norm(v)) for v in t]) for t in calls]
    obs_log = [(cid, k, [canon(_norm(v)) for v in args]) for cid, k, args in w.log]
    key = f"adverb:{form}:{'atom' if atoms else 'string' if case['b'].startswith(chr(34)) else 'list'}"
    if raised is None:
        obs_members = _members(result) if shape == "list" else None
        obs_res = [canon(v) for v in obs_members] if shape == "list" else canon(_norm(result))
    exp_res = [canon(_norm(v)) for v in exp] if shape == "list" else canon(_norm(exp))
    if raised is not None:
        ctx.oracle_fail(key, case, dict(calls=exp_log, value=exp_res),
                        f"raises {type(raised).__name__}: {raised}; calls={obs_log}",
                        "the adverb must apply the callable once per member and return the results")
    elif obs_log != exp_log:
        ctx.oracle_fail(key, case, dict(calls=exp_log), dict(calls=obs_log),
                        "the callable must be invoked exactly once per member / pair / step, in order, repeats included")
    elif obs_res != exp_res:
        ctx.oracle_fail(key, case, dict(value=exp_res), dict(value=obs_res),
                        "every result slot must hold the return value of its own application")
    # ---- model
    if drv is not None:
        drv.ask(f"new mode=positional rets={it.toks(rets)}")
        drv.ask(f"set name=f kind=py id=1 sig={sig_wire(sig)}")
        left = ""
        if ADVERBS[form][1] == "atom":
            left = f" left={it.tok(a_atom)}"
        elif ADVERBS[form][1] == "list":
            left = f" left={it.toks(a_list)}"
        if atoms and form in ("each", "each2"):
            model = drv.ask(f"pycall form=direct name=f args={it.toks(calls[0])} frame= slots=")   # one plain application
        else:
            model = drv.ask(f"pycall form={form} name=f args={it.toks(bs)} frame={it.toks(frame if not atoms or not case.get('via_params') else [])} slots={left}")
        if raised is not None:
            impl = err_name(raised) + " log="
        elif shape == "list":
            impl = "list:" + it.toks(obs_members) + " log="
        else:
            impl = "val:" + str(it.tok(_norm(result))) + " log="
        impl += ";".join(f"{cid}/{1 if k else 0}/{'.'.join(str(it.tok(_norm(a))) for a in args)}" for cid, k, args in w.log)
        if model != impl:
            ctx.mismatch(f"Klong.C09.{form} vs klongpy.adverbs", case, model, impl)
    ctx.count(("adverb", form, tuple(sig), where, case["b"], case.get("a")))
    ctx.bump("adverb:" + form)
    ctx.bump("operand:" + ("atom" if atoms else "string" if case["b"].startswith('"') else "list"))
    if len(set(json.dumps(canon(m)) for m in bs)) < len(bs):
        ctx.bump("operand-with-repeats")
    return case


# --------------------------------------------------------------------------- part 2/3: histories

NAMES = ["f", "g", "h"]
DATA_NAMES = ["f", "g", "h", "y", "v"]


BODY_SHAPES = ["stmts", "thin", "thinconst", "nested"]


def body_shapes_for(arity, body):
    """the shapes of Klong function body available for this arity (all record [body, args...] and return body)"""
    if body >= 900:
        return ["stmts"]
    return ["stmts", "thin"] + (["thinconst"] if arity <= 2 else []) + (["nested"] if 1 <= arity <= 2 else [])


def kbody_text(arity, body, shape="stmts"):
    ps = list("xyz"[:arity])
    if shape == "thin":            # ONE call of a named callable with the parameters as arguments: area::{mul(x;y)}
        return "{t%d(%s)}" % (body, ";".join(ps))
    if shape == "thinconst":       # ... with a constant among the arguments: dbl::{mul(2;x)}
        return "{rk%d(%s)}" % (arity + 1, ";".join([str(body)] + ps))
    if shape == "nested":          # the parameters occur only INSIDE nested calls: {foo(x+1)}
        return "{rk%d(%s)}" % (arity + 1, ";".join([str(body)] + [f"idf({q})" for q in ps]))
    parts = [f"r({body})"] + [f"r({p})" for p in "xyz"[:arity]]
    if body >= 900:
        parts.append("kerr()")
    else:
        parts.append(str(body))
    return "{" + ";".join(parts) + "}"


def gen_history(rng, nops):
    """ops are generated against a shadow state so that most of them are meaningful"""
    _init_idx()
    ops = []
    st = {}             # name -> ("data", uidx) | ("py", sig) | ("k", arity, body) | ("p", base, slots)
    wrappers = []       # (wid, name)
    body = 10
    for step in range(nops):
        r = rng.random()
        if step == 0:
            r = 0.0           # start with a definition …
        elif step == 1:
            r = 0.50          # … and a wrapper of it
        if r < 0.20:
            n = rng.choice(NAMES)
            body += 1
            b = body if rng.random() > 0.06 else 900 + body
            ar = rng.randrange(4)
            ops.append(["defk", n, ar, b, rng.choice(body_shapes_for(ar, b))])
            st[n] = ("k", ar, b)
        elif r < 0.26:
            n = rng.choice(DATA_NAMES)
            i = rng.randrange(N_U)
            if n in st and st[n][0] == "data" and st[n][1] in TWINS and rng.random() < 0.5:
                i = TWINS[st[n][1]]
            elif rng.random() < 0.25:
                i = rng.choice(list(TWINS))
            ops.append(["setdata", n, i])
            st[n] = ("data", i)
        elif r < 0.34:
            n = rng.choice(NAMES)
            sig = rng.choice(SIGS)
            ops.append(["setpy", n, list(sig), rng.choice(CKINDS)])
            st[n] = ("py", tuple(sig))
        elif r < 0.40:
            bases = [k for k, v in st.items() if (v[0] == "k" and v[1] >= 2) or (v[0] == "py" and sig_arity(v[1]) >= 2)]
            if not bases:
                continue
            base = rng.choice(bases)
            ar = st[base][1] if st[base][0] == "k" else sig_arity(st[base][1])
            n = rng.choice([x for x in NAMES if x != base])
            while True:
                mask = [rng.random() < 0.5 for _ in range(ar)]
                if any(mask) and not all(mask):
                    break
            slots = [_pick(rng, LIT_IDX) if m else None for m in mask]
            if rng.random() < 0.4:
                h = rng.randrange(1, ar)
                j = rng.randrange(h)
                slots[h] = None
                slots[j] = rng.choice(LISTVAL_IDX)
            ops.append(["defp", n, base, slots])
            st[n] = ("p", base, slots)
        elif r < 0.43:
            srcs = [k for k, v in st.items() if v[0] in ("k", "p")]
            if not srcs:
                continue
            src_name = rng.choice(srcs)
            n = rng.choice([x for x in NAMES if x != src_name])
            if st[src_name][0] == "p" and st[src_name][1] == n:
                continue                                 # would make a projection its own base
            ops.append(["alias", n, src_name])
            st[n] = st[src_name]
        elif r < 0.47:
            n = rng.choice((list(st) or DATA_NAMES) if rng.random() < 0.8 else DATA_NAMES + ["nope"])
            ops.append(["del", n])
            st.pop(n, None)
        elif r < 0.60:
            n = rng.choice((list(st) or DATA_NAMES) if rng.random() < 0.85 else DATA_NAMES + ["nope"])
            wid = len(wrappers) + 1
            ops.append(["get", n, wid])
            if n in st and st[n][0] != "data":
                wrappers.append((wid, n, st[n]))
        elif r < 0.64:
            cands = [k for k, v in st.items() if v[0] == "data"]
            if cands:
                ops.append(["see", rng.choice(cands)])
        elif r < 0.90:
            if not wrappers:
                continue
            wid, n, cap = rng.choice(wrappers)
            cur = st.get(n)
            tgt = cur if cur is not None and cur[0] in ("k", "p") else cap
            ar = _shadow_arity(tgt)
            k = ar if rng.random() < 0.75 else rng.randrange(4)
            ops.append(["wcall", wid, [_pick(rng, list(range(N_U))) for _ in range(k)], rng.choice(["var", "lit"])])
        else:
            cands = [k for k, v in st.items() if v[0] != "data"]     # calling a data name is not an application
            if not cands:
                continue
            n = rng.choice(cands)
            ar = _shadow_arity(st[n])
            k = ar if rng.random() < 0.8 else rng.randrange(4)
            ops.append(["kcall", n, [_pick(rng, list(range(N_U))) for _ in range(k)], rng.choice(["var", "lit"])])
    return ops


def gen_scenario(rng, which):
    """short systematic histories around ONE wrapper: read it back after an overwrite / through an alias"""
    _init_idx()
    a, b = rng.sample(NAMES, 2)
    ar1, ar2 = rng.randrange(4), rng.randrange(4)
    sig1 = list(rng.choice([s_ for s_ in SIGS if sig_arity(s_) == ar1]))
    sig2 = list(rng.choice([s_ for s_ in SIGS if sig_arity(s_) == ar2 and list(s_) != sig1] or SIGS))
    args = lambda k: [_pick(rng, list(range(N_U))) for _ in range(k)]
    mode = lambda: rng.choice(["var", "lit"])
    first = rng.choice([["defk", a, ar1, 21, rng.choice(body_shapes_for(ar1, 21))], ["setpy", a, sig1, rng.choice(CKINDS)], ["setdata", a, rng.randrange(N_U)]])
    if which == "twins":
        # successive stores to one name of values that are == in Python but different Klong values
        n = rng.choice(DATA_NAMES)
        i = rng.choice(list(TWINS))
        ops = [["setdata", n, i], ["get", n, 1]]
        for _ in range(rng.randrange(1, 4)):
            i = TWINS[i] if rng.random() < 0.8 else rng.choice(list(TWINS))
            ops += [["setdata", n, i], rng.choice([["get", n, 1], ["see", n]]), rng.choice([["get", n, 1], ["see", n]])]
        return ops
    if which == "overwrite":
        # store, READ (maybe call), store something else under the same name, read again, call the new reading
        ops = [first, ["get", a, 1]]
        if first[0] != "setdata" and rng.random() < 0.5:
            ops.append(["wcall", 1, args(ar1), mode()])
        second = rng.choice([["setpy", a, sig2, rng.choice(CKINDS)], ["defk", a, ar2, 22, rng.choice(body_shapes_for(ar2, 22))]])
        ops += [second, ["get", a, 2], ["wcall", 2, args(ar2), mode()], ["kcall", a, args(ar2), mode()]]
        if first[0] != "setdata":
            ops.append(["wcall", 1, args(ar2 if second[0] == "defk" else ar1), mode()])
        return ops
    # alias: one function value under two names, the wrapper read through the LATER name
    ops = [["defk", a, ar1, 31, rng.choice(body_shapes_for(ar1, 31))], ["alias", b, a]]
    if rng.random() < 0.3:
        c = [x for x in NAMES if x not in (a, b)][0]
        ops.append(["alias", c, b])
        b = rng.choice([b, c])
    ops += [["get", b, 1], ["wcall", 1, args(ar1), mode()]]
    victim = rng.choice([a, b])
    change = rng.choice(["defk", "defk", "del", "setpy", "setdata"])
    if change == "defk":
        ops.append(["defk", victim, ar2, 32, rng.choice(body_shapes_for(ar2, 32))])
    elif change == "del":
        ops.append(["del", victim])
    elif change == "setpy":
        ops.append(["setpy", victim, sig2, "plain"])
    else:
        ops.append(["setdata", victim, rng.randrange(N_U)])
    still = ar2 if (victim == b and change == "defk") else ar1
    ops += [["wcall", 1, args(still), mode()], ["wcall", 1, args(rng.randrange(4)), mode()]]
    other = a if victim == b else b
    ops += [["kcall", other, args(ar1), mode()]]
    if rng.random() < 0.5:
        ops += [["defk", other, ar2, 33, rng.choice(body_shapes_for(ar2, 33))], ["wcall", 1, args(ar2 if other == b else still), mode()]]
    return ops


def _shadow_arity(e):
    if e[0] == "k":
        return e[1]
    if e[0] == "py":
        return sig_arity(e[1])
    if e[0] == "p":
        return sum(1 for s in e[2] if s is None)
    return 0


def _observe(w, it, thunk):
    """run thunk on the real code: returns (wire out, calls added, recorder added, raw result / exception)"""
    from klongpy.core import KGFn
    n0, r0 = len(w.log), len(w.rlog)
    try:
        res = thunk()
        exc = None
    except Exception as e:
        res, exc = None, e
    rl = w.rlog[r0:]
    if exc is not None and isinstance(exc, KeyError) and "boom" in str(exc) and rl:
        out = f"kres:{canon(rl[0])[1]}:{it.toks(rl[1:])}"        # a raising body ran: report which and on what
    elif exc is not None:
        out = err_name(exc)
    elif rl:
        b = canon(rl[0])
        out = f"kres:{b[1]}:{it.toks(rl[1:])}" if b[0] == "i" and canon(res) == b else f"odd:{canon(res)}:{[canon(x) for x in rl]}"
    elif isinstance(res, KGFn):
        out = "unapplied"
    else:
        out = f"val:{it.tok(res)}"
    return out + " log=" + w.show_log(it, n0), w.log[n0:], rl, (res, exc)


def _call_args(w, u, idxs, mode):
    """arguments for klong('name(...)'): literal text or variables a0.. set through the store"""
    texts = []
    for j, i in enumerate(idxs):
        if mode == "lit" and u[i][1] is not None:
            texts.append(u[i][1])
        else:
            w.klong[f"a{j}"] = u[i][0]
            texts.append(f"a{j}")
    return ";".join(texts)


def _history_define(w, u, op, cid):
    """the real side of a defining / assigning history op"""
    klong = w.klong
    kind = op[0]
    if kind == "defk":
        shape = op[4] if len(op) > 4 else "stmts"
        if shape == "thin":
            w.thin_recorder(op[2], op[3])
        klong(f"{op[1]}::{kbody_text(op[2], op[3], shape)}")
    elif kind == "setdata":
        klong[op[1]] = u[op[2]][0]
    elif kind == "setpy":
        klong[op[1]] = w.make(tuple(op[2]), cid, op[3] if len(op) > 3 else "plain")
    elif kind == "alias":
        klong(f"{op[1]}::{op[2]}")                      # the SAME function value under a second name
    else:
        _, n, base, slots = op
        w.last_slot_vals = [None if s is None else klong(u[s][1]) for s in slots]
        klong(f"{n}::{base}({';'.join('' if s is None else u[s][1] for s in slots)})")


def run_history(ctx, drv, case):
    u = universe()
    it = Interner()
    ops = case["ops"]
    rets = [3000 + i for i in range(400)]
    w = World(rets)
    w.install_recorder()
    klong = w.klong
    if drv is not None:
        drv.ask(f"new mode=positional rets={it.toks(rets)}")
    st = {}             # oracle: name -> entry; entry = ("data", obj) | ("py", cid, sig) | ("k", ar, body) | ("p", base, slots)
    wr = {}             # wid -> (python wrapper, name, captured entry)
    cid = 10
    for step, op in enumerate(ops):
        sub = dict(kind="history", ops=ops[:step + 1])
        kind = op[0]
        model = impl = None
        where = kind
        n_calls0 = (len(w.log), len(w.rlog))
        if kind in ("defk", "setdata", "setpy", "defp", "alias"):
            # definitions and assignments must neither raise nor apply anything
            try:
                _history_define(w, u, op, cid + 1)
            except Exception as e:
                ctx.oracle_fail(f"history:{kind}:raises", sub, "the definition is stored",
                                f"{type(e).__name__}: {e}", "a definition / assignment raised")
                return
            if (len(w.log), len(w.rlog)) != n_calls0:
                ctx.oracle_fail(f"history:{kind}:applies", sub, "nothing is applied by a definition",
                                f"callable calls={w.log[n_calls0[0]:]!r} body runs={w.rlog[n_calls0[1]:]!r}",
                                "defining a function / projection or assigning a value must not call anything")
                return
        if kind == "defk":
            n, ar, b = op[1], op[2], op[3]
            ctx.bump("body:" + (op[4] if len(op) > 4 else "stmts"))
            st[n] = ("k", ar, b)
            if drv:
                model, impl = drv.ask(f"defk name={n} arity={ar} body={b}"), "ok"
        elif kind == "setdata":
            _, n, i = op
            st[n] = ("data", u[i][0])
            if drv:
                model, impl = drv.ask(f"set name={n} kind=data v={it.tok(u[i][0])}"), "ok"
        elif kind == "setpy":
            n, sig = op[1], op[2]
            ck = op[3] if len(op) > 3 else "plain"
            cid += 1
            overwrote = n in st
            ctx.bump("ckind:" + ck)
            st[n] = ("py", cid, tuple(sig), overwrote)
            if drv:
                model, impl = drv.ask(f"set name={n} kind=py id={cid} sig={sig_wire(sig)}"), "ok"
        elif kind == "defp":
            _, n, base, slots = op
            txt = ";".join("" if s is None else u[s][1] for s in slots)
            slot_vals = w.last_slot_vals
            st[n] = ("p", base, slot_vals)
            if drv:
                sl = ",".join("_" if s is None else str(it.tok(s)) for s in slot_vals)
                model, impl = drv.ask(f"defp name={n} base={base} slots={sl}"), "ok"
        elif kind == "alias":
            _, n, src_name = op
            e = st[src_name]
            st[n] = e
            ctx.bump("aliased")
            if drv:
                # the model has no object identity: an alias is a definition with the same content
                if e[0] == "k":
                    model, impl = drv.ask(f"defk name={n} arity={e[1]} body={e[2]}"), "ok"
                else:
                    sl = ",".join("_" if v is None else str(it.tok(v)) for v in e[2])
                    model, impl = drv.ask(f"defp name={n} base={e[1]} slots={sl}"), "ok"
        elif kind == "del":
            _, n = op
            try:
                del klong[n]
                impl = "ok"
            except KeyError:
                impl = "keyerror"
            exp = "ok" if n in st else "keyerror"
            if impl != exp:
                ctx.oracle_fail("store:del", sub, exp, impl, "del klong[name] removes a bound name, KeyError otherwise")
            st.pop(n, None)
            if drv:
                model = drv.ask(f"del name={n}")
        elif kind == "get":
            _, n, wid = op
            from klongpy.core import KGFnWrapper
            try:
                got = klong[n]
            except KeyError:
                got = KeyError
            e = st.get(n)
            if e is None:
                impl = "keyerror" if got is KeyError else f"data:{it.tok(got)}"
                if got is not KeyError:
                    ctx.oracle_fail("store:get-unbound", sub, "KeyError", repr(got))
            elif e[0] == "data":
                impl = "keyerror" if got is KeyError else ("wrapper" if isinstance(got, KGFnWrapper) else f"data:{it.tok(got)}")
                if got is not e[1] and (got is KeyError or canon(got) != canon(e[1])):
                    ctx.oracle_fail("store:readback", sub, canon(e[1]), "KeyError" if got is KeyError else canon(got),
                                    "klong[name] must read back the value stored with klong[name]=v")
            else:
                impl = "wrapper" if callable(got) and got is not KeyError else f"notcallable:{got!r}"
                if impl != "wrapper":
                    ctx.oracle_fail("store:callable-readback", sub, "a callable", repr(got))
                else:
                    wr[wid] = (got, n, e)
            if drv:
                model = drv.ask(f"get name={n} wid={wid}")
        elif kind == "see":
            _, n = op
            e = st.get(n)
            if e is None or e[0] != "data":
                continue
            try:
                seen = klong(n)
                impl = f"data:{it.tok(seen)}"
                if seen is not e[1] and canon(seen) != canon(e[1]):
                    ctx.oracle_fail("store:seen-by-programs", sub, canon(e[1]), canon(seen),
                                    "a program must see the stored value under the name")
            except Exception as ex:
                impl = err_name(ex)
                ctx.oracle_fail("store:seen-by-programs", sub, canon(e[1]), impl)
            if drv:
                model = drv.ask(f"see name={n}")
        elif kind == "wcall":
            _, wid, idxs, mode = op
            if wid not in wr:
                continue
            pw, n, cap = wr[wid]
            args = [u[i][0] for i in idxs]
            cur = st.get(n)
            tgt = cur if cur is not None and cur[0] in ("k", "p") else cap
            impl, calls, rl, (res, exc) = _observe(w, it, lambda: pw(*args))
            if drv:
                model = drv.ask(f"wcall wid={wid} args={it.toks(args)}")
            # ---- oracle
            cls = "list-arg" if any(isinstance(a, list) for a in args) else "plain"
            if cur is not None and cur[0] in ("k", "p"):
                ar = _shadow_arity(cur)
                redefined = cur is not cap
                if len(args) != ar:
                    if not impl.startswith("err:arity") or calls or rl:
                        ctx.oracle_fail("wrapper:wrong-arity" + (":projection" if cur[0] == "p" else ""), sub,
                                        f"RuntimeError (takes {ar}), nothing evaluated", impl + f" recorder={len(rl)}",
                                        "klong[name](*args) must reject a wrong number of arguments")
                else:
                    # side by side with the Klong call name(a;b;c)
                    txt = _call_args(w, u, idxs, mode)
                    kimpl, kcalls, krl, _ = _observe(w, it, lambda: klong(f"{n}({txt})"))
                    same = (impl.split(" log=")[0] == kimpl.split(" log=")[0]
                            and [(c, k, [canon(a) for a in aa]) for c, k, aa in calls]
                            == [(c, k, [canon(a) for a in aa]) for c, k, aa in kcalls]) or \
                        (impl.startswith("val:") and kimpl.startswith("val:") and len(calls) == len(kcalls) == 1
                         and [canon(a) for a in calls[0][2]] == [canon(a) for a in kcalls[0][2]])
                    if not same:
                        key = "wrapper:projection" if cur[0] == "p" else (
                            "wrapper:list-arg" if cls == "list-arg" and exc is not None and not impl.startswith("err:arity") else (
                                "wrapper:follows-redefinition" if redefined else "wrapper:eq-klong-call"))
                        ctx.oracle_fail(key, sub, f"{n}({txt}) -> {kimpl}", impl,
                                        "klong[name](*args) must return what the Klong call name(a;b;c) returns")
                    if drv:
                        km = drv.ask(f"kcall name={n} args={it.toks(args)}")
                        if "unsupported" in km:
                            ctx.bump("outside-model")
                            break
                        if km != kimpl:
                            ctx.mismatch("Klong.C09.klongCall vs klong('name(a;b;c)')", sub, km, kimpl)
                            return
            elif tgt[0] == "py":
                # a stored callable read back: behaves like the callable itself
                ar = sig_arity(tgt[2])
                if len(args) == ar:
                    ok = (exc is None and len(calls) == 1 and calls[0][0] == tgt[1]
                          and [canon(a) for a in calls[0][2]] == [canon(a) for a in args]
                          and calls[0][1] == ("klong" in tgt[2])
                          and canon(res) == canon(w.rets[len(w.log) - 1]))
                    if not ok:
                        ctx.oracle_fail(f"store:callable-readback:{sig_class(tgt[2])}", sub,
                                        f"callable {tgt[1]} invoked once with {[canon(a) for a in args]}", impl,
                                        "a stored callable reads back as a callable that behaves identically")
        elif kind == "kcall":
            _, n, idxs, mode = op
            e = st.get(n)
            if e is None:
                continue
            args = [u[i][0] for i in idxs]
            txt = _call_args(w, u, idxs, mode)
            impl, calls, rl, (res, exc) = _observe(w, it, lambda: klong(f"{n}({txt})"))
            if drv:
                model = drv.ask(f"kcall name={n} args={it.toks(args)}")
            if e[0] == "py" and len(args) == sig_arity(e[2]):
                ok = (exc is None and len(calls) == 1 and calls[0][0] == e[1]
                      and [canon(a) for a in calls[0][2]] == [canon(a) for a in args]
                      and calls[0][1] == ("klong" in e[2])
                      and canon(res) == canon(w.rets[len(w.log) - 1]))
                if not ok:
                    key = "store:callable-overwrite" if e[3] and sig_class(e[2]) == "prefix" else f"pycall:direct:{sig_class(e[2])}"
                    ctx.oracle_fail(key, sub, f"callable {e[1]} invoked once with {[canon(a) for a in args]}", impl,
                                    "a callable stored with klong[name]=f is called by name(a;b;c)")
        else:
            raise ValueError(kind)
        if drv and model is not None and "unsupported" in model:
            ctx.bump("outside-model")       # nested projection / call of a data value: stop, the logs are out of step
            break
        if drv and model is not None and model != impl:
            ctx.mismatch(f"Klong.C09.handle({where}) vs klongpy", sub, model, impl)
            return
        ctx.bump("op:" + kind)
        if impl:
            ctx.bump("out:" + impl.split(":")[0].split(" ")[0])
    ctx.count(("history", json.dumps(ops)), nontrivial=len(ops) >= 3)


# --------------------------------------------------------------------------- part 3b: plain bodies through the wrapper

# (body, kinds of its arguments: n = number, l = integer list); mul / neg / idf are stored Python callables
PLAIN_BODIES = [
    ("{#x}", "l"), ("{-x}", "n"), ("{*x}", "l"), ("{#,x}", "n"), ("{(#x)+y}", "ln"), ("{+/x}", "l"),
    ("{x+/y}", "nl"), ("{idf(x+1)}", "n"), ("{mul(x;mul(y;z))}", "nnn"), ("{mul(2;x)}", "n"), ("{mul(x;y)}", "nn"),
    ("{neg(x)}", "n"), ("{:[x;y;z]}", "nnn"), ("{x,y}", "ll"), ("{(x*x)+y-z}", "nnn"), ("{{x+1}'x}", "l"),
    ("{x{x+y}'y}", "ll"), ("{[a];a::x;a+y}", "nn"), ("{5{(,x),y}/[1]}", ""), ("{x+y}", "nn"), ("{x}", "n"),
    ("{neg'x}", "l"), ("{mul(x;)'y}", "nl"), ("{x+#y}", "nl"), ("{(-x),-y}", "nn"), ("{mul(-x;#y)}", "nl"),
    # a parameter used only in FUNCTION position (f = a monadic, g = a dyadic function passed by name)
    ("{x(y)}", "fn"), ("{y(x)}", "nf"), ("{z(x;y)}", "nng"), ("{x(7)}", "f"), ("{x(y;z)}", "gnn"), ("{x'y}", "fl"),
    ("{x/y}", "gl"), ("{x@y}", "fn"), ("{neg(x(y))}", "fn"), ("{x(y)+z}", "fnn"),
]


def gen_plainfn(rng, j):
    body, kinds = PLAIN_BODIES[j]
    val = lambda k: (rng.choice([0, 1, -3, 7, 100]) if k == "n" else {"fn": rng.choice(["neg", "idf"])} if k == "f"
                     else {"fn": "mul"} if k == "g" else [rng.randrange(-5, 9) for _ in range(rng.choice([1, 2, 3, 3, 4]))])
    case = dict(kind="plainfn", body=body, args=[val(k) for k in kinds])
    if rng.random() < 0.5:
        # the wrapper is taken while the name holds another function, then the name is redefined to `body`
        b0, k0 = PLAIN_BODIES[rng.randrange(len(PLAIN_BODIES))]
        case["before"] = b0
        case["before_args"] = [val(k) for k in k0]
    return case


def _plain_py(v):
    """the Python-side argument: lists as arrays, a function by its name (a symbol the call evaluates)"""
    from klongpy.core import KGSym
    return KGSym(v["fn"]) if isinstance(v, dict) else np.array(v) if isinstance(v, list) else v


def _plain_lit(v):
    if isinstance(v, dict):
        return v["fn"]
    return "[" + " ".join(str(x) for x in v) + "]" if isinstance(v, list) else str(v)


def run_plainfn(ctx, drv, case):
    """klong['g'](*args) vs klong('g(a;b;c)') for ordinary function bodies; wrong counts are rejected"""
    from klongpy import KlongInterpreter
    klong = KlongInterpreter()
    klong["mul"] = lambda x, y: x * y
    klong["neg"] = lambda x: -x
    klong["idf"] = lambda x: x

    def both(args, what):
        txt = ";".join(_plain_lit(a) for a in args)
        try:
            exp = ["ok", canon(klong(f"g({txt})"))]
        except Exception as e:
            exp = ["raises", type(e).__name__]
        try:
            got = ["ok", canon(w(*[_plain_py(a) for a in args]))]
        except Exception as e:
            got = ["raises", type(e).__name__ + (":arity" if "Klong function called with" in str(e) else "")]
        if got != exp:
            ctx.oracle_fail("wrapper:eq-klong-call:plain-body", dict(case, step=what), f"g({txt}) -> {exp}", got,
                            "klong[name](*args) must return what the Klong call name(a;b;c) returns")
        for k in (len(args) - 1, len(args) + 1):
            if 0 <= k <= 3:
                bad = (list(args) + [1])[:k]
                try:
                    r = w(*[_plain_py(a) for a in bad])
                    ctx.oracle_fail("wrapper:wrong-arity:plain-body", dict(case, step=what, bad_args=bad),
                                    f"RuntimeError (takes {len(args)})", canon(r),
                                    "klong[name](*args) must reject a wrong number of arguments")
                except Exception as e:
                    if not (isinstance(e, RuntimeError) and "Klong function called with" in str(e)):
                        ctx.oracle_fail("wrapper:wrong-arity:plain-body", dict(case, step=what, bad_args=bad),
                                        f"RuntimeError (takes {len(args)})", f"ran the body: {type(e).__name__}: {e}",
                                        "klong[name](*args) must reject a wrong number of arguments before evaluating")

    if case.get("before"):
        klong(f"g::{case['before']}")
        w = klong["g"]
        both(case["before_args"], "before redefinition")
        klong(f"g::{case['body']}")
    else:
        klong(f"g::{case['body']}")
        w = klong["g"]
    both(case["args"], "current definition")
    ctx.count(("plainfn", case["body"], json.dumps(case["args"]), case.get("before")))
    ctx.bump("plain-body")
    return case


# --------------------------------------------------------------------------- static tie

def extract_constants(ctx):
    """what the model's statement depends on, read from the source"""
    import ast
    src = (common.REPO / "klongpy/types.py").read_text()
    tree = ast.parse(src)
    info = {}
    for node in ast.walk(tree):
        if isinstance(node, ast.Assign) and getattr(node.targets[0], "id", "") == "reserved_fn_args":
            info["reserved_fn_args"] = ast.literal_eval(node.value)
    ctx.extra["reserved_fn_args"] = info.get("reserved_fn_args")
    if info.get("reserved_fn_args") != ["x", "y", "z"]:
        ctx.mismatch("Klong.C09.reserved vs klongpy.types.reserved_fn_args", dict(kind="static"),
                     ["x", "y", "z"], info.get("reserved_fn_args"))


# --------------------------------------------------------------------------- entry

def _guarded(ctx, fn, drv, case):
    """nothing that the real code (or decoding what it produced) throws may escape as an infrastructure error"""
    try:
        return fn(ctx, drv, case)
    except common.Infra:
        raise
    except Exception as e:
        import traceback
        tb = traceback.extract_tb(e.__traceback__)
        where = "; ".join(f"{fr.filename.split('/')[-1]}:{fr.lineno}" for fr in tb[-3:])
        ctx.oracle_fail(f"harness:{case.get('kind')}:{type(e).__name__}", case, "the case runs to a verdict",
                        f"{type(e).__name__}: {e} at {where}",
                        "an exception escaped from the real code or from decoding its result")
        return case


def run_case(ctx, drv, case):
    if case.get("kind") == "pycall":
        _guarded(ctx, run_pycall, drv, case)
    elif case.get("kind") == "history":
        _guarded(ctx, run_history, drv, case)
    elif case.get("kind") == "adverb":
        _guarded(ctx, run_adverb, drv, case)
    elif case.get("kind") == "plainfn":
        _guarded(ctx, run_plainfn, drv, case)
    else:
        raise common.Infra(f"unknown case kind: {case.get('kind')}")


def run(ctx):
    quick = ctx.tier == "quick"
    _init_idx()
    extract_constants(ctx)
    drv = Driver("c09") if getattr(ctx, "driver_ok", True) else None
    ctx.rule = ("all 32 signatures (ordered choices of distinct names from x,y,z, with/without leading klong) x call "
                "forms applicable to the arity (direct, projection, each, over, @) x contexts (top level, inside a "
                "Klong function with x,y,z bound, arguments referring to the caller's x,y,z, global y) x seeded "
                "argument tuples from a 26-value universe incl. the empties "" [] :{} (variables or literals; f@a also with an atom a; projections also with list-valued fixed slots before a hole); adverbs over strings / lists with repeated members; seeded histories of "
                "set/define/project/delete/get/see/wrapper-call/klong-call over 5 names. distinct = distinct "
                "(signature, form, context, arguments) or distinct history; non-trivial history = at least 3 operations")
    ctx.assumptions += [
        "arguments are data values of the universe (functions passed as arguments and Python None are outside: "
        "klongpy evaluates an argument list entry that is a KGFn / treats None as an open projection slot)",
        "one level of projection (projection of a projection is C03's finding)",
        "store operations happen at top level (klong[name]=v from inside a running Klong function creates a local)",
        "Python lists are used as stored data and as direct-call arguments only (klongpy evaluates a Python list "
        "that reaches an adverb or a wrapper argument list as a program; ndarray is the Klong list)",
    ]
    try:
        cdir = common.CORPUS / "C09"
        if cdir.exists():
            for p in sorted(cdir.glob("*.json")):
                run_case(ctx, drv, json.loads(p.read_text()))
                ctx.bump("corpus")
        reps = 3 if quick else 30
        for sig in SIGS:
            for form in FORMS[sig_arity(sig)]:
                for where in CONTEXTS:
                    for _ in range(reps):
                        c = _guarded(ctx, run_pycall, drv, gen_pycall(ctx.rng, sig, form, where))
                        if ctx.rng.random() < 0.01:
                            ctx.sample(c)
        # adverbs over strings / lists whose members repeat, recording callables returning call-count values
        for form, (ar, _) in ADVERBS.items():
            for sig in [s_ for s_ in SIGS if sig_arity(s_) == ar]:
                for where in ("top", "nested"):
                    for _ in range(2 if quick else 14):
                        c = _guarded(ctx, run_adverb, drv, gen_adverb(ctx.rng, form, sig, where))
                        if ctx.rng.random() < 0.004:
                            ctx.sample(c)
        # module functions with arbitrary parameter names, remapped to x,y,z by .py (sys_fn._handle_import)
        pool = ["a", "b", "c", "p", "q", "value", "y", "z"]
        for ar in range(4):
            for withk in (False, True):
                for where in ("top", "nested", "ref", "asarg", "asarg", "wrapped"):
                    for form in FORMS[ar]:
                        for _ in range(1 if quick else 5):
                            names = ctx.rng.sample(pool, ar)
                            sig = (("klong",) if withk else ()) + tuple("xyz"[:ar])
                            c = gen_pycall(ctx.rng, sig, form, where)
                            c["imported"] = (["klong"] if withk else []) + names
                            if ar >= 1 and not withk and ctx.rng.random() < 0.5:
                                c["imported_defaults"] = ctx.rng.choice([1, 2])     # def f(a, dflt0='..'): arity 1
                            c["decoys"] = []
                            _guarded(ctx, run_pycall, drv, c)
                            ctx.bump("imported")
        # plain Klong bodies (operators, adverbs, nested calls, conditionals) through the Python wrapper
        for _ in range(4 if quick else 60):
            for j in range(len(PLAIN_BODIES)):
                _guarded(ctx, run_plainfn, drv, gen_plainfn(ctx.rng, j))
        for which in ("overwrite", "alias", "twins"):
            for h in range(120 if quick else 1500):
                case = dict(kind="history", ops=gen_scenario(ctx.rng, which))
                _guarded(ctx, run_history, drv, case)
                ctx.bump("scenario:" + which)
        nh = 500 if quick else 6000
        for h in range(nh):
            ops = gen_history(ctx.rng, ctx.rng.randrange(4, 16 if quick else 40))
            case = dict(kind="history", ops=ops)
            _guarded(ctx, run_history, drv, case)
            if h < 2:
                ctx.sample(dict(kind="history", ops=ops[:8]))
    finally:
        if drv:
            drv.close()


def replay(ctx, case):
    drv = Driver("c09") if getattr(ctx, "driver_ok", True) else None
    c = case.get("case", case)
    try:
        if c.get("kind") in ("pycall", "history", "adverb", "plainfn"):
            run_case(ctx, drv, c)
        else:
            run(ctx)
    finally:
        if drv:
            drv.close()
    print("replay:", "oracle failures:", ctx.oracle_failures, "mismatches:", ctx.mismatches)
