"""C12 — parsing always terminates and is repeatable.

Tie: every generated string is parsed by the REAL `KlongInterpreter().prog(text)` under a
deterministic call-count budget (sys.setprofile; the budget is K * steps_model(text) + K0, so a
loop that stops advancing is a budget overrun, never a wall-clock timeout) and by the Lean parser
`Klong.C12.parse` (driver kd_c12): same success/error class, same end index, same exception type
and position, same parse-time module, same structural dump of the program.

Oracles that need no model (the failing-input search):
  * hang       — the real parser exceeds the call budget (or the absolute cap);
  * variables  — snapshot of every context dictionary before/after parsing is identical;
  * repeat     — parsing the same text again in the same module gives a structurally identical program;
  * history    — a fresh interpreter put into the same module gives the same program (no stale state);
  * module     — the parse-time module changes only through `.module(...)`;
  * eval       — evaluating the re-parsed program gives what the first gives (safe programs only).

Every worker process runs its own interpreter and its own Lean driver (16 cores).
"""
import ast as pyast
import glob
import json
import multiprocessing as mp
import os
import re
import signal
import sys

from . import common
from .common import Driver, Infra

CLAIM = dict(
    text="Lean 4 theorems over a model of klongpy's lexer and recursive-descent parser (every while-loop a "
         "progress-checked recursion, recursion between parser functions on fuel): every lexer function advances, "
         "the parser never reaches `.spin`/`.outOfFuel` with fuel 8*(|t|+2) for EVERY string, character "
         "classification and monad table, step count <= 140*(|t|+2)^2, parsing is a function of (text, module) whose only "
         "state change is a sequence of parse_module steps; pinned-tree witness `.comment(\"\")` = spin by decide. Model tied to the "
         "code by differential parsing (class, end index, error, module, AST dump) of all strings <= 3 over a "
         "38-character alphabet, token-level edits of every .kg line, and long generated strings, the real parser "
         "running under a call-count budget derived from the model's step count.",
    note="trusted: Lean kernel, the correspondence harness, CPython str methods (isspace/isalpha/isnumeric/float()/int()), "
         "numpy asarray; Python's recursion limit is not modelled (RecursionError counts as an error after bounded work); "
         "the model is ASCII on character classes (theorems hold for any classification)",
    technique="Lean 4 fuel/progress termination proof over a hand-written parser model + differential testing under a "
              "deterministic call-count budget",
    design="7/C12")

MODULES = ["Klong.Props.C12"]
THEOREMS = [
    "Klong.C12.lexer_progress",
    "Klong.C12.comment_loop_terminates",
    "Klong.C12.parse_terminates",
    "Klong.C12.parse_steps_poly",
    "Klong.C12.parse_deterministic",
    "Klong.C12.parse_module_effect",
    "Klong.C12.pinned_comment_spins",
]

ALPHABET = list("01acefx\"'[]{}():;.+-*%&|,=<>~!^#@_/\\ \n")
assert len(ALPHABET) == 38, len(ALPHABET)

K_CALLS = 100         # real profile events allowed per model step
K0_CALLS = 2000
CAP_CALLS = 30_000_000
EVAL_CAP = 150_000
BATCH_ALARM = 1800    # seconds per worker batch: only so that the check itself can never hang

EXPECTED_LOOPS = {
    "parser.py": {"read_shifted_comment": 1, "read_sys_comment": 1, "skip_space": 1, "read_num": 1,
                  "read_sym": 1, "read_string": 1, "read_list": 1, "read_expr_array": 1},
    "interpreter.py": {"_apply_adverbs": 1, "_read_fn_args": 1, "_expr": 1, "prog": 1},
}
PARSER_FUNCS = {"_apply_adverbs", "_read_fn_args", "_factor", "_expr", "prog", "parse_module"}


def enc(s):
    return ".".join(str(ord(c)) for c in s)


# --------------------------------------------------------------------------- in-worker state

class _W:
    klong = None
    drv = None
    KI = None
    fresh = None        # (premod, interpreter, uses): a young interpreter for the history check
    n = 0


class Budget(BaseException):
    pass


class Alarm(BaseException):
    pass


def _on_alarm(signum, frame):
    raise Alarm()


def guarded(fn, limit):
    """run fn() counting profile events (Python and C calls); ('ok', value, n) / ('err', exc, n) /
    ('hang', None, n) when the budget is exceeded / ('deep', None, n) on RecursionError"""
    cnt = [0]

    def prof(frame, ev, arg):
        if ev == "call" or ev == "c_call":
            cnt[0] += 1
            if cnt[0] > limit:
                sys.setprofile(None)
                raise Budget()

    sys.setprofile(prof)
    try:
        v = fn()
        sys.setprofile(None)
        return ("ok", v, cnt[0])
    except Budget:
        return ("hang", None, cnt[0])
    except RecursionError:
        sys.setprofile(None)
        return ("deep", None, cnt[0])
    except MemoryError:
        sys.setprofile(None)
        return ("deep", None, cnt[0])
    except Alarm:
        sys.setprofile(None)
        raise
    except Exception as e:  # noqa
        sys.setprofile(None)
        return ("err", e, cnt[0])
    finally:
        sys.setprofile(None)


def plain(fn):
    """run fn() without counting (the batch alarm still bounds it): ('ok', v, 0) / ('err', e, 0) / ('deep', None, 0)"""
    try:
        return ("ok", fn(), 0)
    except (RecursionError, MemoryError):
        return ("deep", None, 0)
    except Exception as e:  # noqa
        return ("err", e, 0)


def line_budgeted(fn, limit):
    """deterministic confirmation of a hang that makes no calls: count executed lines"""
    cnt = [0]

    def tr(frame, ev, arg):
        cnt[0] += 1
        if cnt[0] > limit:
            sys.settrace(None)
            raise Budget()
        return tr

    sys.settrace(tr)
    try:
        fn()
        return False
    except Budget:
        return True
    except BaseException:
        return False
    finally:
        sys.settrace(None)


def pydump(x, depth=0):
    """structural dump in the format of Klong.C12.dump"""
    from klongpy.core import KGSym, KGChar, KGOp, KGFn, KGCall, KGCond, KGAdverb, KGLambda
    from klongpy.parser import KGExprArray
    import numpy as np
    if x is None:
        return "N"
    if isinstance(x, KGSym):
        return "Y" + enc(x)
    if isinstance(x, KGChar):
        return "C" + str(ord(x)) if len(x) == 1 else "C?" + enc(x)
    if isinstance(x, str):
        return "S" + enc(x)
    if isinstance(x, bool):
        return "B?"
    if isinstance(x, int):
        return "I" + str(x)
    if isinstance(x, float):
        return "F"
    if isinstance(x, KGOp):
        return "O" + enc(x.a)
    if isinstance(x, KGAdverb):
        return "V(" + pydump(x.a) + ")"
    if isinstance(x, KGCond):
        return "Q(" + ",".join(pydump(y) for y in x) + ")"
    if isinstance(x, KGExprArray):
        return "E(" + ",".join(pydump(y) for y in x) + ")"
    if isinstance(x, list):
        return "L(" + ",".join(pydump(y) for y in x) + ")"
    if isinstance(x, np.ndarray):
        return "A" + str(len(x)) if x.ndim > 0 else "A?"
    if isinstance(x, KGFn):
        if isinstance(x.a, KGLambda):
            return "D" if isinstance(x.args, dict) else "D?"
        call = "c" if isinstance(x, KGCall) else "f"
        if x.args is None:
            return f"K{call}{x.arity}({pydump(x.a)};-)"
        if type(x.args) is list:
            return f"K{call}{x.arity}({pydump(x.a)};L({','.join(pydump(y) for y in x.args)}))"
        if call == "f" and x.arity == 1:
            return f"M({pydump(x.a)};{pydump(x.args)})"
        return f"K?{call}{x.arity}"
    return "?" + type(x).__name__


def fulldump(x):
    """finer dump for comparing two REAL parses (values and arities included)"""
    from klongpy.core import KGSym, KGChar, KGOp, KGFn, KGCall, KGAdverb, KGLambda
    import numpy as np
    if x is None:
        return "N"
    if isinstance(x, (KGSym, KGChar, str)):
        return type(x).__name__ + ":" + repr(str(x))
    if isinstance(x, (int, float)):
        return type(x).__name__ + ":" + repr(x)
    if isinstance(x, KGOp):
        return f"op:{x.a!r}/{x.arity}"
    if isinstance(x, KGAdverb):
        return f"adv({fulldump(x.a)}/{x.arity})"
    if isinstance(x, list):
        return type(x).__name__ + "(" + ",".join(fulldump(y) for y in x) + ")"
    if isinstance(x, np.ndarray):
        return "arr:" + str(x.dtype.kind) + ":" + (fulldump(x.tolist()) if x.dtype != object else fulldump(list(x)))
    if isinstance(x, dict):
        return "dict(" + ",".join(fulldump(k) + "=" + fulldump(v) for k, v in x.items()) + ")"
    if isinstance(x, KGFn):
        a = "lambda" if isinstance(x.a, KGLambda) else fulldump(x.a)
        return f"{type(x).__name__}/{x.arity}({a};{fulldump(x.args)})"
    if isinstance(x, np.generic):
        return "np:" + repr(x.item())
    return "?" + type(x).__name__


def canon_value(v, depth=0):
    """canonical text of an evaluation result"""
    import numpy as np
    from klongpy.core import KGFn, KGSym, KGChar
    if depth > 50:
        return "deep"
    if isinstance(v, np.ndarray):
        if v.ndim == 0:
            return canon_value(v.item(), depth + 1)
        return "[" + " ".join(canon_value(x, depth + 1) for x in (v.tolist() if v.dtype != object else list(v))) + "]"
    if isinstance(v, (list, tuple)):
        return "[" + " ".join(canon_value(x, depth + 1) for x in v) + "]"
    if isinstance(v, (KGSym, KGChar)):
        return type(v).__name__ + repr(str(v))
    if isinstance(v, KGFn):
        return "fn:" + fulldump(v)
    if isinstance(v, dict):
        return "{" + " ".join(canon_value(k, depth + 1) + ":" + canon_value(x, depth + 1) for k, x in v.items()) + "}"
    if isinstance(v, (float, np.floating)):
        return "nan" if v != v else repr(float(v))
    if isinstance(v, (int, np.integer)):
        return repr(int(v))
    if isinstance(v, str):
        return "s" + repr(v)
    return type(v).__name__


def snap(k):
    """identity snapshot of every context dictionary"""
    return [(type(d).__name__, {str(key): id(val) for key, val in d.items()}) for d in k._context._context]


def modstr(m):
    if m is None:
        return "-"
    s = str(m)
    return enc(s) if s else "e"


def classify_real(tag, val):
    """(cls, i, kind, pos, ast)"""
    if tag == "ok":
        i, prog = val
        try:
            ast = ",".join(pydump(y) for y in prog)
        except RecursionError:
            ast = "deep"
        return ("ok", i, "", "-", ast)
    if tag == "err":
        name = type(val).__name__
        pos = "-"
        if name in ("UnexpectedChar", "UnexpectedEOF"):
            mm = re.search(r"pos: (\d+)", str(val).split("\n")[-1]) or re.search(r"pos: (\d+) char", str(val), re.S)
            mm2 = re.findall(r"pos: (\d+)", str(val))
            pos = mm2[-1] if mm2 else (mm.group(1) if mm else "?")
        return ("err", -1, name, pos, "")
    return (tag, -1, "", "-", "")


ADDR = re.compile(r"0x[0-9a-f]+")


def same_up_to_address(a, b):
    return a != b and ADDR.sub("0x", str(a)) == ADDR.sub("0x", str(b))


SAFE_EVAL = re.compile(r"\.[A-Za-z]|[∇∂]|\d{4,}")


def in_model_text(text):
    for c in text:
        if ord(c) > 127 and (c.isspace() or c.isalpha() or c.isdigit() or c.isnumeric()):
            return False
    return True


def new_interp(premod):
    k = _W.KI()
    if premod:
        k.prog(f".module(:{premod})")
    return k


FRESH_USES = 20


def young_interp(premod):
    """an interpreter that has parsed at most FRESH_USES texts (none of them twice)"""
    fr = _W.fresh
    if fr is None or fr[0] != premod or fr[2] >= FRESH_USES:
        fr = _W.fresh = [premod, new_interp(premod), 0]
    fr[2] += 1
    k = fr[1]
    if premod:
        k.prog(f".module(:{premod})")
    elif k._module is not None:
        k.prog(".module(0)")
    return k


def model_line(text, premod):
    return "parse t=" + enc(text) + (" mod=" + enc(premod) if premod else "")


def model_many(cases):
    """pipelined model calls in small chunks (both pipe buffers stay far from full)"""
    drv = _W.drv
    out = []
    CH = 32
    for i in range(0, len(cases), CH):
        chunk = [model_line(t, p) for t, p, _ in cases[i:i + CH]]
        big = sum(len(c) for c in chunk) > 20000
        if big:
            out += [drv.ask(c) for c in chunk]
            continue
        drv.p.stdin.write("\n".join(chunk) + "\n")
        drv.p.stdin.flush()
        for _ in chunk:
            r = drv.p.stdout.readline()
            if not r:
                raise Infra("kd_c12 died")
            out.append(r.rstrip("\n"))
    return out


def run_case(text, premod, want_eval, mrep=None):
    """one case; a batch alarm that fires inside it (a loop that makes no calls, or a hang of the
    un-budgeted repeat parses) is confirmed deterministically by a line-count budget"""
    try:
        return run_case0(text, premod, want_eval, mrep)
    except Alarm:
        _W.klong = new_interp(None)
        _W.fresh = None

        def twice():
            k2 = new_interp(premod)
            k2.prog(text)
            k2.prog(text)
        if not line_budgeted(twice, 2_000_000 + 5000 * (len(text) + 1) ** 2):
            raise
        signal.alarm(BATCH_ALARM)
        return dict(text=text, premod=premod, real="hang", calls=-1, mism=None,
                    problems=[("hang", "no return within the batch alarm; confirmed by the line-count budget")])


def run_case0(text, premod, want_eval, mrep=None):
    """one case on the model and on the real parser; returns a dict of observations"""
    out = dict(text=text, premod=premod, problems=[], mism=None)
    # ---- model
    st = None
    if _W.drv is not None:
        if mrep is None:
            mrep = _W.drv.ask(model_line(text, premod))
        mf = common.fields(mrep)
        if mf["_"] in ("ok", "err"):
            st = int(mf["st"])
    budget = min(K_CALLS * st + K0_CALLS, CAP_CALLS) if st is not None else min(K_CALLS * 20 * (len(text) + 1) ** 2 + K0_CALLS, CAP_CALLS)
    out["budget"] = budget
    # ---- real, first parse (long-lived interpreter: history is part of the test)
    k = _W.klong
    try:
        if premod:
            # the same text first in ANOTHER module: a parse cache keyed on the text alone shows up below
            if k._module is not None:
                k.prog(".module(0)")
            guarded(lambda: k.prog(text), budget)
            k.prog(f".module(:{premod})")
        elif k._module is not None:
            k.prog(".module(0)")
    except Exception as e:  # the set-up itself is broken
        out["problems"].append(("setup", f"{type(e).__name__}: {e}"))
    mod0 = k._module
    s0 = snap(k)
    tag, val, calls = guarded(lambda: k.prog(text), budget)
    out["calls"] = calls
    real = classify_real(tag, val)
    out["real"] = real[0] + (":" + real[2] if real[2] else "")
    mod1 = k._module
    s1 = snap(k)
    if tag == "hang":
        out["problems"].append(("hang", f"more than {budget} profile events (model steps {st})"))
        _W.klong = new_interp(None)
        return out
    if s0 != s1:
        out["problems"].append(("variables", _snapdiff(s0, s1)))
        _W.klong = new_interp(None)
        _W.fresh = None
    # the module may change only through .module(...)
    if modstr(mod0) != modstr(mod1) and ".module" not in text:
        out["problems"].append(("module", f"{mod0!r} -> {mod1!r} without .module"))
    # ---- repeat in the same module, same interpreter
    k = _W.klong
    try:
        k._module = mod0
        tag2, val2, _ = plain(lambda: k.prog(text))
        if (tag, tag2) == ("ok", "ok"):
            d1 = (val[0], fulldump(val[1]))
            d2 = (val2[0], fulldump(val2[1]))
            if d1 != d2:
                out["problems"].append(("module-object-address" if same_up_to_address(d1, d2) else "repeat", f"{d1} != {d2}"))
        elif tag != "deep" and tag2 != "deep" and (tag, type(val).__name__ if tag == "err" else "") != (tag2, type(val2).__name__ if tag2 == "err" else ""):
            out["problems"].append(("repeat", f"{tag}:{val!r} then {tag2}:{val2!r}"))
    except RecursionError:
        pass
    # ---- fresh interpreter, same module: history independence
    try:
        f = young_interp(premod)
        tag3, val3, _ = plain(lambda: f.prog(text))
        if (tag, tag3) == ("ok", "ok"):
            h1, h3 = (val[0], fulldump(val[1])), (val3[0], fulldump(val3[1]))
            if h1 != h3:
                out["problems"].append(("module-object-address" if same_up_to_address(h1, h3) else "history",
                                        f"{h1[1]} != fresh {h3[1]}"))
        elif "deep" not in (tag, tag3) and tag != tag3:
            out["problems"].append(("history", f"{tag} vs fresh {tag3}"))
        # ---- evaluation of the first and of the re-parsed program
        if want_eval and (tag, tag2) == ("ok", "ok") and not SAFE_EVAL.search(text):
            e1 = _eval(new_interp(premod), val[1])
            e2 = _eval(new_interp(premod), val2[1])
            out["eval"] = e1[0]
            if e1[0] != "skip" and e2[0] != "skip" and e1 != e2:
                out["problems"].append(("eval", f"{e1} != {e2}"))
    except RecursionError:
        pass
    # ---- correspondence with the model
    if mrep is not None and in_model_text(text):
        mf = common.fields(mrep)
        out["inmodel"] = True
        if mf["_"] in ("spin", "fuel"):
            out["mism"] = ("model-nontermination", mrep[:200], out["real"])
        elif mf.get("exotic") == "1" or tag == "deep" or real[4] == "deep":
            out["inmodel"] = False
        else:
            if mf["_"] == "ok":
                model = ("ok", int(mf["i"]), "", "-", mf.get("ast", ""))
            else:
                model = ("err", -1, mf["kind"], mf["pos"], "")
            if model != real or mf["mod"] != modstr(mod1):
                names = ("class", "end-index", "error-kind", "error-pos", "ast", "module")
                diff = [n for n, x, y in zip(names, model + (mf["mod"],), real + (modstr(mod1),)) if x != y]
                out["mism"] = ("parse:" + ",".join(diff), f"{model} mod={mf['mod']}", f"{real} mod={modstr(mod1)}")
    else:
        out["inmodel"] = False
    out["st"] = st
    return out


def _eval(k, prog):
    tag, val, _ = guarded(lambda: [k.call(y) for y in prog], EVAL_CAP)
    if tag == "ok":
        try:
            return ("ok", canon_value(val))
        except RecursionError:
            return ("skip", "")
    if tag == "err":
        return ("err", type(val).__name__)
    return ("skip", "")


def _snapdiff(a, b):
    if len(a) != len(b):
        return f"context depth {len(a)} -> {len(b)}"
    for (ta, da), (tb, db) in zip(a, b):
        if da != db:
            ks = sorted(set(da) ^ set(db)) or sorted(x for x in da if da[x] != db.get(x))
            return f"{ta}: changed {ks[:5]}"
    return "?"


def _worker_init(use_driver):
    import resource
    try:
        resource.setrlimit(resource.RLIMIT_AS, (6 << 30, 6 << 30))
    except Exception:
        pass
    signal.signal(signal.SIGALRM, _on_alarm)
    from klongpy import KlongInterpreter
    _W.KI = KlongInterpreter
    _W.klong = KlongInterpreter()
    _W.drv = Driver("c12") if use_driver else None


def _worker_batch(job):
    """job: (id, list of (text, premod, want_eval)); returns (id, counters, anomalies, samples)"""
    bid, batch = job
    counters = {}
    anomalies = []
    samples = []
    signal.alarm(BATCH_ALARM)
    try:
        mreps = model_many(batch) if _W.drv is not None else [None] * len(batch)
        for (text, premod, want_eval), mrep in zip(batch, mreps):
            try:
                o = run_case(text, premod, want_eval, mrep)
            except Alarm:
                anomalies.append(dict(text=text, premod=premod, problems=[("infra-alarm", "batch alarm")], mism=None))
                break
            key = "real:" + o["real"]
            counters[key] = counters.get(key, 0) + 1
            if o.get("inmodel"):
                counters["in-model"] = counters.get("in-model", 0) + 1
            if "eval" in o:
                counters["eval:" + o["eval"]] = counters.get("eval:" + o["eval"], 0) + 1
            if o.get("st") and o.get("calls", 0) > 0:
                r = o["calls"] / max(1, o["st"])
                counters["maxratio"] = max(counters.get("maxratio", 0), r)
                n = len(text) + 1
                counters["maxsteps_over_n2"] = max(counters.get("maxsteps_over_n2", 0), o["st"] / (n * n))
            if o["problems"] or o["mism"]:
                anomalies.append(dict(text=text, premod=premod, problems=o["problems"], mism=o["mism"]))
            elif len(samples) < 1 and len(text) > 3:
                samples.append(dict(text=text, premod=premod, real=o["real"], steps=o.get("st"), calls=o.get("calls")))
    finally:
        signal.alarm(0)
    return bid, counters, anomalies, samples


# --------------------------------------------------------------------------- generators

TOK = re.compile(r'"(?:[^"]|"")*"?|0c.|:[A-Za-z.][A-Za-z0-9.]*|[A-Za-z.][A-Za-z0-9.]*|\d+(?:\.\d+)?(?:e[+-]?\d+)?|\s+|:[^\s\w]|.', re.S)
INSERT_POOL = ['(', ')', '[', ']', '{', '}', ';', ':', '"', "'", '+', '-', '1', 'x', 'f', '.', ':[', ':|', ':{',
               '0c', '/', '\\', ':"', ',', ' ', '::', 'e', '1.5', '.comment("x")', '.module(:m)', '[;', ':(']


def corpus_lines():
    files = sorted(glob.glob(str(common.REPO / "**" / "*.kg"), recursive=True))
    seen = set()
    out = []
    for f in files:
        try:
            txt = open(f, encoding="utf-8").read()
        except Exception:
            continue
        for l in txt.split("\n"):
            if l.strip() and l not in seen:
                seen.add(l)
                out.append(l)
    return out, len(files)


def tokens(line):
    return TOK.findall(line)


def single_edits(toks, rng, all_inserts=False):
    """token-level single edits: (kind, text)"""
    idx = [i for i, t in enumerate(toks) if not t.isspace()]
    for i in idx:
        yield "delete", "".join(toks[:i] + toks[i + 1:])
        yield "truncate", "".join(toks[:i])
        ins = INSERT_POOL if all_inserts else [rng.choice(INSERT_POOL)]
        for tk in ins:
            yield "insert", "".join(toks[:i] + [tk] + toks[i:])
    for a, b in zip(idx, idx[1:]):
        t2 = list(toks)
        t2[a], t2[b] = t2[b], t2[a]
        yield "swap", "".join(t2)
    yield "insert", "".join(toks) + rng.choice(INSERT_POOL)


def random_edit(toks, rng):
    idx = [i for i, t in enumerate(toks) if not t.isspace()]
    if not idx:
        return toks
    i = rng.choice(idx)
    r = rng.random()
    if r < 0.3:
        return toks[:i] + toks[i + 1:]
    if r < 0.6:
        return toks[:i] + [rng.choice(INSERT_POOL)] + toks[i:]
    if r < 0.8 and len(idx) > 1:
        j = rng.choice(idx)
        t2 = list(toks)
        t2[i], t2[j] = t2[j], t2[i]
        return t2
    return toks[:i]


def long_strings(sizes=(25, 80)):
    out = []
    for n in sizes:
        out += [
            "(" * n + "1" + ")" * n, "(" * n, "{" * n + "x" + "}" * n, "{" * n, "[" * n + "]" * n, "[" * n,
            ":[" * n, ":[1;2;" * n + "3" + "]" * n, ":[1;2:|" * n + "1;2;3]",
            "+" * n + "1", "1+" * n + "1", "x-" * n, "-" * n, "x+" * (n // 2) + "x [" + "1 " * n + "]",
            "a:" * n + "1", '"' + "a" * n, '"' + '""' * n, ':"' + "a" * n, (':"a" ' * n) + "1",
            '.comment("end")' + "x" * n, '.comment("end")' + "x" * n + "end 1", '.comment("aa")' + "a" * n,
            "f(" * n + ")" * n, "f(" * n, "f(" + ";" * n + ")", "f(" + "1;" * n + ")", "f(1)" * n,
            "1" + "'" * n, "+/" * n + "1", "+" + "/'" * n + "[1 2]", "1" * n, "1." * n, "1e" * n, "1e-" * n,
            "a" * n, "." * n, ":a" * n, ":" * n, "0c" * n, "0c", ";" * n, "\n" * n, " " * n, " " * n + "1",
            "[;" * n, "[;1;2" * n + "]" * n, ":{" * n, ":{[1 2]" + "[1 2]" * n + "}", "[" + '"a" ' * n + "]",
            "{x}(" * n, "{x}:(" * n + "1" + ")" * n, "x::" * n + "1", "{[a b];a::x;" * n,
            ".module(:m);" + "a+" * n + "a", ".module(:m)\n" * n, "1 " * n, "a b " * n, "+ " * n, "@'" * n,
            "f(g(" * n + "1" + "))" * n, "f(1 [" + "1 " * n + "])",
        ]
    return out


OPENERS = [':"', '"', '0c', '[', '{', '(', ':[', ':{', '[;', 'f(', '.comment("', ':', '1e', '1.', '-', ':|', "+/", "a::"]


DIRECTIVE_ARGS = ['"END"', 'stop', ':stop', 'foo "END"', ':foo "END"', 'foo"END"', 'm::"END"', 'x1::"END"', 'stop::stop',
                  '"EN","D"', '3:^"*"', 'f("END")', '{x}("END")', '{m::x}("END")', '[stop]', 'stop;"END"', ';stop',
                  '"END";stop', '0cE', 'x', 'q', ':q.r', '.e', 'a+b', '-stop', 'stop+1', ':[1;"END";stop]', '[;stop]',
                  '', '1', '""']
DIRECTIVE_BODIES = ['', '\nignored\nEND\n1+1', '\nignored\nstop\n1+1', ' never closed', '\nfoo END stop q 1+1', ';a::1']


def directive_strings(lines):
    """parse-time directives (.comment / .module) whose argument is not a plain string literal: a bare
    or quoted symbol, a symbol token in front of the string, an assignment, an expression -- with the
    marker present in the rest of the text and absent from it (the text is then rejected) -- plus every
    single pool edit of every corpus line that contains a directive"""
    out = []
    for d in (".comment", ".module"):
        for a in DIRECTIVE_ARGS:
            for b in DIRECTIVE_BODIES:
                out.append(f"{d}({a}){b}")
    out += ["x1::10;.comment(x1::\"END\")\nEND\nx1", "f::{x};.comment(f(\"END\"))\nEND", "g(.comment(stop))stop"]
    pool = INSERT_POOL + ["foo", ":foo", "stop", "m::", "foo::", "q "]
    for l in lines:
        if ".comment" in l or ".module" in l:
            toks = tokens(l)
            idx = [i for i, t in enumerate(toks) if not t.isspace()]
            for i in idx + [len(toks)]:
                for tk in pool:
                    out.append("".join(toks[:i] + [tk] + toks[i:]))
    return out


def opener_strings():
    """every construct opener followed by every character (alone, doubled, after a blank, before a quote)"""
    out = []
    for o in OPENERS:
        for a in ALPHABET:
            out += [o + a, o + a + a, o + " " + a, o + a + '"', o + a + ")", "x" + o + a]
    return out


def exhaustive(maxlen):
    out = [""]
    layer = [""]
    for _ in range(maxlen):
        layer = [s + c for s in layer for c in ALPHABET]
        out += layer
    return out


# --------------------------------------------------------------------------- static obligations

PARSE_PATH = {
    "parser.py": {"cmatch", "cmatch2", "cpeek", "cpeek2", "cexpect", "cexpect2", "read_shifted_comment",
                  "read_sys_comment", "skip_space", "skip", "read_num", "read_char", "read_sym", "read_op",
                  "read_string", "list_to_dict", "read_list", "kg_read", "kg_read_array", "read_cond",
                  "peek_adverb", "read_expr_array"},
    "interpreter.py": PARSER_FUNCS | {"current_module", "_is_monad", "_is_dyad"},
}


def loop_inventory():
    """translator part: the functions on the parse path (prog and everything it calls inside
    parser.py / interpreter.py) contain exactly the loops the model has, and call no function of
    their module that the model does not have.  A new loop or helper on the parse path is a new
    termination obligation."""
    found = {}
    problems = []
    for fname, expected in EXPECTED_LOOPS.items():
        tree = pyast.parse((common.REPO / "klongpy" / fname).read_text())
        defined = set()
        for node in pyast.walk(tree):
            if isinstance(node, pyast.FunctionDef):
                defined.add(node.name)
        got = {}
        for node in pyast.walk(tree):
            if isinstance(node, pyast.FunctionDef) and node.name in PARSE_PATH[fname]:
                n = sum(1 for x in pyast.walk(node) if isinstance(x, (pyast.While, pyast.For, pyast.ListComp,
                                                                       pyast.DictComp, pyast.GeneratorExp, pyast.SetComp)))
                if n:
                    got[node.name] = n
                for x in pyast.walk(node):
                    if isinstance(x, pyast.Call):
                        f = x.func
                        name = f.id if isinstance(f, pyast.Name) else (f.attr if isinstance(f, pyast.Attribute) else None)
                        owner_ok = isinstance(f, pyast.Name) or (isinstance(f.value, pyast.Name) and f.value.id in ("self", "klong"))
                        if name in defined and owner_ok and name not in PARSE_PATH[fname] and name not in ("__init__",):
                            problems.append(f"{fname}:{node.name} calls {name}")
        found[fname] = got
    exp = {"parser.py": dict(EXPECTED_LOOPS["parser.py"], list_to_dict=1), "interpreter.py": EXPECTED_LOOPS["interpreter.py"]}
    if found != exp:
        problems.append(f"loops {found} != {exp}")
    return not problems, problems or found


# --------------------------------------------------------------------------- entry

def _cases(ctx):
    """generator of (group, text, premod, want_eval); deduplicated on (text, premod)"""
    quick = ctx.tier == "quick"
    rng = ctx.rng
    seen = ctx._distinct = set()      # 64-bit digests of (text, premod)

    def fresh(text, premod):
        h = hash((text, premod))
        if h in seen:
            return False
        seen.add(h)
        return True

    cdir = common.CORPUS / "C12"
    if cdir.exists():
        for p in sorted(cdir.glob("*.json")):
            c = json.loads(p.read_text())
            for item in c.get("cases", []):
                if fresh(item["text"], item.get("premod")):
                    yield ("corpus", item["text"], item.get("premod"), False)
    for s in long_strings((25, 80) if quick else (25, 80, 120)):
        if fresh(s, None):
            yield ("long", s, None, False)
    for s in exhaustive(2 if quick else 3):
        if fresh(s, None):
            yield ("exhaustive", s, None, True)
    for s in opener_strings():
        if fresh(s, None):
            yield ("opener", s, None, True)
    lines, nfiles = corpus_lines()
    for s in directive_strings(lines):
        if fresh(s, None):
            yield ("directive", s, None, False)
    # the short strings again inside a module (symbols get qualified)
    ex2 = exhaustive(2)
    for s in (rng.sample(ex2, 300) if quick else ex2):
        if fresh(s, "m"):
            yield ("exhaustive-in-module", s, "m", True)
    ctx.extra["corpus_files"] = nfiles
    ctx.extra["corpus_unique_lines"] = len(lines)
    if quick:
        for l in rng.sample(lines, min(400, len(lines))):
            if fresh(l, None):
                yield ("line", l, None, True)
        for _ in range(5000):
            toks = tokens(rng.choice(lines))
            kind, txt = rng.choice(list(single_edits(toks, rng)))
            pm = "m" if rng.random() < 0.1 else None
            if fresh(txt, pm):
                yield ("edit1:" + kind, txt, pm, rng.random() < 0.5)
        for _ in range(600):
            toks = tokens(rng.choice(lines))
            txt = "".join(random_edit(random_edit(toks, rng), rng))
            if fresh(txt, None):
                yield ("edit2", txt, None, rng.random() < 0.5)
    else:
        full = set(rng.sample(range(len(lines)), min(500, len(lines))))
        for li, l in enumerate(lines):
            if fresh(l, None):
                yield ("line", l, None, True)
            toks = tokens(l)
            for kind, txt in single_edits(toks, rng, all_inserts=li in full):
                if fresh(txt, None):
                    yield ("edit1:" + kind, txt, None, rng.random() < 0.1)
        for _ in range(100_000):
            toks = tokens(rng.choice(lines))
            txt = "".join(random_edit(random_edit(toks, rng), rng))
            pm = "m" if rng.random() < 0.05 else None
            if fresh(txt, pm):
                yield ("edit2", txt, pm, rng.random() < 0.1)


def _report(ctx, group, a):
    case = dict(kind="parse", text=a["text"], premod=a["premod"], group=group)
    for key, detail in a["problems"]:
        if key == "infra-alarm":
            raise Infra(f"worker batch alarm on {a['text'][:80]!r} (not confirmed as a hang by the line-count budget)")
        what = {
            "hang": "the parser does not return within the call budget derived from the model's step count",
            "variables": "parsing changed a variable",
            "module": "parsing changed the module without .module(...)",
            "repeat": "parsing the same text again in the same module gives a different program",
            "history": "a fresh interpreter in the same module parses the text differently",
            "eval": "the re-parsed program evaluates differently",
            "module-object-address": "two parses differ only in a memory address inside a module-qualified symbol name",
            "setup": "setting the module through .module(...) failed",
        }.get(key, key)
        ctx.oracle_fail("parse:" + key, case, "property holds", detail[:600], what)
    if a["mism"]:
        where, model, impl = a["mism"]
        ctx.bump("mismatch:" + where)
        if ctx.hist["mismatch:" + where] <= 4:
            common.log(f"C12 mismatch on {a['text']!r} (module {a['premod']}): model {model} / real {impl}"[:1200])
        ctx.mismatch("Klong.C12.parse vs KlongInterpreter.prog (" + where + ")", case, model, impl)


def run(ctx):
    quick = ctx.tier == "quick"
    use_driver = bool(getattr(ctx, "driver_ok", True))
    ctx.rule = ("every string over a 38-character token alphabet up to length 2 (quick) / 3 (thorough); the short strings "
                "again inside a module; token-level edits (delete, insert, swap, truncate) of the unique lines of every "
                ".kg file of the repository: a seeded sample of single and double edits (quick) / every delete, truncate, "
                "swap and one seeded insert per position, every pool insert for 500 lines, 100k double edits (thorough); "
                "every construct opener followed by every character; parse-time directives (.comment/.module) with 31 kinds "
                "of non-literal argument x 6 continuations and every pool insert into every corpus line holding a directive; a fixed set of long generated strings. distinct = distinct (text, module); non-trivial = length >= 2")
    ctx.assumptions += [
        "Python's recursion limit is not modelled: RecursionError counts as an error after bounded work and is excluded from the model comparison",
        "character classes of the model are ASCII; texts containing a non-ASCII letter/digit/space are checked by the oracles only",
        "numpy's kg_asarray is total on lexer lists (trusted)",
    ]
    # static obligations
    ok, found = loop_inventory()
    ctx.obligation("loop-inventory (parser.py / parser half of interpreter.py contain exactly the modelled loops)", ok, json.dumps(found))
    if use_driver:
        d = Driver("c12")
        try:
            rep = d.ask("monads")
        finally:
            d.close()
        from klongpy import KlongInterpreter
        real = sorted(enc(k) for k in KlongInterpreter()._vm.keys())
        ctx.obligation("monad-table (Klong.C12.monadNames = keys of KlongInterpreter._vm)",
                       sorted(rep.split(" ", 1)[1].split(",")) == real, f"{rep} vs {real}")
    bsz = 250 if quick else 2000
    groups = {}
    total = [0]

    def batches():
        cur = []
        bid = 0
        for g, t, p, e in _cases(ctx):
            total[0] += 1
            ctx.bump("group:" + g.split(":")[0])
            if g == "long":       # quadratic cost: small batches of their own
                groups[bid] = {(t, p): g}
                yield bid, [(t, p, e)]
                bid += 1
                continue
            cur.append((g, t, p, e))
            if len(cur) >= bsz:
                groups[bid] = {(t, p): g for g, t, p, e in cur}
                yield bid, [(t, p, e) for g, t, p, e in cur]
                bid += 1
                cur = []
        if cur:
            groups[bid] = {(t, p): g for g, t, p, e in cur}
            yield bid, [(t, p, e) for g, t, p, e in cur]

    nproc = min(16, os.cpu_count() or 1)
    mpctx = mp.get_context("fork")
    with mpctx.Pool(nproc, initializer=_worker_init, initargs=(use_driver,)) as pool:
        done = 0
        for bid, counters, anomalies, samples in pool.imap_unordered(_worker_batch, batches()):
            done += 1
            if done % 50 == 0:
                common.log(f"C12: {done} batches, {total[0]} cases generated, {len(ctx.mismatches)} mismatches, "
                           f"{len(ctx.oracle_failures)} oracle failures")
            for k, v in counters.items():
                if k.startswith("max"):
                    ctx.extra[k] = round(max(ctx.extra.get(k, 0), v), 3)
                else:
                    ctx.bump(k, v)
            grp = groups.pop(bid, {})
            for a in anomalies:
                _report(ctx, grp.get((a["text"], a["premod"]), "?"), a)
            for s in samples:
                ctx.sample(s, limit=8)
    ctx.evaluations = total[0]
    ctx.extra["cases"] = total[0]
    cases = range(total[0])
    ctx.extra["search_only"] = ["a text that does not contain `.module` leaves the parse-time module unchanged "
                                "(theorem parse_module_effect proves: the state changes only by parse_module steps)",
                                "result independent of the amount of fuel above the bound (not stated as a theorem)"]
    inm = ctx.hist.get("in-model", 0)
    ctx.extra["in_model_fraction"] = round(inm / max(1, len(cases)), 4)
    ctx.extra["budget"] = f"{K_CALLS} * steps_model + {K0_CALLS} profile events (cap {CAP_CALLS})"


def replay(ctx, case):
    c = case.get("case", case)
    _worker_init(bool(getattr(ctx, "driver_ok", True)))
    signal.alarm(BATCH_ALARM)
    try:
        o = run_case(c["text"], c.get("premod"), True)
    finally:
        signal.alarm(0)
        if _W.drv:
            _W.drv.close()
    ctx.count((c["text"], c.get("premod")))
    _report(ctx, c.get("group", "replay"), dict(text=c["text"], premod=c.get("premod"), problems=o["problems"], mism=o["mism"]))
    print("replay:", json.dumps(dict(text=c["text"], real=o["real"], calls=o.get("calls"), budget=o.get("budget"),
                                     problems=o["problems"], mismatch=o["mism"]), default=str)[:2000])
