"""C12 — parsing always terminates and is repeatable.

Tie: every generated string is parsed by the REAL `KlongInterpreter().prog(text)` under a
deterministic call-count budget (sys.setprofile; the budget is K * steps_model(text) + K0, so a
loop that stops advancing is a budget overrun, never a wall-clock timeout) and by the Lean parser
`Klong.C12.parse` (driver kd_c12): same success/error class, same end index, same exception type
and position, same parse-time module, same structural dump of the program.

Oracles that need no model (the failing-input search):
  * hang       — the real parser exceeds the call budget (or the absolute cap);
  * variables  — snapshot of every context dictionary before/after parsing is identical;
  * repeat     — parsing the same text again in the same module gives a structurally identical program;
  * history    — a fresh interpreter put into the same module gives the same program (no stale state);
  * module     — the parse-time module changes only through `.module(...)`;
  * eval       — evaluating the re-parsed program gives what the first gives (safe programs only);
  * literal-mutated / reevaluation — every verb with a LITERAL operand (directly and inside a function), evaluated
                    twice with different other operands on numpy and torch: the parsed program is unchanged and the
                    second evaluation equals a fresh interpreter's;
  * call-history — the text and its blank-space siblings through __call__ (parse cache) on long-lived
                    interpreters, in both orders: the program each call would run is the parse of that very text;
  * address-reuse — the text rebuilt as a transient string on the memory block of a prefix parsed and dropped
                    just before (same id()) parses to the program of the first parse.

Every worker process runs its own interpreter and its own Lean driver (16 cores).  The parent supervises
the workers with a wall-clock watchdog (class Supervisor): a text on which a worker goes silent (work inside
a C extension is invisible to the call count and cannot be interrupted from inside) or whose parse takes
seconds is re-run alone in a fresh process; stuck/slow again = `parse:hang` failing input; the worker is
killed and replaced, the run stops early.  Texts run shortest first, so the smallest one becomes the replay.
"""
import ast as pyast
import glob
import json
import multiprocessing as mp
import os
import re
import signal
import sys
import time
import zlib
from multiprocessing.connection import wait as mp_wait

from . import common
from .common import Driver, Infra

CLAIM = dict(
    text="Lean 4 theorems over a model of klongpy's lexer and recursive-descent parser (every while-loop a "
         "progress-checked recursion, recursion between parser functions on fuel): every lexer function advances, "
         "the parser never reaches `.spin`/`.outOfFuel` with fuel 8*(|t|+2) for EVERY string, character "
         "classification and monad table, step count <= 140*(|t|+2)^2, parsing is a function of (text, module) whose only "
         "state change is a sequence of parse_module steps; pinned-tree witness `.comment(\"\")` = spin by decide. Model tied to the "
         "code by differential parsing (class, end index, error, module, AST dump) of all strings <= 3 over a "
         "38-character alphabet, token-level edits of every .kg line, and long generated strings, the real parser "
         "running under a call-count budget derived from the model's step count.",
    note="trusted: Lean kernel, the correspondence harness, CPython str methods (isspace/isalpha/isnumeric/float()/int()), "
         "numpy asarray; Python's recursion limit is not modelled (RecursionError counts as an error after bounded work); "
         "the model is ASCII on character classes (theorems hold for any classification)",
    technique="Lean 4 fuel/progress termination proof over a hand-written parser model + differential testing under a "
              "deterministic call-count budget",
    design="7/C12")

MODULES = ["Klong.Props.C12"]
THEOREMS = [
    "Klong.C12.lexer_progress",
    "Klong.C12.comment_loop_terminates",
    "Klong.C12.parse_terminates",
    "Klong.C12.parse_steps_poly",
    "Klong.C12.parse_deterministic",
    "Klong.C12.parse_module_effect",
    "Klong.C12.pinned_comment_spins",
]

ALPHABET = list("01acefx\"'[]{}():;.+-*%&|,=<>~!^#@_/\\ \n")
assert len(ALPHABET) == 38, len(ALPHABET)
# characters outside ASCII, one per way Python classifies them: letters (Latin-1, Greek, Cyrillic, CJK,
# non-BMP), a digit that is no decimal (superscript two), a numeric that is no digit (one half), a
# combining mark, an emoji (no class at all), two spaces (no-break space, line separator)
UNICODE = ["\u00e9", "\u03bb", "\u0438", "\u540d", "\U0001d465", "\u00b2", "\u00bd", "\u0301", "\U0001f600", "\u00a0", "\u2028"]
UNI_HOLES = ["_", "[_]", "[a _ b]", "[_", "[1 _", ":{[_ 1]}", ":{[1 _]}", ":{[_", "a,_", "_,a", "f(_)", "f(_;1)", "f(1;_)", "f(_",
             "{_}", "{x+_}", "(_)", ":_", "0c_", "\"_\"", "\"_", ":\"_", ":\"_\"1", "1_", "_1", "a_", "_a", "._", "_.a", "_::1", "a::_",
             ".comment(\"_\")x_", ".comment(_)_", ".module(:_)", ".module(_);a", "[;_;1]", "[;1;_", ":[_;1;2]", ":[1;_;2]",
             "+/_", "_'", "_/[1]", "1e_", "1._", "-_", "1 _ 2", "_ _", "[[_]]", "[\"a\" _]", "_\n_", ";_;"]

K_CALLS = 100         # real profile events allowed per model step
K0_CALLS = 2000
CAP_CALLS = 30_000_000
EVAL_CAP = 150_000
# Wall clock is used ONLY as a supervisor: work done inside a C extension (e.g. a backtracking regular
# expression) makes no Python calls and cannot be interrupted by a signal handler, so the parent process
# watches every worker.  SOFT: a parse that takes this long is re-run in a fresh process and reported if it
# is slow again.  HARD: a worker that does not start its next text within this time is killed, the text is
# confirmed in a fresh process (killed again = hang) and the worker is replaced.  Ordinary texts take
# milliseconds; both limits grow with the model's step count.
SOFT_WALL = 3.0
SOFT_PER_STEP = 1 / 1000
HARD_WALL = 12.0
HARD_PER_STEP = 1 / 300
MODEL_WALL = 240.0    # the pipelined model calls of one batch
GRACE_AFTER_HANG = 25.0
REUSE_TRIES = 48      # allocations tried to land a rebuilt text on the block of the text just dropped
K_SWITCHES = 40       # module switches through __call__ before the long-lived interpreter is renewed

EXPECTED_LOOPS = {
    "parser.py": {"read_shifted_comment": 1, "read_sys_comment": 1, "skip_space": 1, "read_num": 1,
                  "read_sym": 1, "read_string": 1, "read_list": 1, "read_expr_array": 1},
    "interpreter.py": {"_apply_adverbs": 1, "_read_fn_args": 1, "_expr": 1, "prog": 1},
}
PARSER_FUNCS = {"_apply_adverbs", "_read_fn_args", "_factor", "_expr", "prog", "parse_module"}


def enc(s):
    return ".".join(str(ord(c)) for c in s)


# --------------------------------------------------------------------------- in-worker state

class _W:
    klong = None
    drv = None
    KI = None
    fresh = None        # (premod, interpreter, uses): a young interpreter for the history check
    n = 0
    switches = 0
    stubs = [None, None]    # long-lived stubbed interpreters of the call-history oracle
    purity = {}             # backend -> [interpreter, reference interpreter, uses]


class Budget(BaseException):
    pass


def guarded(fn, limit):
    """run fn() counting profile events (Python and C calls); ('ok', value, n) / ('err', exc, n) /
    ('hang', None, n) when the budget is exceeded / ('deep', None, n) on RecursionError"""
    cnt = [0]

    def prof(frame, ev, arg):
        if ev == "call" or ev == "c_call":
            cnt[0] += 1
            if cnt[0] > limit:
                sys.setprofile(None)
                raise Budget()

    sys.setprofile(prof)
    try:
        v = fn()
        sys.setprofile(None)
        return ("ok", v, cnt[0])
    except Budget:
        return ("hang", None, cnt[0])
    except RecursionError:
        sys.setprofile(None)
        return ("deep", None, cnt[0])
    except MemoryError:
        sys.setprofile(None)
        return ("deep", None, cnt[0])
    except Exception as e:  # noqa
        sys.setprofile(None)
        return ("err", e, cnt[0])
    finally:
        sys.setprofile(None)


def plain(fn):
    """run fn() without counting (the batch alarm still bounds it): ('ok', v, 0) / ('err', e, 0) / ('deep', None, 0)"""
    try:
        return ("ok", fn(), 0)
    except (RecursionError, MemoryError):
        return ("deep", None, 0)
    except Exception as e:  # noqa
        return ("err", e, 0)


def pydump(x, depth=0):
    """structural dump in the format of Klong.C12.dump"""
    from klongpy.core import KGSym, KGChar, KGOp, KGFn, KGCall, KGCond, KGAdverb, KGLambda
    from klongpy.parser import KGExprArray
    import numpy as np
    if x is None:
        return "N"
    if isinstance(x, KGSym):
        return "Y" + enc(x)
    if isinstance(x, KGChar):
        return "C" + str(ord(x)) if len(x) == 1 else "C?" + enc(x)
    if isinstance(x, str):
        return "S" + enc(x)
    if isinstance(x, bool):
        return "B?"
    if isinstance(x, int):
        return "I" + str(x)
    if isinstance(x, float):
        return "F"
    if isinstance(x, KGOp):
        return "O" + enc(x.a)
    if isinstance(x, KGAdverb):
        return "V(" + pydump(x.a) + ")"
    if isinstance(x, KGCond):
        return "Q(" + ",".join(pydump(y) for y in x) + ")"
    if isinstance(x, KGExprArray):
        return "E(" + ",".join(pydump(y) for y in x) + ")"
    if isinstance(x, list):
        return "L(" + ",".join(pydump(y) for y in x) + ")"
    if isinstance(x, np.ndarray):
        return "A" + str(len(x)) if x.ndim > 0 else "A?"
    if isinstance(x, KGFn):
        if isinstance(x.a, KGLambda):
            return "D" if isinstance(x.args, dict) else "D?"
        call = "c" if isinstance(x, KGCall) else "f"
        if x.args is None:
            return f"K{call}{x.arity}({pydump(x.a)};-)"
        if type(x.args) is list:
            return f"K{call}{x.arity}({pydump(x.a)};L({','.join(pydump(y) for y in x.args)}))"
        if call == "f" and x.arity == 1:
            return f"M({pydump(x.a)};{pydump(x.args)})"
        return f"K?{call}{x.arity}"
    return "?" + type(x).__name__


def fulldump(x):
    """finer dump for comparing two REAL parses (values and arities included)"""
    from klongpy.core import KGSym, KGChar, KGOp, KGFn, KGCall, KGAdverb, KGLambda
    import numpy as np
    if x is None:
        return "N"
    if isinstance(x, (KGSym, KGChar, str)):
        return type(x).__name__ + ":" + repr(str(x))
    if isinstance(x, (int, float)):
        return type(x).__name__ + ":" + repr(x)
    if isinstance(x, KGOp):
        return f"op:{x.a!r}/{x.arity}"
    if isinstance(x, KGAdverb):
        return f"adv({fulldump(x.a)}/{x.arity})"
    if isinstance(x, list):
        return type(x).__name__ + "(" + ",".join(fulldump(y) for y in x) + ")"
    if isinstance(x, np.ndarray):
        return "arr:" + str(x.dtype.kind) + ":" + (fulldump(x.tolist()) if x.dtype != object else fulldump(list(x)))
    if isinstance(x, dict):
        return "dict(" + ",".join(fulldump(k) + "=" + fulldump(v) for k, v in x.items()) + ")"
    if isinstance(x, KGFn):
        a = "lambda" if isinstance(x.a, KGLambda) else fulldump(x.a)
        return f"{type(x).__name__}/{x.arity}({a};{fulldump(x.args)})"
    if isinstance(x, np.generic):
        return "np:" + repr(x.item())
    if hasattr(x, "detach") and hasattr(x, "tolist"):      # torch tensor
        return "tensor:" + str(x.dtype) + ":" + fulldump(x.detach().cpu().tolist())
    return "?" + type(x).__name__


def canon_value(v, depth=0):
    """canonical text of an evaluation result"""
    import numpy as np
    from klongpy.core import KGFn, KGSym, KGChar
    if depth > 50:
        return "deep"
    if isinstance(v, np.ndarray):
        if v.ndim == 0:
            return canon_value(v.item(), depth + 1)
        return "[" + " ".join(canon_value(x, depth + 1) for x in (v.tolist() if v.dtype != object else list(v))) + "]"
    if isinstance(v, (list, tuple)):
        return "[" + " ".join(canon_value(x, depth + 1) for x in v) + "]"
    if isinstance(v, (KGSym, KGChar)):
        return type(v).__name__ + repr(str(v))
    if isinstance(v, KGFn):
        return "fn:" + fulldump(v)
    if isinstance(v, dict):
        return "{" + " ".join(canon_value(k, depth + 1) + ":" + canon_value(x, depth + 1) for k, x in v.items()) + "}"
    if isinstance(v, (float, np.floating)):
        return "nan" if v != v else repr(float(v))
    if isinstance(v, (int, np.integer)):
        return repr(int(v))
    if isinstance(v, str):
        return "s" + repr(v)
    return type(v).__name__


def snap(k):
    """identity snapshot of every context dictionary"""
    return [(type(d).__name__, {str(key): id(val) for key, val in d.items()}) for d in k._context._context]


def modstr(m):
    if m is None:
        return "-"
    s = str(m)
    return enc(s) if s else "e"


def classify_real(tag, val):
    """(cls, i, kind, pos, ast)"""
    if tag == "ok":
        i, prog = val
        try:
            ast = ",".join(pydump(y) for y in prog)
        except RecursionError:
            ast = "deep"
        return ("ok", i, "", "-", ast)
    if tag == "err":
        name = type(val).__name__
        pos = "-"
        if name in ("UnexpectedChar", "UnexpectedEOF"):
            mm = re.search(r"pos: (\d+)", str(val).split("\n")[-1]) or re.search(r"pos: (\d+) char", str(val), re.S)
            mm2 = re.findall(r"pos: (\d+)", str(val))
            pos = mm2[-1] if mm2 else (mm.group(1) if mm else "?")
        return ("err", -1, name, pos, "")
    return (tag, -1, "", "-", "")


ADDR = re.compile(r"0x[0-9a-f]+")


def same_up_to_address(a, b):
    return a != b and ADDR.sub("0x", str(a)) == ADDR.sub("0x", str(b))


SAFE_EVAL = re.compile(r"\.[A-Za-z]|[∇∂]|\d{4,}")


def in_model_text(text):
    """the driver is told the Python class of every non-ASCII character of the text (model_line); only a
    non-ASCII DECIMAL digit is outside the model (int()/float() accept it, the model's number grammar is ASCII)"""
    for c in text:
        if ord(c) > 127 and c.isdecimal():
            return False
    return True


def unicode_classes(text):
    """request fields us= ua= ud= un=: the non-ASCII characters that are space / alpha / digit / numeric"""
    extra = sorted({c for c in text if ord(c) > 127})
    if not extra:
        return ""
    out = ""
    for key, pred in (("us", str.isspace), ("ua", str.isalpha), ("ud", str.isdigit), ("un", str.isnumeric)):
        cs = [c for c in extra if pred(c)]
        if cs:
            out += f" {key}=" + enc("".join(cs))
    return out


def new_interp(premod):
    k = _W.KI()
    if premod:
        k.prog(f".module(:{premod})")
    return k


FRESH_USES = 20


def young_interp(premod):
    """an interpreter that has parsed at most FRESH_USES texts (none of them twice)"""
    fr = _W.fresh
    if fr is None or fr[0] != premod or fr[2] >= FRESH_USES:
        fr = _W.fresh = [premod, new_interp(premod), 0]
    fr[2] += 1
    k = fr[1]
    if premod:
        k.prog(f".module(:{premod})")
    elif k._module is not None:
        k.prog(".module(0)")
    return k


def to_module(k, premod):
    if modstr(k._module) != (enc(premod) if premod else "-"):
        k.prog(f".module(:{premod})" if premod else ".module(0)")


def transient_check(k, text, premod, ref, out):
    """Texts are usually transient strings (a REPL line, a line of a file): parse a prefix A of the text
    (up to a token boundary) as a brand-new string, drop it, build the text again as a brand-new string until
    CPython hands out A's memory block (same id()), and parse that.  The program must be the one of the first
    parse: nothing the parser remembers may be keyed on the identity of a text it no longer holds.
    Returns a description of the first difference, or None."""
    ends, pos = [], 0
    for tk in tokens(text):
        pos += len(tk)
        if 0 < pos < len(text):
            ends.append(pos)
    tried = reused = 0
    parts = list(text)
    for j in ends[:6]:
        to_module(k, premod)
        a = text[:j]
        if a is text or len(a) < 2:
            a = None
            continue
        ida = id(a)
        try:
            k.prog(a)
        except RecursionError:
            pass
        except Exception:
            pass
        del a
        t2, held = None, []
        for _ in range(REUSE_TRIES):
            b = "".join(parts)        # allocates nothing but the result (text[1:] would take A's block itself)
            if id(b) == ida:
                t2 = b
                break
            held.append(b)
        del held
        tried += 1
        if t2 is None:
            continue
        reused += 1
        to_module(k, premod)
        tag, val, _ = plain(lambda: k.prog(t2))
        got = (val[0], fulldump(val[1])) if tag == "ok" else ("err", type(val).__name__) if tag == "err" else ref
        if got != ref and not same_up_to_address(got, ref):
            out["transient"] = (tried, reused)
            return (f"after parsing and dropping {text[:j]!r}, the same text as a new string object at the same address "
                    f"parses to {got} instead of {ref}")[:700]
    out["transient"] = (tried, reused)
    return None


def blank_siblings(text):
    """texts that differ from `text` only in blank space: around it, and in its inner runs of blanks"""
    vs = [text + " ", text + "\n", " " + text, text + "\t", "\n" + text + "\n", text + "  ", "\t" + text,
          text.strip(), text.rstrip(), text.lstrip(), re.sub(r" +", "  ", text), re.sub(r" {2,}", " ", text)]
    out = []
    for v in vs:
        if v != text and v not in out:
            out.append(v)
    return out


def stub_interp(premod):
    """an interpreter whose __call__ parses (and caches) but evaluates nothing: `call` only records the
    statements it is handed, so the program __call__ would run for a text can be read off without running it"""
    k = new_interp(premod)
    k._c12_rec = []
    k.call = k._c12_rec.append
    return k


def called_program(k, text, premod):
    """what __call__ would execute for `text`: ('ok', dump) / ('err', type name)"""
    import klongpy.interpreter as ki
    saved = ki.compile_expr
    ki.compile_expr = lambda *a, **kw: None
    del k._c12_rec[:]
    try:
        to_module(k, premod)
        k(text)
        return ("ok", fulldump(list(k._c12_rec)))
    except RecursionError:
        return ("deep", "")
    except Exception as e:  # noqa
        return ("err", type(e).__name__)
    finally:
        ki.compile_expr = saved


def call_history_check(text, premod, out):
    """Same text, same module => same program, across a history of evaluations through __call__ (which keeps a
    parse cache): the text and its blank-space siblings are handed to two long-lived stubbed interpreters, in
    the orders (sibling, text, siblings...) and (text, siblings...); the program each call would execute must
    be the one a young interpreter parses from that very text.  Trailing blank space is significant when the
    last lexeme runs to the end of the input (`0c` + blank, an open string, a shifted comment)."""
    sibs = blank_siblings(text)[:8]
    if not sibs:
        return None
    for slot, order in ((0, [sibs[0], text] + sibs[1:]), (1, [text] + sibs)):
        c = _W.stubs[slot]
        if c is None or c[0] != premod or c[2] >= 300:
            c = _W.stubs[slot] = [premod, stub_interp(premod), 0]
        c[2] += 1
        for v in order:
            got = called_program(c[1], v, premod)
            f = young_interp(premod)
            tag, val, _ = plain(lambda: f.prog(v))
            want = ("ok", fulldump(val[1])) if tag == "ok" else ("err", type(val).__name__) if tag == "err" else ("deep", "")
            if got != want and "deep" not in (got[0], want[0]) and not same_up_to_address(got, want):
                _W.stubs[slot] = None
                return (f"after {[x for x in order[:order.index(v)]]!r} were evaluated on the same interpreter, __call__({v!r}) "
                        f"would run {got} but the text parses to {want}")[:800]
    return None


def model_line(text, premod):
    return "parse t=" + enc(text) + (" mod=" + enc(premod) if premod else "") + unicode_classes(text)


def model_many(cases):
    """pipelined model calls in small chunks (both pipe buffers stay far from full)"""
    drv = _W.drv
    out = []
    CH = 32
    real_idx = [i for i, c in enumerate(cases) if c[1] != PURITY]
    if len(real_idx) != len(cases):
        sub = model_many([cases[i] for i in real_idx])
        full = [None] * len(cases)
        for i, r in zip(real_idx, sub):
            full[i] = r
        return full
    for i in range(0, len(cases), CH):
        chunk = [model_line(t, p) for t, p, _ in cases[i:i + CH]]
        big = sum(len(c) for c in chunk) > 20000
        if big:
            out += [drv.ask(c) for c in chunk]
            continue
        drv.p.stdin.write("\n".join(chunk) + "\n")
        drv.p.stdin.flush()
        for _ in chunk:
            r = drv.p.stdout.readline()
            if not r:
                raise Infra("kd_c12 died")
            out.append(r.rstrip("\n"))
    return out


PURITY = "@purity"      # pseudo-module marking a literal-purity scenario (text = JSON)


def run_case(text, premod, want_eval, mrep=None):
    if premod == PURITY:
        return purity_case(text)
    return run_case0(text, premod, want_eval, mrep)


def _value_text(v, depth=0):
    if hasattr(v, "detach") and hasattr(v, "tolist"):
        return "t" + canon_value(v.detach().cpu().tolist())
    return canon_value(v)


def _run_program(k, stmts):
    tag, val, _ = guarded(lambda: [k.call(y) for y in stmts], EVAL_CAP)
    if tag == "ok":
        try:
            return ("ok", [_value_text(v) for v in val])
        except Exception as e:  # noqa
            return ("ok", "undumpable:" + type(e).__name__)
    if tag == "err":
        return ("err", type(val).__name__)
    return ("skip", "")


def purity_case(text):
    """Evaluating a parsed program must not change it: `setup1; P = prog(program); evaluate P; setup2; evaluate P
    again` on one interpreter -- the program's structure (literals included) is the same before and after, equals a
    fresh parse, and the second evaluation gives what a fresh interpreter (setup1; setup2; fresh parse) gives."""
    scn = json.loads(text)
    out = dict(text=text, premod=PURITY, problems=[], mism=None, real="purity")
    try:
        from klongpy import KlongInterpreter
        pair = _W.purity.get(scn["backend"])
        if pair is None or pair[2] >= 400:
            try:        # two interpreters per backend, reused: every scenario re-assigns `a` and parses its own program
                pair = _W.purity[scn["backend"]] = [KlongInterpreter(backend=scn["backend"]),
                                                    KlongInterpreter(backend=scn["backend"]), 0]
            except Exception as e:  # backend not available
                out["real"] = "purity:no-backend"
                return out
        pair[2] += 1
        k, f = pair[0], pair[1]
        k(scn["setup1"])
        _, prog = k.prog(scn["program"])
        d0 = fulldump(prog)
        v1 = _run_program(k, prog)
        k(scn["setup2"])
        v2 = _run_program(k, prog)
        d1 = fulldump(prog)
        f(scn["setup1"])
        f(scn["setup2"])
        _, pf = f.prog(scn["program"])
        df = fulldump(pf)
        vf = _run_program(f, pf)
        out["real"] = "purity:" + v2[0]
        if d0 != d1 or d0 != df:
            out["problems"].append(("literal-mutated", f"program {scn['program']!r} ({scn['backend']}): parsed {d0}; after two "
                                    f"evaluations {d1}; fresh parse {df}"[:800]))
        elif "skip" not in (v2[0], vf[0]) and v2 != vf:
            out["problems"].append(("reevaluation", f"program {scn['program']!r} ({scn['backend']}) after {scn['setup1']!r}, one evaluation, "
                                    f"{scn['setup2']!r}: {v2} but a fresh interpreter gives {vf}"[:800]))
    except RecursionError:
        out["real"] = "purity:deep"
    except Exception as e:  # noqa: the scenario itself does not parse / set up: not this oracle's business
        out["real"] = "purity:setup-" + type(e).__name__
    return out


PURITY_LITS = ["[1 2 3]", "[1.5 2.5 3.5]", "[-1 2]", "[2 -1]", "[[1 2] [3 4]]", "[5 5 5]", "[0 1]", "[3 1 2]", '"abc"', "[1 [2 3]]"]
PURITY_ARGS = [("7,0", "8,1"), ("!6", "!8"), ("[1 2 3]", "[4 5 6 7]"), ("2", "0"), ("[9 0]", "[8 1]"), ('"xy"', '"z"'),
               ("[[1 2] [3 4]]", "[[5 6 7] [8 9 10]]"), ("1.5", "[2.5 3.5]")]
PURITY_DYADS = ["!", "#", "$", "%", "&", "*", "+", ",", "-", ":#", ":$", ":%", ":+", ":-", ":=", ":>", ":@", ":^", ":_",
                "<", "=", ">", "?", "@", "^", "_", "|", "~"]
PURITY_MONADS = ["!", "#", "$", "%", "&", "*", "+", ",", "-", ":#", ":_", "<", "=", ">", "?", "@", "^", "_", "|", "~"]


def purity_scenarios():
    """every dyad with a LITERAL on either side (directly and inside a function), every monad and a few adverbs
    on a literal, evaluated twice with different other operands; numpy and torch"""
    progs = []
    for lit in PURITY_LITS:
        for d in PURITY_DYADS:
            progs += [f"{lit}{d}a", f"a{d}{lit}", f"{{{lit}{d}x}}(a)", f"{{x{d}{lit}}}(a)"]
        for m in PURITY_MONADS:
            progs += [f"{m}{lit}", f"{{{m}{lit}}}()", f"a,{m}{lit}"]
        progs += [f"+/{lit}", f"{lit}+'a", f"a,'{lit}", f"{{x,y}}/{lit}", f"{lit}:=a", f"{lit}:-a", f"{lit}:^a", f"a:^{lit}",
                  f"h::{{{lit}:=x,y}};h(a@0;0)", f"t::{lit};t:=a;t"]
    out = []
    for bi, backend in enumerate(("numpy", "torch")):
        for pi, pr in enumerate(progs):
            a1, a2 = PURITY_ARGS[(pi + bi) % len(PURITY_ARGS)]
            out.append(json.dumps(dict(backend=backend, setup1=f"a::{a1}", program=pr, setup2=f"a::{a2}")))
            if pi % 3 == 0:
                a1, a2 = PURITY_ARGS[(pi // 3 + 1) % len(PURITY_ARGS)]
                out.append(json.dumps(dict(backend=backend, setup1=f"a::{a1}", program=pr, setup2=f"a::{a2}")))
    return out


def run_case0(text, premod, want_eval, mrep=None):
    """one case on the model and on the real parser; returns a dict of observations"""
    out = dict(text=text, premod=premod, problems=[], mism=None)
    # ---- model
    st = None
    if _W.drv is not None:
        if mrep is None:
            mrep = _W.drv.ask(model_line(text, premod))
        mf = common.fields(mrep)
        if mf["_"] in ("ok", "err"):
            st = int(mf["st"])
    budget = min(K_CALLS * st + K0_CALLS, CAP_CALLS) if st is not None else min(K_CALLS * 20 * (len(text) + 1) ** 2 + K0_CALLS, CAP_CALLS)
    out["budget"] = budget
    # ---- real, first parse (long-lived interpreter: history is part of the test)
    # The long-lived interpreter switches modules the way a REPL session does: by EVALUATING `.module(:m)` /
    # `.module(0)` through __call__ (the second time a text is evaluated from the same module is a parse-cache
    # hit, which must replay the switch completely); young interpreters switch by parsing only.
    km = _W.klong._module
    if _W.switches >= K_SWITCHES or not (km is None or type(km).__name__ == "KGSym"):
        _W.klong = new_interp(None)       # also: never carry an exotic module object (a list, a KGOp, ...) over
        _W.switches = 0
    k = _W.klong
    try:
        if premod:
            # self-contained history (so that a replay of this one case reproduces it): enter the module,
            # leave it, parse the same text OUTSIDE the module (a parse cache keyed on the text alone shows up
            # below), then enter the module AGAIN with the identical switch text -- a parse-cache hit
            if k._module is not None:
                k(".module(0)")
            k(f".module(:{premod})")
            k(".module(0)")
            guarded(lambda: k.prog(text), budget)
            k(f".module(:{premod})")
            _W.switches += 3
        elif k._module is not None:
            k(".module(0)")
            _W.switches += 1
    except Exception as e:  # the set-up itself is broken
        out["problems"].append(("setup", f"{type(e).__name__}: {e}"))
        k = _W.klong = new_interp(premod)
        _W.switches = 0
    mod0 = k._module
    s0 = snap(k)
    t0 = time.monotonic()
    tag, val, calls = guarded(lambda: k.prog(text), budget)
    wall = time.monotonic() - t0
    out["wall"] = wall
    if wall > SOFT_WALL + SOFT_PER_STEP * (st or 0):
        out["problems"].append(("slow", f"{wall:.1f} s of wall clock for {len(text)} characters, {calls} profile events "
                                        f"(model steps {st}): work the call count does not see"))
    out["calls"] = calls
    real = classify_real(tag, val)
    out["real"] = real[0] + (":" + real[2] if real[2] else "")
    mod1 = k._module
    s1 = snap(k)
    if tag == "hang":
        out["problems"].append(("hang", f"more than {budget} profile events (model steps {st})"))
        _W.klong = new_interp(None)
        return out
    if s0 != s1:
        out["problems"].append(("variables", _snapdiff(s0, s1)))
        _W.klong = new_interp(None)
        _W.fresh = None
    # the module may change only through .module(...)
    if modstr(mod0) != modstr(mod1) and ".module" not in text:
        out["problems"].append(("module", f"{mod0!r} -> {mod1!r} without .module"))
    # ---- repeat in the same module, same interpreter
    k = _W.klong
    try:
        if modstr(k._module) != modstr(mod0):      # back into the module of the first parse, by parsing
            k.prog(f".module(:{premod})" if premod else ".module(0)")
        tag2, val2, _ = plain(lambda: k.prog(text))
        if (tag, tag2) == ("ok", "ok"):
            d1 = (val[0], fulldump(val[1]))
            d2 = (val2[0], fulldump(val2[1]))
            if d1 != d2:
                out["problems"].append(("module-object-address" if same_up_to_address(d1, d2) else "repeat", f"{d1} != {d2}"))
        elif tag != "deep" and tag2 != "deep" and (tag, type(val).__name__ if tag == "err" else "") != (tag2, type(val2).__name__ if tag2 == "err" else ""):
            out["problems"].append(("repeat", f"{tag}:{val!r} then {tag2}:{val2!r}"))
    except RecursionError:
        pass
    # ---- fresh interpreter, same module: history independence
    try:
        f = young_interp(premod)
        tag3, val3, _ = plain(lambda: f.prog(text))
        if (tag, tag3) == ("ok", "ok"):
            h1, h3 = (val[0], fulldump(val[1])), (val3[0], fulldump(val3[1]))
            if h1 != h3:
                out["problems"].append(("module-object-address" if same_up_to_address(h1, h3) else "history",
                                        f"{h1[1]} != fresh {h3[1]}"))
        elif "deep" not in (tag, tag3) and tag != tag3:
            out["problems"].append(("history", f"{tag} vs fresh {tag3}"))
        # ---- transient strings: the same text as a NEW string object on the address of a text just dropped
        if tag in ("ok", "err") and 2 <= len(text) <= 64 and (len(text) <= 6 or zlib.crc32(text.encode()) % 4 == 0):
            ref = (val[0], fulldump(val[1])) if tag == "ok" else ("err", type(val).__name__)
            bad = transient_check(f, text, premod, ref, out)
            if bad:
                out["problems"].append(("address-reuse", bad))
        # ---- blank-space siblings through __call__ (parse cache) on long-lived interpreters
        if tag in ("ok", "err") and len(text) <= 64 and (len(text) <= 6 or want_eval == 2 or zlib.crc32(text.encode()) % 8 == 1):
            bad = call_history_check(text, premod, out)
            if bad:
                out["problems"].append(("call-history", bad))
        # ---- evaluation of the first and of the re-parsed program
        if want_eval is True and (tag, tag2) == ("ok", "ok") and not SAFE_EVAL.search(text):
            e1 = _eval(new_interp(premod), val[1])
            e2 = _eval(new_interp(premod), val2[1])
            out["eval"] = e1[0]
            if e1[0] != "skip" and e2[0] != "skip" and e1 != e2:
                out["problems"].append(("eval", f"{e1} != {e2}"))
    except RecursionError:
        pass
    # ---- correspondence with the model
    if mrep is not None and in_model_text(text):
        mf = common.fields(mrep)
        out["inmodel"] = True
        if mf["_"] in ("spin", "fuel"):
            out["mism"] = ("model-nontermination", mrep[:200], out["real"])
        elif tag == "deep" and st is not None and st < 600 and mf.get("exotic") != "1":
            # a RecursionError although the text has no depth (the model's whole parse takes < 600 steps;
            # ~330 nested constructs, the least that exhausts 1000 frames, take more)
            out["mism"] = ("parse:recursion-without-depth", mrep[:300], "RecursionError")
        elif mf.get("exotic") == "1" or tag == "deep" or real[4] == "deep":
            out["inmodel"] = False
        else:
            if mf["_"] == "ok":
                model = ("ok", int(mf["i"]), "", "-", mf.get("ast", ""))
            else:
                model = ("err", -1, mf["kind"], mf["pos"], "")
            if model != real or mf["mod"] != modstr(mod1):
                names = ("class", "end-index", "error-kind", "error-pos", "ast", "module")
                diff = [n for n, x, y in zip(names, model + (mf["mod"],), real + (modstr(mod1),)) if x != y]
                out["mism"] = ("parse:" + ",".join(diff), f"{model} mod={mf['mod']}", f"{real} mod={modstr(mod1)}")
    else:
        out["inmodel"] = False
    out["st"] = st
    return out


def _eval(k, prog):
    tag, val, _ = guarded(lambda: [k.call(y) for y in prog], EVAL_CAP)
    if tag == "ok":
        try:
            return ("ok", canon_value(val))
        except RecursionError:
            return ("skip", "")
    if tag == "err":
        return ("err", type(val).__name__)
    return ("skip", "")


def _snapdiff(a, b):
    if len(a) != len(b):
        return f"context depth {len(a)} -> {len(b)}"
    for (ta, da), (tb, db) in zip(a, b):
        if da != db:
            ks = sorted(set(da) ^ set(db)) or sorted(x for x in da if da[x] != db.get(x))
            return f"{ta}: changed {ks[:5]}"
    return "?"


def _worker_init(use_driver):
    import resource
    try:
        resource.setrlimit(resource.RLIMIT_AS, (6 << 30, 6 << 30))
    except Exception:
        pass
    # 16 workers x a full torch thread pool each makes every tensor operation crawl: one thread per worker.
    # Set through the environment so that only a worker that really gets torch scenarios pays for importing it.
    for var in ("OMP_NUM_THREADS", "MKL_NUM_THREADS", "OPENBLAS_NUM_THREADS"):
        os.environ[var] = "1"
    if "torch" in sys.modules:
        try:
            sys.modules["torch"].set_num_threads(1)
        except Exception:
            pass
    from klongpy import KlongInterpreter
    _W.KI = KlongInterpreter
    _W.klong = KlongInterpreter()
    _W.drv = Driver("c12") if use_driver else None


def _steps_of(mrep):
    if mrep is None:
        return 0
    m = re.search(r" st=(\d+)", mrep)
    return int(m.group(1)) if m else 0


def _worker_main(conn, use_driver):
    """worker process: receives ('batch', id, cases), announces every text before it starts on it
    ('hb', id, index, model steps) so that the parent can see which text a silent worker is stuck on, and
    answers ('done', id, counters, anomalies, samples)"""
    try:
        _worker_init(use_driver)
        conn.send(("ready",))
        while True:
            msg = conn.recv()
            if msg[0] == "stop":
                break
            _, bid, batch = msg
            counters, anomalies, samples = {}, [], []
            conn.send(("hb", bid, -1, 0))
            mreps = model_many(batch) if _W.drv is not None else [None] * len(batch)
            for k, ((text, premod, want_eval), mrep) in enumerate(zip(batch, mreps)):
                if premod == PURITY and '"backend": "torch"' in text and "torch" not in sys.modules:
                    # first use of that backend in this process: importing it costs seconds of CPU (much more of
                    # wall clock on a loaded machine) and is no property of the text, so it is done under the
                    # limit of the batch's model calls (an overrun there is an infrastructure error, never a hang)
                    conn.send(("hb", bid, -1, 0))
                    try:
                        from klongpy import KlongInterpreter
                        KlongInterpreter(backend="torch")("1+1")
                    except Exception:  # noqa: backend not available: purity_case reports that
                        pass
                conn.send(("hb", bid, k, _steps_of(mrep)))
                o = run_case(text, premod, want_eval, mrep)
                key = "real:" + o["real"]
                counters[key] = counters.get(key, 0) + 1
                if o.get("inmodel"):
                    counters["in-model"] = counters.get("in-model", 0) + 1
                if "eval" in o:
                    counters["eval:" + o["eval"]] = counters.get("eval:" + o["eval"], 0) + 1
                if o.get("st") and o.get("calls", 0) > 0:
                    r = o["calls"] / max(1, o["st"])
                    counters["maxratio"] = max(counters.get("maxratio", 0), r)
                    n = len(text) + 1
                    counters["maxsteps_over_n2"] = max(counters.get("maxsteps_over_n2", 0), o["st"] / (n * n))
                counters["maxwall"] = max(counters.get("maxwall", 0), o.get("wall", 0))
                if "transient" in o:
                    counters["transient:tried"] = counters.get("transient:tried", 0) + o["transient"][0]
                    counters["transient:address-reused"] = counters.get("transient:address-reused", 0) + o["transient"][1]
                if o["problems"] or o["mism"]:
                    anomalies.append(dict(text=text, premod=premod, problems=o["problems"], mism=o["mism"]))
                elif len(samples) < 1 and len(text) > 3:
                    samples.append(dict(text=text, premod=premod, real=o["real"], steps=o.get("st"), calls=o.get("calls")))
            conn.send(("done", bid, counters, anomalies, samples))
    except (EOFError, KeyboardInterrupt):
        pass
    finally:
        try:
            if _W.drv:
                _W.drv.close()
        except Exception:
            pass


class _Slot:
    def __init__(self, mpctx, use_driver):
        self.parent, child = mpctx.Pipe()
        self.proc = mpctx.Process(target=_worker_main, args=(child, use_driver), daemon=True)
        self.proc.start()
        child.close()
        self.job = None          # (kind, bid, batch)
        self.k = -1
        self.last = time.monotonic()
        self.limit = MODEL_WALL
        self.ready = False

    def kill(self):
        try:
            self.proc.kill()
            self.proc.join(5)
        except Exception:
            pass
        try:
            self.parent.close()
        except Exception:
            pass


class Supervisor:
    """runs batches on worker processes under a wall-clock watchdog (see SOFT_WALL / HARD_WALL).
    on_done(bid, counters, anomalies, samples) is called for every finished batch; `hangs` collects the
    confirmed (text, premod, detail) of texts whose parse does not return / is slow twice."""

    def __init__(self, use_driver, nproc):
        self.mpctx = mp.get_context("fork")
        self.use_driver = use_driver
        self.nproc = nproc
        self.slots = []
        self.front = []          # jobs to run before the stream: ('confirm'|'batch', bid, cases)
        self.hangs = []
        self.dismissed = 0
        self.stop_at = None
        self.next_bid = -1

    def _new_bid(self):
        self.next_bid -= 1
        return self.next_bid

    def _assign(self, slot, job):
        slot.job = job
        slot.k = -1
        slot.last = time.monotonic()
        slot.limit = MODEL_WALL
        slot.parent.send(("batch", job[1], job[2]))

    def _suspect(self, text, premod, detail):
        """a text that hung or was slow once: run it alone in a fresh worker"""
        if self.hangs and len(text) >= min(len(h[0]) for h in self.hangs):
            return                                  # a shorter witness is already confirmed
        self.front.insert(0, ("confirm", self._new_bid(), [(text, premod, False)], detail))

    def _confirmed(self, text, premod, detail):
        self.hangs.append((text, premod, detail))
        if self.stop_at is None:
            self.stop_at = time.monotonic() + GRACE_AFTER_HANG
            common.log(f"C12: hang confirmed on {text!r}; finishing the texts that are not longer")

    def run(self, stream, on_done):
        stream = iter(stream)
        exhausted = False
        self.slots = [_Slot(self.mpctx, self.use_driver) for _ in range(self.nproc)]
        try:
            while True:
                now = time.monotonic()
                stopping = self.stop_at is not None
                if stopping and now > self.stop_at:
                    break
                # hand out work
                for i, sl in enumerate(self.slots):
                    if sl.job is not None or not sl.ready:
                        continue
                    job = None
                    if self.front:
                        job = self.front.pop(0)
                    elif not exhausted and not stopping:
                        try:
                            bid, batch = next(stream)
                            job = ("batch", bid, batch)
                        except StopIteration:
                            exhausted = True
                    if job is not None:
                        self._assign(sl, job)
                busy = [sl for sl in self.slots if sl.job is not None or not sl.ready]
                if not any(sl.job is not None for sl in self.slots) and not self.front and (exhausted or stopping):
                    break
                for conn in mp_wait([sl.parent for sl in busy], timeout=0.25):
                    sl = next(x for x in self.slots if x.parent is conn)
                    try:
                        msg = conn.recv()
                    except (EOFError, OSError):
                        self._lost(sl, "worker process died")
                        continue
                    if msg[0] == "ready":
                        sl.ready = True
                        sl.last = time.monotonic()
                    elif msg[0] == "hb":
                        sl.k = msg[2]
                        sl.last = time.monotonic()
                        sl.limit = MODEL_WALL if msg[2] < 0 else HARD_WALL + HARD_PER_STEP * msg[3]
                        if sl.job[0] == "confirm":
                            sl.limit *= 2
                    elif msg[0] == "done":
                        job, sl.job = sl.job, None
                        _, bid, counters, anomalies, samples = msg
                        if job[0] == "confirm":
                            text, premod, _ = job[2][0]
                            slow = [d for a in anomalies for k, d in a["problems"] if k in ("slow", "hang")]
                            if slow:
                                self._confirmed(text, premod, job[3] + "; again in a fresh process: " + slow[0])
                            else:
                                self.dismissed += 1
                        else:
                            for a in anomalies:
                                for k, d in a["problems"]:
                                    if k == "slow":
                                        self._suspect(a["text"], a["premod"], d)
                                a["problems"] = [(k, d) for k, d in a["problems"] if k != "slow"]
                            on_done(bid, counters, [a for a in anomalies if a["problems"] or a["mism"]], samples)
                now = time.monotonic()
                for i, sl in enumerate(self.slots):
                    if (sl.job is not None or not sl.ready) and now - sl.last > sl.limit:
                        self._lost(sl, f"no progress for {now - sl.last:.0f} s of wall clock")
        finally:
            for sl in self.slots:
                try:
                    if sl.job is None and sl.ready:
                        sl.parent.send(("stop",))
                except Exception:
                    pass
            time.sleep(0.05)
            for sl in self.slots:
                sl.kill()
        return self.hangs

    def _lost(self, sl, why):
        """a worker is silent or dead: kill it, replace it, decide what the text it was on means"""
        job, k = sl.job, sl.k
        idx = self.slots.index(sl)
        sl.kill()
        self.slots[idx] = _Slot(self.mpctx, self.use_driver)
        if job is None:
            raise Infra(f"C12 worker could not start: {why}")
        if k < 0:
            raise Infra(f"C12 worker stuck before the first text of a batch (model calls): {why}")
        text, premod, _ = job[2][k]
        if job[0] == "confirm":
            self._confirmed(text, premod, job[3] + f"; again in a fresh process: {why}, process killed")
            return
        self._suspect(text, premod, f"{why} while parsing {len(text)} characters (process killed)")
        rest = job[2][:k] + job[2][k + 1:]
        if rest and self.stop_at is None:
            self.front.append(("batch", job[1], rest))


# --------------------------------------------------------------------------- generators

TOK = re.compile(r'"(?:[^"]|"")*"?|0c.|:[A-Za-z.][A-Za-z0-9.]*|[A-Za-z.][A-Za-z0-9.]*|\d+(?:\.\d+)?(?:e[+-]?\d+)?|\s+|:[^\s\w]|.', re.S)
INSERT_POOL = ['(', ')', '[', ']', '{', '}', ';', ':', '"', "'", '+', '-', '1', 'x', 'f', '.', ':[', ':|', ':{',
               '0c', '/', '\\', ':"', ',', ' ', '::', 'e', '1.5', '.comment("x")', '.module(:m)', '[;', ':(',
               '\u00e9', '\u03bbx', '\u00b2', '\u540d', '\u00bd', 'e\u0301', '\U0001d465', '\u00a0', '[\u00e9']


def corpus_lines():
    files = sorted(glob.glob(str(common.REPO / "**" / "*.kg"), recursive=True))
    seen = set()
    out = []
    for f in files:
        try:
            txt = open(f, encoding="utf-8").read()
        except Exception:
            continue
        for l in txt.split("\n"):
            if l.strip() and l not in seen:
                seen.add(l)
                out.append(l)
    return out, len(files)


def tokens(line):
    return TOK.findall(line)


def single_edits(toks, rng, all_inserts=False):
    """token-level single edits: (kind, text)"""
    idx = [i for i, t in enumerate(toks) if not t.isspace()]
    for i in idx:
        yield "delete", "".join(toks[:i] + toks[i + 1:])
        yield "truncate", "".join(toks[:i])
        ins = INSERT_POOL if all_inserts else [rng.choice(INSERT_POOL)]
        for tk in ins:
            yield "insert", "".join(toks[:i] + [tk] + toks[i:])
    for a, b in zip(idx, idx[1:]):
        t2 = list(toks)
        t2[a], t2[b] = t2[b], t2[a]
        yield "swap", "".join(t2)
    yield "insert", "".join(toks) + rng.choice(INSERT_POOL)


def random_edit(toks, rng):
    idx = [i for i, t in enumerate(toks) if not t.isspace()]
    if not idx:
        return toks
    i = rng.choice(idx)
    r = rng.random()
    if r < 0.3:
        return toks[:i] + toks[i + 1:]
    if r < 0.6:
        return toks[:i] + [rng.choice(INSERT_POOL)] + toks[i:]
    if r < 0.8 and len(idx) > 1:
        j = rng.choice(idx)
        t2 = list(toks)
        t2[i], t2[j] = t2[j], t2[i]
        return t2
    return toks[:i]


def long_strings(sizes=(25, 80)):
    out = []
    for n in sizes:
        out += [
            "(" * n + "1" + ")" * n, "(" * n, "{" * n + "x" + "}" * n, "{" * n, "[" * n + "]" * n, "[" * n,
            ":[" * n, ":[1;2;" * n + "3" + "]" * n, ":[1;2:|" * n + "1;2;3]",
            "+" * n + "1", "1+" * n + "1", "x-" * n, "-" * n, "x+" * (n // 2) + "x [" + "1 " * n + "]",
            "a:" * n + "1", '"' + "a" * n, '"' + '""' * n, ':"' + "a" * n, (':"a" ' * n) + "1",
            '.comment("end")' + "x" * n, '.comment("end")' + "x" * n + "end 1", '.comment("aa")' + "a" * n,
            "f(" * n + ")" * n, "f(" * n, "f(" + ";" * n + ")", "f(" + "1;" * n + ")", "f(1)" * n,
            "1" + "'" * n, "+/" * n + "1", "+" + "/'" * n + "[1 2]", "1" * n, "1." * n, "1e" * n, "1e-" * n,
            "a" * n, "." * n, ":a" * n, ":" * n, "0c" * n, "0c", ";" * n, "\n" * n, " " * n, " " * n + "1",
            "[;" * n, "[;1;2" * n + "]" * n, ":{" * n, ":{[1 2]" + "[1 2]" * n + "}", "[" + '"a" ' * n + "]",
            "{x}(" * n, "{x}:(" * n + "1" + ")" * n, "x::" * n + "1", "{[a b];a::x;" * n,
            ".module(:m);" + "a+" * n + "a", ".module(:m)\n" * n, "1 " * n, "a b " * n, "+ " * n, "@'" * n,
            "f(g(" * n + "1" + "))" * n, "f(1 [" + "1 " * n + "])",
        ]
    return out


OPENERS = [':"', '"', '0c', '[', '{', '(', ':[', ':{', '[;', 'f(', '.comment("', ':', '1e', '1.', '-', ':|', "+/", "a::"]


DIRECTIVE_ARGS = ['"END"', 'stop', ':stop', 'foo "END"', ':foo "END"', 'foo"END"', 'm::"END"', 'x1::"END"', 'stop::stop',
                  '"EN","D"', '3:^"*"', 'f("END")', '{x}("END")', '{m::x}("END")', '[stop]', 'stop;"END"', ';stop',
                  '"END";stop', '0cE', 'x', 'q', ':q.r', '.e', 'a+b', '-stop', 'stop+1', ':[1;"END";stop]', '[;stop]',
                  '', '1', '""']
DIRECTIVE_BODIES = ['', '\nignored\nEND\n1+1', '\nignored\nstop\n1+1', ' never closed', '\nfoo END stop q 1+1', ';a::1']


def directive_strings(lines):
    """parse-time directives (.comment / .module) whose argument is not a plain string literal: a bare
    or quoted symbol, a symbol token in front of the string, an assignment, an expression -- with the
    marker present in the rest of the text and absent from it (the text is then rejected) -- plus every
    single pool edit of every corpus line that contains a directive"""
    out = []
    for d in (".comment", ".module"):
        for a in DIRECTIVE_ARGS:
            for b in DIRECTIVE_BODIES:
                out.append(f"{d}({a}){b}")
    out += ["x1::10;.comment(x1::\"END\")\nEND\nx1", "f::{x};.comment(f(\"END\"))\nEND", "g(.comment(stop))stop"]
    pool = INSERT_POOL + ["foo", ":foo", "stop", "m::", "foo::", "q "]
    for l in lines:
        if ".comment" in l or ".module" in l:
            toks = tokens(l)
            idx = [i for i, t in enumerate(toks) if not t.isspace()]
            for i in idx + [len(toks)]:
                for tk in pool:
                    out.append("".join(toks[:i] + [tk] + toks[i:]))
    return out


def unterminated_strings():
    """constructs whose closing delimiter is missing, 16 to 44 characters long (the lexer accepts an
    unterminated string / comment / list silently): plain runs, words and blanks, doubled quotes inside,
    inside calls, lists, functions and directives"""
    out = []
    words = "three four five six seven eight nine ten eleven twelve"
    for n in range(16, 45):
        body = ("a" * n)
        w = words[:n]
        out += ['"' + body, '"' + w, 't("' + w, '.p("' + w, '[1 2 "' + w + "]", 'a::"' + w, '{x,"' + w + "}",
                '"' + w[:n // 2] + '""' + w[n // 2:], '"ab" "' + w, 'f("a";"' + w + ")", ':"' + w, '[' + "1 " * (n // 2),
                '{' + "x;" * (n // 2), 'f(' + "1;" * (n // 2), '.comment("' + w, ':{["' + w + "]}", '0c""' + w, "1+\"" + w + "\n2"]
    return out


def opener_strings():
    """every construct opener followed by every character (alone, doubled, after a blank, before a quote)"""
    out = []
    for o in OPENERS:
        for a in ALPHABET:
            out += [o + a, o + a + a, o + " " + a, o + a + '"', o + a + ")", "x" + o + a]
    return out


def sibling_seeds():
    """texts whose last lexeme runs to the end of the input, so that a blank behind them is significant"""
    tails = ["0c", "0c ", "0c\n", "0c\t", "\"ab", "\"ab ", "\"", "\" ", ":\"c", ":\"c ", ":", ".", "a:", "a.", "1.", "1e", "a::", "-"]
    heads = ["", "a::", "s::", "f(", "[", "[1 ", "{x,", "1+", ".p(", "a;", "t(\"x\";"]
    return [h + t for h in heads for t in tails]


def unicode_strings():
    """every non-ASCII character class in every syntactic position"""
    out = []
    for u in UNICODE:
        for h in UNI_HOLES:
            out.append(h.replace("_", u))
        out += [u + v for v in UNICODE] + [u + c for c in ALPHABET] + [c + u for c in ALPHABET]
        out += ["[" + c + u for c in ALPHABET] + ["[" + u + c for c in ALPHABET]
    return out


def exhaustive(maxlen):
    out = [""]
    layer = [""]
    for _ in range(maxlen):
        layer = [s + c for s in layer for c in ALPHABET]
        out += layer
    return out


# --------------------------------------------------------------------------- static obligations

PARSE_PATH = {
    "parser.py": {"cmatch", "cmatch2", "cpeek", "cpeek2", "cexpect", "cexpect2", "read_shifted_comment",
                  "read_sys_comment", "skip_space", "skip", "read_num", "read_char", "read_sym", "read_op",
                  "read_string", "list_to_dict", "read_list", "kg_read", "kg_read_array", "read_cond",
                  "peek_adverb", "read_expr_array"},
    "interpreter.py": PARSER_FUNCS | {"current_module", "_is_monad", "_is_dyad"},
}


def loop_inventory():
    """translator part: the functions on the parse path (prog and everything it calls inside
    parser.py / interpreter.py) contain exactly the loops the model has, and call no function of
    their module that the model does not have.  A new loop or helper on the parse path is a new
    termination obligation."""
    found = {}
    problems = []
    for fname, expected in EXPECTED_LOOPS.items():
        tree = pyast.parse((common.REPO / "klongpy" / fname).read_text())
        defined = set()
        for node in pyast.walk(tree):
            if isinstance(node, pyast.FunctionDef):
                defined.add(node.name)
        got = {}
        for node in pyast.walk(tree):
            if isinstance(node, pyast.FunctionDef) and node.name in PARSE_PATH[fname]:
                n = sum(1 for x in pyast.walk(node) if isinstance(x, (pyast.While, pyast.For, pyast.ListComp,
                                                                       pyast.DictComp, pyast.GeneratorExp, pyast.SetComp)))
                if n:
                    got[node.name] = n
                for x in pyast.walk(node):
                    if isinstance(x, pyast.Call):
                        f = x.func
                        name = f.id if isinstance(f, pyast.Name) else (f.attr if isinstance(f, pyast.Attribute) else None)
                        owner_ok = isinstance(f, pyast.Name) or (isinstance(f.value, pyast.Name) and f.value.id in ("self", "klong"))
                        if name in defined and owner_ok and name not in PARSE_PATH[fname] and name not in ("__init__",):
                            problems.append(f"{fname}:{node.name} calls {name}")
        found[fname] = got
    exp = {"parser.py": dict(EXPECTED_LOOPS["parser.py"], list_to_dict=1), "interpreter.py": EXPECTED_LOOPS["interpreter.py"]}
    if found != exp:
        problems.append(f"loops {found} != {exp}")
    return not problems, problems or found


# --------------------------------------------------------------------------- entry

def _cases(ctx):
    """generator of (group, text, premod, want_eval); deduplicated on (text, premod)"""
    quick = ctx.tier == "quick"
    rng = ctx.rng
    seen = ctx._distinct = set()      # 64-bit digests of (text, premod)

    def fresh(text, premod):
        h = hash((text, premod))
        if h in seen:
            return False
        seen.add(h)
        return True

    cdir = common.CORPUS / "C12"
    if cdir.exists():
        for p in sorted(cdir.glob("*.json")):
            c = json.loads(p.read_text())
            for item in c.get("cases", []):
                if fresh(item["text"], item.get("premod")):
                    yield ("corpus", item["text"], item.get("premod"), False)
    for s in long_strings((25, 80) if quick else (25, 80, 120)):
        if fresh(s, None):
            yield ("long", s, None, False)
    for s in exhaustive(2 if quick else 3):
        if fresh(s, None):
            yield ("exhaustive", s, None, True)
    for s in opener_strings():
        if fresh(s, None):
            yield ("opener", s, None, True)
    for s in unterminated_strings():
        if fresh(s, None):
            yield ("unterminated", s, None, False)
    for s in purity_scenarios():
        yield ("purity", s, PURITY, False)
    for s in sibling_seeds():
        if fresh(s, None):
            yield ("sibling", s, None, 2)       # 2 = evaluate-safe check off, call-history check forced
        if fresh(s, "m"):
            yield ("sibling", s, "m", 2)
    for s in unicode_strings():
        if fresh(s, None):
            yield ("unicode", s, None, True)
        if len(s) <= 4 and fresh(s, "m"):
            yield ("unicode", s, "m", False)
    lines, nfiles = corpus_lines()
    for s in directive_strings(lines):
        if fresh(s, None):
            yield ("directive", s, None, False)
    # the short strings again inside a module (symbols get qualified)
    ex2 = exhaustive(2)
    for s in (rng.sample(ex2, 300) if quick else ex2):
        if fresh(s, "m"):
            yield ("exhaustive-in-module", s, "m", True)
    ctx.extra["corpus_files"] = nfiles
    ctx.extra["corpus_unique_lines"] = len(lines)
    if quick:
        for l in rng.sample(lines, min(400, len(lines))):
            if fresh(l, None):
                yield ("line", l, None, True)
        for _ in range(5000):
            toks = tokens(rng.choice(lines))
            kind, txt = rng.choice(list(single_edits(toks, rng)))
            pm = "m" if rng.random() < 0.1 else None
            if fresh(txt, pm):
                yield ("edit1:" + kind, txt, pm, rng.random() < 0.5)
        for _ in range(600):
            toks = tokens(rng.choice(lines))
            txt = "".join(random_edit(random_edit(toks, rng), rng))
            if fresh(txt, None):
                yield ("edit2", txt, None, rng.random() < 0.5)
    else:
        yield ("@bulk", "", None, False)
        full = set(rng.sample(range(len(lines)), min(500, len(lines))))
        for li, l in enumerate(lines):
            if fresh(l, None):
                yield ("line", l, None, True)
            toks = tokens(l)
            for kind, txt in single_edits(toks, rng, all_inserts=li in full):
                if fresh(txt, None):
                    yield ("edit1:" + kind, txt, None, rng.random() < 0.1)
        for _ in range(100_000):
            toks = tokens(rng.choice(lines))
            txt = "".join(random_edit(random_edit(toks, rng), rng))
            pm = "m" if rng.random() < 0.05 else None
            if fresh(txt, pm):
                yield ("edit2", txt, pm, rng.random() < 0.1)


def _report(ctx, group, a):
    case = dict(kind="parse", text=a["text"], premod=a["premod"], group=group)
    for key, detail in a["problems"]:
        what = {
            "hang": "the parser does not return within the call budget derived from the model's step count",
            "variables": "parsing changed a variable",
            "module": "parsing changed the module without .module(...)",
            "repeat": "parsing the same text again in the same module gives a different program",
            "history": "a fresh interpreter in the same module parses the text differently",
            "eval": "the re-parsed program evaluates differently",
            "module-object-address": "two parses differ only in a memory address inside a module-qualified symbol name",
            "setup": "setting the module through .module(...) failed",
            "slow": "the parse takes seconds of wall clock although the call count is small",
            "literal-mutated": "evaluating a parsed program changed a literal stored in it: the program is no longer the parse of its text",
            "reevaluation": "the second evaluation of the same parsed program differs from what a fresh interpreter computes",
            "call-history": "after a text differing only in blank space was evaluated, __call__ runs another program for this text than the text parses to",
            "address-reuse": "the same text as a new string object (on the address of a text parsed and dropped before) parses differently",
        }.get(key, key)
        ctx.oracle_fail("parse:" + key, case, "property holds", detail[:600], what)
    if a["mism"]:
        where, model, impl = a["mism"]
        ctx.bump("mismatch:" + where)
        if ctx.hist["mismatch:" + where] <= 4:
            common.log(f"C12 mismatch on {a['text']!r} (module {a['premod']}): model {model} / real {impl}"[:1200])
        ctx.mismatch("Klong.C12.parse vs KlongInterpreter.prog (" + where + ")", case, model, impl)


def _report_hangs(ctx, hangs):
    """smallest text first: it becomes the replay"""
    for text, premod, detail in sorted(hangs, key=lambda h: (len(h[0]), h[0])):
        common.log(f"C12: parse does not return in bounded time on {text!r}: {detail}"[:600])
        ctx.oracle_fail("parse:hang", dict(kind="parse", text=text, premod=premod, group="watchdog"),
                        "prog(text) returns after work bounded by a polynomial in len(text)", detail[:600],
                        "the parser does not return within the wall-clock supervisor's limit, twice, the second time "
                        "alone in a fresh process (work invisible to the call count, e.g. inside a C extension)")


def run(ctx):
    quick = ctx.tier == "quick"
    use_driver = bool(getattr(ctx, "driver_ok", True))
    ctx.rule = ("every string over a 38-character token alphabet up to length 2 (quick) / 3 (thorough); the short strings "
                "again inside a module; token-level edits (delete, insert, swap, truncate) of the unique lines of every "
                ".kg file of the repository: a seeded sample of single and double edits (quick) / every delete, truncate, "
                "swap and one seeded insert per position, every pool insert for 500 lines, 100k double edits (thorough); "
                "every construct opener followed by every character; 11 non-ASCII characters (one per Python character class) in 50 syntactic positions, next to every alphabet character and in the insert pool; constructs without their closing delimiter, 16-44 characters; parse-time directives (.comment/.module) with 31 kinds "
                "of non-literal argument x 6 continuations and every pool insert into every corpus line holding a directive; a fixed set of long generated strings. distinct = distinct (text, module); non-trivial = length >= 2")
    ctx.assumptions += [
        "Python's recursion limit is not modelled: RecursionError counts as an error after bounded work and is excluded from the model comparison",
        "character classes of the model are ASCII; texts containing a non-ASCII letter/digit/space are checked by the oracles only",
        "numpy's kg_asarray is total on lexer lists (trusted)",
    ]
    # static obligations
    ok, found = loop_inventory()
    ctx.obligation("loop-inventory (parser.py / parser half of interpreter.py contain exactly the modelled loops)", ok, json.dumps(found))
    if use_driver:
        d = Driver("c12")
        try:
            rep = d.ask("monads")
        finally:
            d.close()
        from klongpy import KlongInterpreter
        real = sorted(enc(k) for k in KlongInterpreter()._vm.keys())
        ctx.obligation("monad-table (Klong.C12.monadNames = keys of KlongInterpreter._vm)",
                       sorted(rep.split(" ", 1)[1].split(",")) == real, f"{rep} vs {real}")
    groups = {}
    total = [0]

    def chunks(items, bsz):
        """batches of at most bsz texts and bounded total quadratic weight"""
        cur, wgt = [], 0
        for g, t, p, e in items:
            total[0] += 1
            ctx.bump("group:" + g.split(":")[0])
            cur.append((g, t, p, e))
            wgt += 0 if p == PURITY else (len(t) + 1) ** 2
            if len(cur) >= bsz or wgt > 3_000_000:
                yield cur
                cur, wgt = [], 0
        if cur:
            yield cur

    def stream():
        """the small families first, shortest texts first (the smallest failing text becomes the replay);
        then the bulk of the corpus edits (thorough) as it is generated"""
        gen = _cases(ctx)
        small = []
        for c in gen:
            if c[0] == "@bulk":
                break
            small.append(c)
        # torch warms up for seconds of CPU in every process that touches it: its scenarios go to two workers only
        torchy = [c for c in small if c[2] == PURITY and '"backend": "torch"' in c[1]]
        small = [c for c in small if not (c[2] == PURITY and '"backend": "torch"' in c[1])]
        small.sort(key=lambda c: (len(c[1]), c[1], c[2] or ""))
        bid = 0
        for part, bsz in ((torchy, (len(torchy) + 1) // 2 or 1), (small, 100), (gen, 2000)):
            for cur in chunks(part, bsz):
                groups[bid] = {(t, p): g for g, t, p, e in cur}
                yield bid, [(t, p, e) for g, t, p, e in cur]
                bid += 1

    done = [0]

    def on_done(bid, counters, anomalies, samples):
        done[0] += 1
        if done[0] % 100 == 0:
            common.log(f"C12: {done[0]} batches, {total[0]} cases generated, {len(ctx.mismatches)} mismatches, "
                       f"{len(ctx.oracle_failures)} oracle failures")
        for k, v in counters.items():
            if k.startswith("max"):
                ctx.extra[k] = round(max(ctx.extra.get(k, 0), v), 3)
            else:
                ctx.bump(k, v)
        grp = groups.pop(bid, {})
        for a in anomalies:
            _report(ctx, grp.get((a["text"], a["premod"]), "?"), a)
        for s in samples:
            ctx.sample(s, limit=8)

    nproc = min(16, os.cpu_count() or 1)
    sup = Supervisor(use_driver, nproc)
    hangs = sup.run(stream(), on_done)
    _report_hangs(ctx, hangs)
    ctx.extra["slow_texts_dismissed_on_rerun"] = sup.dismissed
    ctx.extra["stopped_early_after_hang"] = bool(hangs)
    ctx.evaluations = total[0]
    ctx.extra["cases"] = total[0]
    cases = range(total[0])
    ctx.extra["search_only"] = ["a text that does not contain `.module` leaves the parse-time module unchanged "
                                "(theorem parse_module_effect proves: the state changes only by parse_module steps)",
                                "result independent of the amount of fuel above the bound (not stated as a theorem)"]
    inm = ctx.hist.get("in-model", 0)
    ctx.extra["in_model_fraction"] = round(inm / max(1, len(cases)), 4)
    ctx.extra["budget"] = f"{K_CALLS} * steps_model + {K0_CALLS} profile events (cap {CAP_CALLS})"


def replay(ctx, case):
    c = case.get("case", case)
    text, premod = c["text"], c.get("premod")
    use_driver = bool(getattr(ctx, "driver_ok", True))
    got = []
    global REUSE_TRIES
    REUSE_TRIES = 20000      # a lone case in a fresh process: insist on the address reuse
    sup = Supervisor(use_driver, 1)
    hangs = sup.run(iter([(0, [(text, premod, True)])]), lambda bid, counters, anomalies, samples: got.append((counters, anomalies)))
    ctx.count((text, premod))
    _report_hangs(ctx, hangs)
    for counters, anomalies in got:
        for a in anomalies:
            _report(ctx, c.get("group", "replay"), a)
    print("replay:", json.dumps(dict(text=text, premod=premod, hangs=hangs, results=got), default=str)[:2000])
