"""C07 — gradient and Jacobian computation is observationally pure.

Real side: every gradient form (f:>p, p∇f, p∂f / .jacobian(f;p), g:>[w b], [w b]∂g) is run on the
real interpreter (numpy backend and torch/cpu backend) with an instrumented function whose k-th
evaluation follows a *script* (scalar / non-scalar / plain number / raise / unknown name).
Oracle (needs no model): canonical snapshot (value + kind, by value) of ALL globals of every
context level before vs. after the gradient expression, identity of the bound objects, and a
neutral evaluation of the function before vs. after (result and the arguments it sees).
Correspondence: the Lean machine `Klong.C07.runForm` is driven with the same initial store/heap
and the same script; outcome, number of evaluations, what every evaluation saw (argument and
all watched globals, value + kind), and the final store/heap are compared.
Values cross the wire as integers in units of the probe step (1e-6).
"""
import json

from . import common
from .common import Driver, fields

CLAIM = dict(
    text="Lean 4 theorems over a store/heap machine (Name -> Ref, Ref -> tagged array) running the five gradient "
         "forms of klongpy on both backends against an arbitrary script for the differentiated function: for every "
         "form, script, backend and initial state the store (value and kind of every pre-existing variable) and every "
         "pre-existing heap cell are unchanged on return and on every failure path, new names are only self-bound "
         "symbols, and a following evaluation sees the same arguments; the un-repaired loop (np.asarray aliasing a "
         "float64 parameter) is refuted by a decide-checked witness. Model tied to klongpy.autograd / dyads by "
         "per-evaluation correspondence (argument + all globals seen by every probe, outcome, final state).",
    note="trusted: Lean kernel (axioms propext/Classical.choice/Quot.sound), correspondence harness, CPython, numpy "
         "(asarray/copy/flatten aliasing rules are modelled), PyTorch autograd (requires_grad observed, engine not "
         "modelled); the differentiated function has no side effects of its own other than the script's",
    technique="Lean 4 frame-invariant proof over an executable model, differential correspondence, decide-checked "
              "counterexample for the pinned loop",
    design="7/C07")

MODULES = ["Klong.Props.C07"]
THEOREMS = [
    "Klong.C07.restore_on_all_paths",
    "Klong.C07.grad_pure",
    "Klong.C07.grad_pure_sequence",
    "Klong.C07.grad_pure_values",
    "Klong.C07.next_evaluation_sees_same",
    "Klong.C07.pinned_not_pure",
    "Klong.C07.pinned_pure_on_success_partial",
]

UNIT = 1e-6
UNK = "c07nosuch"          # the unknown name a scripted evaluation refers to
UNKFN = "c07nofn"          # unknown function operand
UNKP = "c07nop"            # unknown parameter operand
TMP = "c07tmp"             # undeclared intermediate of a Klong-source body (implicit function-local)

FORMS = ["grad", "nabla", "jac", "sysjac", "mgrad", "mjac"]
MONADIC = {"grad", "nabla", "jac", "sysjac"}


def have_torch():
    try:
        import torch  # noqa
        return True
    except Exception:
        return False


# --------------------------------------------------------------------------- canonical form

def q(v):
    return int(round(float(v) / UNIT))


def cell(v):
    """kind/shape/data of a numeric value, None for anything else"""
    import numpy as np
    tname = type(v).__module__ + "." + type(v).__name__
    if tname == "torch.Tensor":
        kind = {"torch.float32": "t32", "torch.float64": "t64", "torch.int64": "ti64"}.get(str(v.dtype), str(v.dtype))
        if v.requires_grad:
            kind += "g"
        arr = v.detach().cpu().numpy()
    elif isinstance(v, np.ndarray):
        kind = {"float64": "f64", "int64": "i64"}.get(str(v.dtype), "np-" + str(v.dtype))
        arr = v
    elif isinstance(v, bool):
        return None
    elif isinstance(v, float):
        return f"pyfloat//{q(v)}"
    elif isinstance(v, int):
        return f"pyint//{q(v)}"
    elif isinstance(v, np.generic) and v.dtype.kind in "fiu":
        return f"npscalar-{v.dtype}//{q(v)}"
    else:
        return None
    if arr.dtype.kind not in "fiu":
        return None
    shape = "x".join(str(d) for d in arr.shape)
    data = ";".join(str(q(x)) for x in arr.reshape(-1).tolist())
    return f"{kind}/{shape}/{data}"


def view(v):
    from klongpy.core import KGSym
    c = cell(v)
    if c is not None:
        return c
    if isinstance(v, KGSym):
        return "~" + str(v)
    return f"obj:{type(v).__name__}"


def make_value(kind, shape, data):
    """build the Python object of a heap cell"""
    import numpy as np
    vals = [d * UNIT for d in data]
    if kind == "pyfloat":
        return float(vals[0])
    if kind == "pyint":
        return int(round(vals[0]))
    if kind == "f64":
        return np.array(vals, dtype=np.float64).reshape(shape)
    if kind == "i64":
        return np.array([int(round(x)) for x in vals], dtype=np.int64).reshape(shape)
    import torch
    if kind == "t32":
        return torch.tensor(vals, dtype=torch.float32).reshape(shape)
    if kind == "t64":
        return torch.tensor(vals, dtype=torch.float64).reshape(shape)
    if kind == "ti64":
        return torch.tensor([int(round(x)) for x in vals], dtype=torch.int64).reshape(shape)
    raise ValueError(kind)


SCRIPTED = "c07-scripted"


class Boom(Exception):
    pass


class C07Base(BaseException):
    """a BaseException that is not an Exception (like KeyboardInterrupt / SystemExit)"""


# script codes of evaluations ended by a BaseException that is NOT an Exception: `finally` must
# still restore, `except Exception` fallbacks are not taken.  All are `interrupt` ("i") in the model.
INTERRUPTS = {"k": KeyboardInterrupt, "x": SystemExit, "e": GeneratorExit, "B": C07Base}


def scripted_exc(code, k):
    cls = Boom if code == "r" else INTERRUPTS[code]
    return cls(SCRIPTED, f"scripted failure at evaluation {k + 1}")


def is_scripted(e):
    return bool(getattr(e, "args", None)) and e.args[0] == SCRIPTED


# --------------------------------------------------------------------------- the real run

def expr_of(case):
    form, ps = case["form"], case["params"]
    fn = UNKFN if case.get("fn_unknown") else ("f" if form in MONADIC else "g")
    if form == "grad":
        return f"{fn}:>{ps[0]}"
    if form == "nabla":
        return f"{ps[0]}∇{fn}"
    if form == "jac":
        return f"{ps[0]}∂{fn}"
    if form == "sysjac":
        return f".jacobian({fn};{ps[0]})"
    if form == "mgrad":
        return f"{fn}:>[{' '.join(ps)}]"
    if form == "mjac":
        return f"[{' '.join(ps)}]∂{fn}"
    raise ValueError(form)


def run_real(case):
    """Run one case on the real interpreter.  Returns dict(outcome, calls, log, final, problems)
    where problems is a list of (key, expected, observed, what) — the property oracle."""
    import numpy as np
    from klongpy import KlongInterpreter
    from klongpy.core import KGSym
    torch = None
    if case["backend"] == "torch":
        import torch
        klong = KlongInterpreter(backend="torch", device="cpu")
    else:
        klong = KlongInterpreter()
    form = case["form"]
    names = [n for n, _ in case["store"]]
    objs = [make_value(*c) for c in case["heap"]]
    for n, r in case["store"]:
        klong[n] = KGSym(r[1:]) if isinstance(r, str) else objs[r]
    watch = list(names)
    script = list(case["script"])
    state = dict(mode="neutral", k=0, log=[], cur="s")

    def observe(x):
        ent = [cell(x) if form in MONADIC else "-"]
        if ent[0] is None:
            ent[0] = view(x)
        for n in watch:
            try:
                ent.append(view(klong._context[KGSym(n)]))
            except KeyError:
                ent.append("?")
        return "+".join(ent)

    def tick(x):
        if state["mode"] == "neutral":
            state["cur"] = "s"
            state["neutral_seen"] = observe(x)
            return 0
        k = state["k"]
        state["k"] = k + 1
        state["log"].append(observe(x))
        oc = script[k] if k < len(script) else "s"
        state["cur"] = oc
        if oc == "r" or oc in INTERRUPTS:
            raise scripted_exc(oc, k)
        return 1 if oc == "u" else 0

    def sq(v):
        if hasattr(v, "sum"):
            return (v * v).sum()
        return v * v

    def ret(x):
        if form in MONADIC:
            parts = [sq(x)]
        else:
            vals = [klong._context[KGSym(n)] for n in case["params"]]
            parts = [sq(v) for v in vals if cell(v) is not None] or [0.0]
        if torch is not None and any(isinstance(p, torch.Tensor) for p in parts):
            parts = [p if isinstance(p, torch.Tensor) else torch.as_tensor(float(p), dtype=torch.float32) for p in parts]
            total = parts[0]
            for p in parts[1:]:
                total = total + p.to(total.dtype)
            if state["cur"] == "v":
                return torch.stack([total, total])
            if state["cur"] == "p":
                return float(total.detach())
            return total
        total = float(sum(float(p) for p in parts))
        if state["cur"] == "v":
            return np.array([total, total])
        if state["cur"] == "p":
            return total
        return np.float64(total)

    klong["tick"] = tick
    klong["ret"] = ret
    if case.get("body") == "tmp":
        # Klong-source body that keeps an intermediate in an undeclared (hence function-local) name
        klong(f"f::{{{TMP}::tick(x);:[{TMP};x*{UNK};ret(x)]}}")
        klong(f"g::{{{TMP}::tick(0);:[{TMP};0*{UNK};ret(0)]}}")
    else:
        klong(f"f::{{:[tick(x);x*{UNK};ret(x)]}}")
        klong(f"g::{{:[tick(0);0*{UNK};ret(0)]}}")

    def neutral():
        state["mode"] = "neutral"
        state["neutral_seen"] = None
        try:
            if form in MONADIC:
                r = klong(f"f({case['params'][0]})")
            else:
                r = klong("g()")
            r = view(r)
        except Exception as e:  # e.g. unknown parameter: the plain evaluation fails too
            r = f"raises:{type(e).__name__}"
        return r, state["neutral_seen"]

    def snapshot():
        snap = {}
        for lvl, d in enumerate(klong._context._context):
            for k_, v in d.items():
                snap[(lvl, str(k_))] = (view(v), id(v), v)
        return snap

    problems = []
    param_ok = all(p in names for p in case["params"])
    before_eval = neutral() if param_ok else None
    depth0 = len(klong._context._context)
    s0 = snapshot()
    s0_vals = {k_: v[0] for k_, v in s0.items()}        # by value, taken BEFORE (strings)
    state["mode"] = "script"
    expr = expr_of(case)
    try:
        klong(expr)
        outcome = "ok"
    except BaseException as e:  # noqa
        if not isinstance(e, Exception) and not is_scripted(e):
            raise               # a genuine interrupt of the harness, not one of the scripted faults
        outcome = "exc"
    s1 = snapshot()
    depth1 = len(klong._context._context)
    ftag = f"{case['backend']}:{form}"
    if depth1 != depth0:
        problems.append((f"c07:{ftag}:context-depth", depth0, depth1, "a context frame was leaked or dropped"))
    final = []
    ident = []
    for key in sorted(s0):
        lvl, nm = key
        if key not in s1:
            problems.append((f"c07:{ftag}:variable-removed", s0_vals[key], "unbound", f"variable {nm} disappeared"))
            continue
        after = s1[key][0]
        if after != s0_vals[key]:
            role = "param" if nm in case["params"] else ("alias" if nm in names else "other")
            what = "kind" if after.split("/")[0] != s0_vals[key].split("/")[0] else "value"
            problems.append((f"c07:{ftag}:{role}-{what}-changed", f"{nm}={s0_vals[key]}", f"{nm}={after}",
                             f"after `{expr}` ({outcome}) variable {nm} no longer has the value/kind it had before"))
        elif s1[key][1] != s0[key][1] and lvl == 0:
            ident.append(nm)
    for key in sorted(s1):
        if key not in s0:
            lvl, nm = key
            # new names count: the operands the top-level expression itself evaluates are bound
            # beforehand (see normalize), so nothing may appear during the differentiation
            problems.append((f"c07:{ftag}:new-variable", "unbound", f"{nm}={s1[key][0]}", f"`{expr}` created variable {nm}"))
    # final store in the model's terms: value and kind of every initial name
    for n in names:
        key = (0, n)
        final.append(f"{n}:{view(s1[key][2])}" if key in s1 else f"{n}:?")
    heap_after = [view(o) for o in objs]
    newsyms = sorted(nm for (lvl, nm) in s1 if (lvl, nm) not in s0)
    after_eval = neutral() if param_ok else None
    if before_eval != after_eval:
        problems.append((f"c07:{ftag}:f-after-differs", before_eval, after_eval,
                         f"evaluating the function after `{expr}` does not return / see what it did before"))
    return dict(outcome=outcome, calls=state["k"], log=state["log"], final=final, heap=heap_after,
                newsyms=newsyms, identity_changed=ident, problems=problems, expr=expr)


# --------------------------------------------------------------------------- the model run

def _cell_str(c):
    kind, shape, data = c
    return f"{kind}/{'x'.join(map(str, shape))}/{';'.join(map(str, data))}"


def model_line(case, variant, selfbind=False):
    script = ",".join(("u1" if selfbind else "u0") if o == "u" else "i" if o in INTERRUPTS else o
                      for o in case["script"])
    store = ",".join(f"{n}:{r}" for n, r in case["store"])
    heap = "|".join(_cell_str(c) for c in case["heap"])
    watch = ",".join(n for n, _ in case["store"])
    fn = UNKFN if case.get("fn_unknown") else ""
    form = case["form"]
    return (f"run be={case['backend']} variant={variant} form={form} params={','.join(case['params'])} "
            f"store={store} heap={heap} script={script} unk={UNK} watch={watch} fn={fn}")


def real_digest(r, case):
    """the real run in the reply format of the model"""
    news = [n for n in r["newsyms"]]
    return (f"out={r['outcome']} calls={r['calls']} log={'|'.join(r['log'])} "
            f"store={','.join(r['final'])} heap={'|'.join(r['heap'])} new={','.join(news)}")


# --------------------------------------------------------------------------- literal points

def run_literal(case):
    """`f:>[1.0 2.0 3.0]` / `[1.0 2.0 3.0]∇f`: the point is a literal of the (cached) program.
    Oracle only: after a failing evaluation, evaluating the SAME expression again must show the
    function the same arguments as in a fresh interpreter."""
    from klongpy import KlongInterpreter

    def fresh():
        if case["backend"] == "torch":
            return KlongInterpreter(backend="torch", device="cpu")
        return KlongInterpreter()

    lit = "[" + " ".join(repr(d * UNIT) for d in case["data"]) + "]"
    expr = f"f:>{lit}" if case["form"] == "grad" else f"{lit}∇f"

    def prepare(klong):
        st = dict(script=[], seen=[])

        def tick(x):
            st["seen"].append(view(x))
            k = len(st["seen"]) - 1
            oc = st["script"][k] if k < len(st["script"]) else "s"
            if oc == "r" or oc in INTERRUPTS:
                raise scripted_exc(oc, k)
            if oc == "v":
                return x * 1
            return (x * x).sum()
        klong["tick"] = tick
        klong("f::{tick(x)}")
        return st

    def attempt(klong, st, script):
        st["script"], st["seen"] = list(script), []
        try:
            klong(expr)
        except BaseException as e:  # noqa
            if not isinstance(e, Exception) and not is_scripted(e):
                raise
        return list(st["seen"])

    k1 = fresh()
    st1 = prepare(k1)
    attempt(k1, st1, case["script"])
    again = attempt(k1, st1, [])
    k2 = fresh()
    ref = attempt(k2, prepare(k2), [])
    problems = []
    if again != ref:
        problems.append((f"c07:{case['backend']}:{case['form']}-literal:literal-perturbed", ref[:2], again[:2],
                         f"after a failing `{expr}` the same expression probes a different point"))
    return dict(problems=problems, expr=expr)


# --------------------------------------------------------------------------- generators

M = 1000000
WITNESS = dict(kind="grad", backend="numpy", form="grad", params=["p"], store=[["p", 0]],
               heap=[["f64", [3], [1 * M, 2 * M, 3 * M]]], script=["s", "r"])


def kinds_for(be):
    if be == "torch":
        return ["t32", "ti64", "pyfloat", "pyint", "f64", "t64", "i64"]
    return ["f64", "i64", "pyfloat", "pyint"]


def rand_cell(rng, be, thorough, kind=None):
    kind = kind or rng.choice(kinds_for(be) + (["f64"] if be == "numpy" else ["t32", "t64"]))
    if kind in ("pyfloat", "pyint"):
        shape = []
    else:
        shapes = [[1], [2], [3]] + ([[4], [2, 2], [2, 3], [3, 1], [2, 2, 2], [5]] if thorough else [[2, 2]])
        shape = rng.choice(shapes)
    n = 1
    for d in shape:
        n *= d
    if kind in ("pyint", "i64", "ti64"):
        data = [rng.randrange(-3, 6) * M for _ in range(n)]
    else:
        data = [rng.randrange(-16, 17) * (M // 4) for _ in range(n)]
    return [kind, shape, data]


def n_probes(case):
    size = lambda c: max(1, len(c[2]))
    refs = dict((n, r) for n, r in case["store"])
    tot = 0
    for p in case["params"]:
        r = refs.get(p)
        tot += 2 * size(case["heap"][r]) + 2 if isinstance(r, int) else 1
    return tot + 1


def systematic_cases(backends, thorough):
    """every form x parameter kind x failure mode x failing evaluation k (single failure), with a
    bystander, an alias of the parameter and a second parameter"""
    for be in backends:
        cells = {
            "f64": ["f64", [3], [1 * M, 2 * M, 3 * M]], "i64": ["i64", [2], [1 * M, 2 * M]],
            "pyfloat": ["pyfloat", [], [M // 2]], "pyint": ["pyint", [], [3 * M]],
            "f64m": ["f64", [2, 2], [1 * M, 2 * M, 3 * M, 4 * M]],
        }
        if be == "torch":
            cells.update({"t32": ["t32", [2], [1 * M, 2 * M]], "t64": ["t64", [2], [1 * M, 2 * M]],
                          "ti64": ["ti64", [2], [1 * M, 2 * M]], "t32m": ["t32", [2, 2], [M, 2 * M, 3 * M, 4 * M]]})
        if thorough:
            cells["f64n"] = ["f64", [2, 2, 2], [k * M // 2 for k in range(1, 9)]]
            cells["f64big"] = ["f64", [6], [k * M for k in range(1, 7)]]
        for form in FORMS:
            multi = form in ("mgrad", "mjac")
            for pk, pc in cells.items():
                size = len(pc[2])
                for mode in "srvpukxeB":
                    for k in range(0, 2 * size + 3 + (2 if multi else 0)):
                        if mode == "s" and k > 0:
                            continue
                        if mode in "xeB" and k > 1:      # KeyboardInterrupt at every k, the other classes at k <= 1
                            continue
                        c = dict(kind="grad", backend=be, form=form, params=["w", "b"] if multi else ["w"],
                                 store=[["w", 0], ["b", 1], ["c", 2], ["a", 0]],
                                 heap=[pc, ["pyfloat", [], [M // 4]], ["f64", [2], [5 * M, 6 * M]]],
                                 script=["s"] * k + [mode])
                        yield c
                        if k <= 1 and mode in "sruk":
                            yield dict(c, body="tmp")


DEVIATIONS = "rrvvppuukkxeB"


def random_case(rng, backends, thorough):
    be = rng.choice(backends)
    form = rng.choice(FORMS)
    nheap = rng.randrange(1, 5)
    heap = [rand_cell(rng, be, thorough) for _ in range(nheap)]
    pool = ["w", "b", "c", "a", "m"]
    nnames = rng.randrange(1, len(pool) + 1)
    store = []
    for n in pool[:nnames]:
        if rng.random() < 0.06:
            store.append([n, "~" + rng.choice(["foo", n])])
        else:
            store.append([n, rng.randrange(nheap)])
    if rng.random() < 0.15:
        store.append([UNK, "~" + UNK])        # the unknown name has been referred to before
    names = [n for n, _ in store if n != UNK]
    if form in ("mgrad", "mjac"):
        params = [rng.choice(names) for _ in range(rng.randrange(1, 4))]
    else:
        params = [rng.choice(names)]
    case = dict(kind="grad", backend=be, form=form, params=params, store=store, heap=heap, script=[])
    r = rng.random()
    if r < 0.05:
        case["params"][rng.randrange(len(params))] = UNKP      # unknown parameter name
    elif r < 0.10:
        case["fn_unknown"] = True                               # unknown function name
    if rng.random() < 0.4:
        case["body"] = "tmp"                                    # body with an undeclared intermediate
    n = n_probes(case) if UNKP not in case["params"] else 3
    style = rng.random()
    if style < 0.35:                      # a single deviation at a random evaluation
        script = ["s"] * rng.randrange(0, n + 1) + [rng.choice(DEVIATIONS)]
    elif style < 0.45:                    # no deviation
        script = []
    else:                                 # several deviations
        script = ["s" if rng.random() < 0.8 else rng.choice(DEVIATIONS) for _ in range(rng.randrange(0, n + 2))]
    case["script"] = script
    return case


SOURCE_BODIES = {
    # niladic (multi-parameter forms) / monadic (point forms) Klong-source functions, no Python inside
    "intermediate": ("{c07e::(w*w)+b;+/c07e*c07e}", "{c07e::x*x;+/c07e}"),
    "two-intermediates": ("{c07e::w*2;c07t::(c07e*c07e)+b;+/c07t}", "{c07e::x*2;c07t::c07e*c07e;+/c07t}"),
    "unknown-name": ("{+/w*c07q}", "{+/x*c07q}"),
    "intermediate-then-unknown": ("{c07e::w*w;+/c07e*c07q}", "{c07e::x*x;+/c07e*c07q}"),
    "vector-valued": ("{c07t::w*2;(c07t*c07t)+b}", "{c07t::x*2;c07t*c07t}"),
    "declared-local": ("{[c07e];c07e::(w*w)+b;+/c07e*c07e}", "{[c07e];c07e::x*x;+/c07e}"),
    # a projection whose FIXED argument is an unknown name (only the point forms take a monad)
    "projection-unknown-fixed-arg": (None, "{+/x*y}(;c07q)"),
    "projection-known-fixed-arg": (None, "{+/x*y}(;m)"),
    # local declarations whose names COLLIDE with existing globals (m, e, mm), in the semicolon
    # spelling {[a;b];...} (1-3 names), the blank spelling, and inside a helper the loss calls
    "semicolon-locals-1": ("{[m];m::(w*w)+b;+/m*m}", "{[m];m::x*x;+/m}"),
    "semicolon-locals-2": ("{[m;e];m::(w*w)+b;e::m*2;+/e*e}", "{[m;e];m::x*x;e::m*2;+/e}"),
    "semicolon-locals-3": ("{[m;e;mm];m::(w*w)+b;e::m*2;mm::e+1;+/mm*mm}", "{[m;e;mm];m::x*x;e::m*2;mm::e+1;+/mm}"),
    "blank-locals-2": ("{[m e];m::(w*w)+b;e::m*2;+/e*e}", "{[m e];m::x*x;e::m*2;+/e}"),
    "semicolon-locals-in-helper": ("{c07h(w)+b*b}", "{c07h(x)}", ["c07h::{[m;e];m::x*x;e::m*2;+/e}"]),
    # Reshape with a -1 wildcard: the shape is a GLOBAL (sh, sh2) or a literal of the body
    "reshape-wildcard-global-shape": ("{[W];W::sh:^w;(+/,/W*W)+b*b}", "{[W];W::sh:^x;+/,/W*W}"),
    "reshape-wildcard-literal-shape": ("{[W];W::[-1 1]:^w;(+/,/W*W)+b*b}", "{[W];W::[-1 1]:^x;+/,/W*W}"),
}

# the differentiated function READS other globals (m: vector, mm: matrix) and transforms them with
# verbs that build a new list — and that an implementation might be tempted to do in place
TRANSFORMS = {
    "amend": "m:=0.0,0", "amend-two": "m:=9.0,0,2", "amend-in-depth": ",/mm:-0.0,0,1",
    "amend-row": ",/mm:=[9.0 9.0],0", "reverse": "|m", "rotate": "1:+m", "rotate-neg": "(-1):+m",
    "take": "2#m", "take-neg": "(-2)#m", "overtake": "5#m", "drop": "1_m", "reshape": ",/[3 1]:^m",
    "reshape-matrix": ",/[4 1]:^mm", "join": "m,m", "join-atom": "m,7.0", "index": "m@[2 0]",
    "index-in-depth": "mm:@[1 0]", "transpose": ",/+mm", "reverse-matrix": ",/|mm", "sort-up": "m@<m",
    "sort-down": "m@>m", "each": "{x*2}'m", "negate": "-m", "floor": "_m", "split": ",/2:#m",
    "scan": "+\\m", "first-rest": "(*m),1_m", "self-times": "m*m",
    "reshape-wildcard": ",/sh:^m", "reshape-wildcard-matrix": ",/sh2:^mm", "reshape-wildcard-join": ",/sh:^m,m",
    # non-parameter variables read through VIEWS (an element indexed out of a tensor, Take, First) and
    # consumed by folds / Iterate — an in-place `-=` / `/=` on such a view changes the variable (torch)
    "iterate-count-variable": "n{x*2}:*m", "iterate-count-indexed": "(cfg@0){x*2}:*m",
    "iterate-count-first": "(*cfg){x+1}:*m", "iterate-count-sum": "(+/cfg){x+1}:*m",
    "divide-over": "%/s", "divide-over-take": "%/2#s", "divide-over-index": "%/s@[0 1]", "divide-over-matrix": "%/mm",
    "minus-over": "-/s", "times-over": "*/s", "max-over": "|/s", "min-over": "&/s", "plus-over-matrix": "+/mm",
    "divide-scan": "%\\s", "minus-scan": "-\\s",
    "element-arith": "((s@0)+1),((*s)%2),(n+1)", "take-one-arith": "(1#s)-1", "each-pair": "-:'s",
}
for _n, _t in TRANSFORMS.items():
    SOURCE_BODIES["global:" + _n] = ("{c07s::+/" + _t + ";(+/w*w)+(b*b)+c07s}", "{c07s::+/" + _t + ";(+/x*x)+c07s}")


def source_cases(backends):
    vec = ["f64", [3], [M, 2 * M, 3 * M]]
    for be in backends:
        for form in FORMS:
            for body, spec in SOURCE_BODIES.items():
                nil, mon = spec[0], spec[1]
                if (mon if form in MONADIC else nil) is None:
                    continue
                kinds = [vec]
                if not body.startswith("global:"):
                    kinds.append(["pyfloat", [], [M // 2]])
                if be == "torch":
                    kinds.append(["t32", [3], [M, 2 * M, 3 * M]])
                for wk in kinds:
                    yield dict(kind="source", backend=be, form=form, body=body, w=list(wk))


def _source_interp(case):
    from klongpy import KlongInterpreter
    if case["backend"] == "torch":
        klong = KlongInterpreter(backend="torch", device="cpu")
    else:
        klong = KlongInterpreter()
    klong["w"] = make_value(*case["w"])
    klong["b"] = 0.5
    klong("m::[3.0 1.0 2.0]")
    klong("mm::[[1.0 2.0] [3.0 4.0]]")
    klong("e::2.718")
    klong("sh::[-1 1]")
    klong("sh2::[2 -1]")
    klong("cfg::[2 3]")
    klong("n::cfg@0")            # on torch: a 0-d tensor indexed out of cfg
    klong("s::[8.0 2.0 2.0]")
    spec = SOURCE_BODIES[case["body"]]
    nil, mon = spec[0], spec[1]
    for extra in (spec[2] if len(spec) > 2 else []):
        klong(extra)
    if nil is not None:
        klong("g::" + nil)
    if mon is not None:
        klong("f::" + mon)
    return klong


def run_source(case):
    """Pure Klong-source loss (no Python inside): intermediates kept in undeclared names, unknown
    names, projections, and bodies that read and transform OTHER globals.  Oracle only: by-value
    snapshot of ALL variables of all context levels (names included — new names count) taken
    BEFORE the function has ever been evaluated vs. after the gradient expression (returning or
    raising); the plain evaluation afterwards must give what it gives in a fresh interpreter and
    must itself leave the state alone."""
    form = case["form"]
    klong = _source_interp(case)
    nil, mon = SOURCE_BODIES[case["body"]][:2]
    expr = expr_of(dict(form=form, params=["w", "b"] if form in ("mgrad", "mjac") else ["w"]))

    def snapshot(k):
        return {(lvl, str(k_)): view(v) for lvl, d in enumerate(k._context._context) for k_, v in d.items()}

    def plain(k):
        try:
            return view(k("f(w)" if form in MONADIC else "g()"))
        except Exception as e:
            return "raises:" + type(e).__name__
    s0 = snapshot(klong)
    d0 = len(klong._context._context)
    try:
        klong(expr)
        outcome = "ok"
    except Exception:
        outcome = "exc"
    s1 = snapshot(klong)
    problems = []
    tag = f"c07:{case['backend']}:{form}:source"
    fn = f"g::{nil}" if form not in MONADIC else f"f::{mon}"
    new = sorted(nm for (lvl, nm) in s1 if (lvl, nm) not in s0)
    if new:
        key = f"{tag}:new-variable"
        if case["body"] == "projection-unknown-fixed-arg" and new == ["c07q"] and s1.get((0, "c07q")) == "~c07q":
            # the fixed argument of a projection is evaluated in the CALLER's scope (the global one
            # here); evaluating an undefined name binds it to itself there — same for a plain p(2.0)
            key = "c07:projection-fixed-arg-unknown-name:self-bound-in-caller-scope"
        problems.append((key, "no new variable", {nm: s1[k] for k in s1 for nm in [k[1]] if k not in s0},
                         f"`{expr}` ({outcome}) with {fn} left new global variable(s) {new}"))
    changed = sorted(k[1] for k in s0 if k in s1 and s1[k] != s0[k])
    gone = sorted(k[1] for k in s0 if k not in s1)
    if changed or gone:
        problems.append((f"{tag}:variable-changed", {n: s0[k] for k in s0 for n in [k[1]] if n in changed + gone},
                         {n: s1.get(k, "unbound") for k in s0 for n in [k[1]] if n in changed + gone},
                         f"`{expr}` ({outcome}) with {fn} changed/removed variable(s) {changed + gone}"))
    if len(klong._context._context) != d0:
        problems.append((f"{tag}:context-depth", d0, len(klong._context._context), "context frame leaked or dropped"))
    if not problems:
        # the function afterwards: same as in a fresh interpreter, and it leaves the state alone
        after_val = plain(klong)
        s2 = snapshot(klong)
        ref = _source_interp(case)
        ref_val = plain(ref)
        if after_val != ref_val:
            problems.append((f"{tag}:f-after-differs", ref_val, after_val,
                             f"{fn} evaluated after `{expr}` returns something else than in a fresh interpreter"))
        elif s2 != s1 and snapshot(ref) == s0:
            problems.append((f"{tag}:f-after-changes-state", "state unchanged", sorted(k[1] for k in s2 if s2[k] != s1.get(k)),
                             f"the plain evaluation of {fn} after `{expr}` now changes the program state"))
        elif form in MONADIC:
            # ... and on an argument of ANOTHER size (literals of the body must not remember the probes);
            # reference: an interpreter in which the function has never been evaluated at all
            def plain2(k):
                try:
                    return view(k("f(w,w)"))
                except Exception as e:
                    return "raises:" + type(e).__name__
            after2, ref2 = plain2(klong), plain2(_source_interp(case))
            if after2 != ref2:
                problems.append((f"{tag}:f-after-differs-other-size", ref2, after2,
                                 f"{fn} applied to w,w after `{expr}` returns something else than in a fresh interpreter"))
    return dict(problems=problems, expr=expr, outcome=outcome)


def literal_cases(backends):
    for be in backends:
        for form in ("grad", "nabla"):
            for data in ([M, 2 * M, 3 * M], [M // 2, -M]):
                for k in range(0, 2 * len(data)):
                    for mode in "rvkx":
                        yield dict(kind="literal", backend=be, form=form, data=data, script=["s"] * k + [mode])


# --------------------------------------------------------------------------- one case

def normalize(case):
    """The top-level expression evaluates its bare-name operands itself (an undefined name is then
    bound to itself by `KlongInterpreter.eval`, gradient operator or not): the function operand in
    every form and the point operand of f:>p, p∂f, .jacobian(f;p).  Those names are bound to
    themselves BEFORE the snapshot, so that any name appearing afterwards was created by the
    differentiation."""
    if case.get("kind") != "grad":
        return case
    case = dict(case, store=[list(e) for e in case["store"]])
    names = [n for n, _ in case["store"]]
    if case.get("fn_unknown") and UNKFN not in names:
        case["store"].append([UNKFN, "~" + UNKFN])
    if case["form"] in ("grad", "jac", "sysjac"):
        for p_ in case["params"]:
            if p_ not in [n for n, _ in case["store"]]:
                case["store"].append([p_, "~" + p_])
    return case


def _diff(m, d):
    mf, df = fields(m), fields(d)
    keys = [k for k in mf if mf.get(k) != df.get(k)] + [k for k in df if k not in mf]
    return ({k: mf.get(k) for k in keys}, {k: df.get(k) for k in keys})


def run_case(ctx, drv, case):
    """every exception out of the real code or out of the decoding of what it produced becomes an
    oracle failure with the case as replay (never an infrastructure error)"""
    try:
        return _run_case(ctx, drv, case)
    except common.Infra:
        raise
    except Exception as e:
        import traceback
        tb = traceback.format_exc().strip().split("\n")[-6:]
        ctx.oracle_fail(f"c07:{case.get('backend')}:{case.get('form')}:case-does-not-run", case,
                        "the gradient expression runs and the state can be read back",
                        f"{type(e).__name__}: {e}", " | ".join(tb))
        return dict(problems=[("case-does-not-run",)], expr="?", outcome="?", calls=0)


def _run_case(ctx, drv, case):
    case = normalize(case)
    if case.get("kind") == "source":
        r = run_source(case)
        for key, exp, obs, what in r["problems"]:
            ctx.oracle_fail(key, case, exp, obs, what)
        ctx.count(json.dumps(case, sort_keys=True))
        ctx.bump("klong-source-body:" + case["body"])
        return r
    if case.get("kind") == "literal":
        r = run_literal(case)
        for key, exp, obs, what in r["problems"]:
            ctx.oracle_fail(key, case, exp, obs, what)
        ctx.count(json.dumps(case, sort_keys=True))
        ctx.bump("literal-point")
        return r
    r = run_real(case)
    for key, exp, obs, what in r["problems"]:
        ctx.oracle_fail(key, case, exp, obs, what)
    if drv is not None:
        line = model_line(case, "repaired", selfbind=UNK in r["newsyms"])
        m = drv.ask(line)
        d = real_digest(r, case)
        if m != d:
            mm, dd = _diff(m, d)
            ctx.mismatch(f"Klong.C07.runForm (repaired) vs `{r['expr']}` on {case['backend']}", case, mm, dd)
    nontrivial = r["calls"] >= 1
    ctx.count(json.dumps(case, sort_keys=True), nontrivial=nontrivial)
    ctx.bump("form:" + case["form"])
    ctx.bump("backend:" + case["backend"])
    ctx.bump("outcome:" + r["outcome"])
    ctx.bump("evaluations:" + ("0" if r["calls"] == 0 else "1" if r["calls"] == 1 else "2-5" if r["calls"] <= 5 else "6+"))
    first = next((o for o in case["script"][:r["calls"]] if o != "s"), "none")
    ctx.bump("first-deviation:" + {"r": "raise", "v": "non-scalar", "p": "plain-number", "u": "unknown-name",
                                   "k": "KeyboardInterrupt", "x": "SystemExit", "e": "GeneratorExit",
                                   "B": "custom-BaseException", "none": "none"}[first])
    if r["identity_changed"]:
        ctx.bump("rebound-to-an-equal-but-different-object")
    if case.get("fn_unknown"):
        ctx.bump("unknown-function-operand")
    if UNKP in case["params"]:
        ctx.bump("unknown-parameter-operand")
    return r


# --------------------------------------------------------------------------- entry

def _kernel_witness(ctx, r):
    """per-run kernel obligation: the recorded real run of the witness program is what the
    (repaired) Lean machine computes — checked by `decide`, not by the compiled driver"""
    heap0 = r["heap"][0].split("/")[2].replace(";", ", ")
    src = (
        "import Klong.Props.C07\nopen Klong.C07\n"
        "example : (runForm .repaired .numpy (.gradPoint \"p\") witnessScript ⟨[\"p\"], none⟩ witnessState).1.calls"
        f" = {r['calls']} ∧\n"
        "  (runForm .repaired .numpy (.gradPoint \"p\") witnessScript ⟨[\"p\"], none⟩ witnessState).2 = "
        f"{'true' if r['outcome'] == 'ok' else 'false'} ∧\n"
        "  (runForm .repaired .numpy (.gradPoint \"p\") witnessScript ⟨[\"p\"], none⟩ witnessState).1.heap[0]? = "
        f"some ⟨.f64, [3], [{heap0}]⟩ := by decide\n")
    ok, out = common.lean_run(src)
    ctx.obligation("recorded run of the witness program `f:>p` = Klong.C07.runForm (kernel decide)", ok, out[-600:])


def run(ctx):
    quick = ctx.tier == "quick"
    thorough = not quick
    drv = Driver("c07") if getattr(ctx, "driver_ok", True) else None
    backends = ["numpy"] + (["torch"] if have_torch() else [])
    ctx.extra["backends"] = backends
    ctx.rule = ("systematic: backend x form (f:>p, p∇f, p∂f, .jacobian, g:>[w b], [w b]∂g) x parameter kind x deviation "
                "(raise / non-scalar / plain number / unknown name) x every evaluation index k up to the number of "
                "probes + 1, with a bystander, an alias of the parameter and a second parameter; random: heaps of 1-4 "
                "objects (scalars, vectors, matrices, rank 3), stores with aliases and symbol-valued names, 1-3 "
                "parameters (repeats allowed), scripts with several deviations, unknown function / parameter operands; "
                "literal points. distinct = distinct case descriptions; non-trivial = the function was evaluated at least once")
    ctx.assumptions += [
        "the differentiated function has no side effects of its own (it only reads its argument and globals)",
        "values are exact multiples of 0.25 (so float32 tensors hold them exactly) and |v| < 1e3: the wire unit is 1e-6",
        "an undefined name that is evaluated may become bound to itself (interpreter convention): allowed, reported",
        "torch autograd engine, requires_grad bookkeeping inside torch: observed (kind tag), not modelled",
    ]
    try:
        # 1. the Lean witness on the code under check and on the model
        r = run_case(ctx, drv, dict(WITNESS))
        ctx.extra["pinned_witness_reproduces_on_code"] = bool(r["problems"])
        ctx.extra["model_variants"] = ("repaired (np.array copy, fix a9bfa81): grad_pure proved in full; pinned "
                                       "(np.asarray alias): pinned_pure_on_success_partial + pinned_not_pure")
        ctx.sample(dict(WITNESS))
        if drv is not None:
            mp = fields(drv.ask(model_line(WITNESS, "pinned")))
            ctx.extra["pinned_model_final_heap"] = mp.get("heap")
            if mp.get("heap") != "f64/3/999999;2000000;3000000":
                ctx.mismatch("pinned variant of the model on the witness", WITNESS, mp.get("heap"),
                             "f64/3/999999;2000000;3000000")
        _kernel_witness(ctx, r)
        # 2. corpus
        cdir = common.CORPUS / "C07"
        if cdir.exists():
            for p in sorted(cdir.glob("*.json")):
                run_case(ctx, drv, json.loads(p.read_text()))
        # 3. Klong-source bodies (undeclared intermediates, unknown names), then the systematic sweep
        for case in source_cases(backends):
            run_case(ctx, drv, case)
        for case in systematic_cases(backends, thorough):
            run_case(ctx, drv, case)
        for case in literal_cases(backends):
            run_case(ctx, drv, case)
        # 4. random cases
        n = 1500 if quick else 40000
        for i in range(n):
            case = random_case(ctx.rng, backends, thorough)
            run_case(ctx, drv, case)
            if i < 4:
                ctx.sample(case)
    finally:
        if drv:
            drv.close()


def replay(ctx, case):
    drv = Driver("c07") if getattr(ctx, "driver_ok", True) else None
    c = case.get("case", case)
    try:
        if isinstance(c, dict) and c.get("kind") in ("grad", "literal", "source"):
            r = run_case(ctx, drv, c)
            print("replay:", r.get("expr"), {k: v for k, v in r.items() if k in ("outcome", "calls", "final", "heap")})
        else:
            run(ctx)
    finally:
        if drv:
            drv.close()
    print("replay:", "oracle failures:", ctx.oracle_failures, "mismatches:", ctx.mismatches)
